(* GroupingP.v — specification and proofs for Model/Grouping.v (C16). *)
From Mokaverif Require Import Model.Base Model.Grouping.
From Coq Require Import Lia Permutation.
Open Scope nat_scope.

Section GroupingProofs.
Variable P : Type.
Variable peqb : P -> P -> bool.
Hypothesis peqb_spec : forall a b, reflect (a = b) (peqb a b).

Local Notation neqb := (gr_name_eqb P peqb).
Local Notation memn := (gr_memn P peqb).
Local Notation lookup := (gr_lookup P).
Local Notation update := (gr_update P).
Local Notation set_add := (gr_set_add P peqb).
Local Notation set_remove := (gr_set_remove P peqb).
Local Notation haskey := (gr_haskey P peqb).
Local Notation pop := (gr_pop P peqb).
Local Notation dict_set := (gr_dict_set P peqb).

(* ------------------------------------------------------------------ basic reflection *)
Lemma neqb_spec : forall a b, reflect (a = b) (neqb a b).
Proof.
  induction a as [|x a IH]; intros [|y b]; simpl; try (constructor; congruence).
  destruct (peqb_spec x y) as [E|E]; simpl.
  - destruct (IH b) as [E2|E2]; constructor; congruence.
  - constructor; congruence.
Qed.

Lemma neqb_refl : forall a, neqb a a = true.
Proof. intros a. destruct (neqb_spec a a); congruence. Qed.

Lemma memn_spec : forall x l, memn x l = true <-> In x l.
Proof.
  intros x l. unfold gr_memn. rewrite existsb_exists. split.
  - intros [y [Hy E]]. destruct (neqb_spec x y); congruence.
  - intros H. exists x. split; [assumption|apply neqb_refl].
Qed.

Lemma memn_false : forall x l, memn x l = false <-> ~ In x l.
Proof.
  intros x l. rewrite <- memn_spec. destruct (memn x l); split; congruence.
Qed.

Lemma memp_spec : forall x l, gr_memp x l = true <-> In x l.
Proof.
  intros x l. unfold gr_memp. rewrite existsb_exists. split.
  - intros [y [Hy E]]. apply Nat.eqb_eq in E. congruence.
  - intros H. exists x. split; [assumption|apply Nat.eqb_refl].
Qed.

Lemma memp_false : forall x l, gr_memp x l = false <-> ~ In x l.
Proof.
  intros x l. rewrite <- memp_spec. destruct (gr_memp x l); split; congruence.
Qed.

Lemma dedup_in : forall x l, In x (gr_dedup l) <-> In x l.
Proof.
  intros x l. induction l as [|y l IH]; simpl; [tauto|].
  destruct (gr_memp y l) eqn:E.
  - rewrite IH. apply memp_spec in E. split; [tauto|]. intros [H|H]; congruence.
  - simpl. rewrite IH. tauto.
Qed.

Lemma dedup_nodup : forall l, NoDup (gr_dedup l).
Proof.
  induction l as [|y l IH]; simpl; [constructor|].
  destruct (gr_memp y l) eqn:E; [assumption|].
  constructor; [|assumption]. rewrite dedup_in. apply memp_false. assumption.
Qed.

Lemma dedup_id : forall l, NoDup l -> gr_dedup l = l.
Proof.
  induction l as [|y l IH]; intros H; simpl; [reflexivity|].
  inversion H as [|? ? Hn Hd]; subst.
  apply memp_false in Hn. rewrite Hn. f_equal. apply IH. assumption.
Qed.

(* ------------------------------------------------------------------ the peptide dict *)
Lemma lookup_update_same : forall k v pm, lookup k (update k v pm) = v.
Proof.
  intros k v pm. induction pm as [|[k' w] r IH]; simpl.
  - rewrite Nat.eqb_refl. reflexivity.
  - destruct (Nat.eqb k k') eqn:E; simpl; rewrite E; [reflexivity|assumption].
Qed.

Lemma lookup_update_other : forall k k' v pm, k <> k' -> lookup k' (update k v pm) = lookup k' pm.
Proof.
  intros k k' v pm Hne. induction pm as [|[k0 w] r IH]; simpl.
  - destruct (Nat.eqb k' k) eqn:E; [apply Nat.eqb_eq in E; congruence|reflexivity].
  - destruct (Nat.eqb k k0) eqn:E; simpl.
    + apply Nat.eqb_eq in E. subst k0.
      destruct (Nat.eqb k' k) eqn:E2; [apply Nat.eqb_eq in E2; congruence|reflexivity].
    + destruct (Nat.eqb k' k0); [reflexivity|assumption].
Qed.

Lemma set_add_in : forall x y s, In y (set_add x s) <-> y = x \/ In y s.
Proof.
  intros x y s. unfold gr_set_add. destruct (memn x s) eqn:E.
  - apply memn_spec in E. split; [tauto|]. intros [H|H]; congruence.
  - rewrite in_app_iff. simpl. split; intros H; intuition congruence.
Qed.

Lemma set_add_nodup : forall x s, NoDup s -> NoDup (set_add x s).
Proof.
  intros x s H. unfold gr_set_add. destruct (memn x s) eqn:E; [assumption|].
  apply memn_false in E.
  apply NoDup_rev in H. rewrite <- (rev_involutive (s ++ [x])). apply NoDup_rev.
  rewrite rev_app_distr. simpl. constructor; [|assumption].
  rewrite <- in_rev. assumption.
Qed.

Lemma set_remove_in : forall x y s, In y (set_remove x s) <-> In y s /\ y <> x.
Proof.
  intros x y s. unfold gr_set_remove. rewrite filter_In.
  destruct (neqb_spec x y) as [E|E]; simpl; split; intros H; intuition congruence.
Qed.

Lemma set_remove_nodup : forall x s, NoDup s -> NoDup (set_remove x s).
Proof. intros x s H. unfold gr_set_remove. apply NoDup_filter. assumption. Qed.

(* ------------------------------------------------------------------ the group dict *)
Lemma haskey_spec : forall m g, haskey m g = true <-> exists S, In (m, S) g.
Proof.
  intros m g. unfold gr_haskey. rewrite existsb_exists. split.
  - intros [[k v] [Hin E]]. simpl in E. destruct (neqb_spec m k); [subst; eauto|congruence].
  - intros [S Hin]. exists (m, S). split; [assumption|apply neqb_refl].
Qed.

Lemma pop_some : forall m g S, In (m, S) g ->
  exists S' g', pop m g = Some (S', g') /\ Permutation g ((m, S') :: g').
Proof.
  intros m g S. induction g as [|[k v] r IH]; intros Hin; [contradiction|].
  simpl. destruct (neqb_spec m k) as [E|E].
  - subst k. exists v, r. split; [reflexivity|apply Permutation_refl].
  - destruct Hin as [Hin|Hin]; [congruence|].
    destruct (IH Hin) as [S' [g' [Hp Hperm]]]. rewrite Hp.
    exists S', ((k, v) :: g'). split; [reflexivity|].
    eapply perm_trans; [apply perm_skip; exact Hperm|apply perm_swap].
Qed.

Lemma dict_set_fresh : forall k v g, haskey k g = false -> dict_set k v g = g ++ [(k, v)].
Proof.
  intros k v g. induction g as [|[k' w] r IH]; simpl; intros H; [reflexivity|].
  unfold gr_haskey in H. simpl in H. apply orb_false_iff in H. destruct H as [H1 H2].
  rewrite H1. f_equal. apply IH. exact H2.
Qed.

Lemma update_peps_ok : forall m p nw S pm,
  NoDup S -> (forall pep, In pep S -> In m (lookup pep pm)) ->
  exists pm', gr_update_peps P peqb m p nw S pm = Ok pm' /\
    forall pep, lookup pep pm' =
      if gr_memp pep S then set_add nw (set_remove [p] (set_remove m (lookup pep pm)))
      else lookup pep pm.
Proof.
  intros m p nw S. induction S as [|pep0 r IH]; intros pm Hnd Hin.
  - exists pm. split; [reflexivity|]. intros pep. reflexivity.
  - inversion Hnd as [|? ? Hn0 Hndr]; subst.
    simpl. assert (Hm : memn m (lookup pep0 pm) = true).
    { apply memn_spec. apply Hin. left. reflexivity. }
    rewrite Hm.
    set (pm1 := update pep0 (set_add nw (set_remove [p] (set_remove m (lookup pep0 pm)))) pm).
    destruct (IH pm1 Hndr) as [pm' [Hrun Hlk]].
    { intros pep Hp. unfold pm1. rewrite lookup_update_other.
      - apply Hin. right. assumption.
      - intros E. subst. contradiction. }
    exists pm'. split; [assumption|].
    intros pep. rewrite Hlk. unfold gr_memp. simpl.
    destruct (Nat.eqb pep pep0) eqn:E; simpl.
    + apply Nat.eqb_eq in E. subst pep.
      apply memp_false in Hn0. unfold gr_memp in Hn0. rewrite Hn0.
      unfold pm1. apply lookup_update_same.
    + assert (Hne : pep0 <> pep) by (intros E2; subst; rewrite Nat.eqb_refl in E; discriminate).
      unfold pm1. rewrite (lookup_update_other _ _ _ _ Hne). reflexivity.
Qed.

(* ------------------------------------------------------------------ generic list facts *)
Lemma nodup_map_inj : forall {A B} (f : A -> B) l a b,
  NoDup (map f l) -> In a l -> In b l -> f a = f b -> a = b.
Proof.
  intros A B f l. induction l as [|x l IH]; intros a b Hnd Ha Hb E; [contradiction|].
  simpl in Hnd. inversion Hnd as [|? ? Hn Hd]; subst.
  destruct Ha as [Ha|Ha]; destruct Hb as [Hb|Hb]; subst.
  - reflexivity.
  - exfalso. apply Hn. rewrite E. apply in_map. assumption.
  - exfalso. apply Hn. rewrite <- E. apply in_map. assumption.
  - apply IH; assumption.
Qed.

Definition keyhd (e : list P * list nat) : option P := hd_error (fst e).

(* ================================================================== declarative specification *)
Definition seteq (a b : list nat) : Prop := incl a b /\ incl b a.

(* S is (as a set) the peptide set of some protein and no protein's peptide set is strictly larger *)
Definition maximal (prots : list (P * list nat)) (S : list nat) : Prop :=
  (exists p peps, In (p, peps) prots /\ seteq S peps) /\
  forall q peps, In (q, peps) prots -> incl S peps -> incl peps S.

(* the members of the group with peptide set S are exactly the proteins whose peptides lie in S *)
Definition members_ok (prots : list (P * list nat)) (n : list P) (S : list nat) : Prop :=
  forall x, In x n <-> exists peps, In (x, peps) prots /\ incl peps S.

Record group_spec (prots : list (P * list nat)) (g : gr_groups P) : Prop := {
  gs_maximal : forall n S, In (n, S) g -> maximal prots S;
  gs_members : forall n S, In (n, S) g -> members_ok prots n S;
  gs_founder : forall n S, In (n, S) g -> exists f, In f n /\ In (f, S) prots;
  gs_listed_once : forall n S, In (n, S) g -> NoDup n;
  gs_all_maximal : forall S, maximal prots S -> exists n S', In (n, S') g /\ seteq S' S;
  gs_keys : NoDup (map fst g);
  gs_anti : forall n S n' S', In (n, S) g -> In (n', S') g -> incl S S' -> n = n';
  gs_cover : forall p peps, In (p, peps) prots -> exists n S, In (n, S) g /\ In p n }.

(* the returned peptide dict: peptide -> the groups whose peptide set contains it *)
Definition pmap_spec (g : gr_groups P) (pm : gr_pmap P) : Prop :=
  forall pep, NoDup (lookup pep pm) /\
              forall x, In x (lookup pep pm) <-> exists S, In (x, S) g /\ In pep S.

Lemma group_spec_ext : forall prots prots' g,
  (forall e, In e prots <-> In e prots') -> group_spec prots g -> group_spec prots' g.
Proof.
  intros prots prots' g Hext Hs.
  assert (Hmax : forall S, maximal prots S <-> maximal prots' S).
  { intros S. unfold maximal. split.
    - intros [[p [peps [Hin Heq]]] Hm]. split.
      + exists p, peps. split; [apply Hext; assumption|assumption].
      + intros q pq Hq. apply Hm with q. apply Hext. assumption.
    - intros [[p [peps [Hin Heq]]] Hm]. split.
      + exists p, peps. split; [apply Hext; assumption|assumption].
      + intros q pq Hq. apply Hm with q. apply Hext. assumption. }
  constructor.
  - intros n S Hin. apply Hmax. apply (gs_maximal _ _ Hs n S Hin).
  - intros n S Hin x. rewrite (gs_members _ _ Hs n S Hin x). split.
    + intros [peps [H1 H2]]. exists peps. split; [apply Hext; assumption|assumption].
    + intros [peps [H1 H2]]. exists peps. split; [apply Hext; assumption|assumption].
  - intros n S Hin. destruct (gs_founder _ _ Hs n S Hin) as [f [H1 H2]]. exists f.
    split; [assumption|apply Hext; assumption].
  - apply (gs_listed_once _ _ Hs).
  - intros S HS. apply (gs_all_maximal _ _ Hs). apply Hmax. assumption.
  - apply (gs_keys _ _ Hs).
  - apply (gs_anti _ _ Hs).
  - intros p peps Hin. apply (gs_cover _ _ Hs p peps). apply Hext. assumption.
Qed.

(* ================================================================== invariants *)
Section Inv.
Variable L : list (P * list nat).
Hypothesis L_names : NoDup (map fst L).
Hypothesis L_peps : forall p peps, In (p, peps) L -> NoDup peps.

Lemma L_fun : forall p a b, In (p, a) L -> In (p, b) L -> a = b.
Proof.
  intros p a b Ha Hb.
  assert (E : (p, a) = (p, b)) by (eapply nodup_map_inj; eauto).
  congruence.
Qed.

(* C16_invariant: the names recorded for a peptide are the current groups containing it, plus
   the one-element names of the proteins that no group has absorbed for this peptide yet *)
Definition pm_inv (g : gr_groups P) (pm : gr_pmap P) : Prop :=
  forall pep x, In x (lookup pep pm) <->
    (exists S, In (x, S) g /\ In pep S) \/
    (exists p peps, In (p, peps) L /\ x = [p] /\ In pep peps /\
                    forall n S, In (n, S) g -> In p n -> ~ In pep S).

Definition pm_nodup (pm : gr_pmap P) : Prop := forall pep, NoDup (lookup pep pm).

Record core (proc : P -> Prop) (g : gr_groups P) : Prop := {
  c_founder : forall n S, In (n, S) g -> exists f ms, n = f :: ms /\ In (f, S) L;
  c_heads : NoDup (map keyhd g);
  c_members : forall n S x, In (n, S) g -> In x n ->
                proc x /\ exists peps, In (x, peps) L /\ incl peps S;
  c_anti : forall n S n' S', In (n, S) g -> In (n', S') g -> incl S S' -> n = n';
  c_nodup : forall n S, In (n, S) g -> NoDup n }.

Lemma core_key_fun : forall proc g n S S', core proc g -> In (n, S) g -> In (n, S') g -> S = S'.
Proof.
  intros proc g n S S' Hc H1 H2.
  assert (E : (n, S) = (n, S')).
  { eapply nodup_map_inj; [apply (c_heads _ _ Hc)|assumption|assumption|reflexivity]. }
  congruence.
Qed.

Definition no_founder (p : P) (g : gr_groups P) : Prop :=
  forall n S, In (n, S) g -> hd_error n <> Some p.

Lemma nodup_snoc : forall {A} (l : list A) x, NoDup l -> ~ In x l -> NoDup (l ++ [x]).
Proof.
  intros A l x. induction l as [|y l IH]; intros Hnd Hn; simpl.
  - constructor; [intros []|constructor].
  - inversion Hnd as [|? ? Hy Hd]; subst. constructor.
    + rewrite in_app_iff. simpl. intros [H|[H|[]]]; [contradiction|].
      subst. apply Hn. left. reflexivity.
    + apply IH; [assumption|]. intros H. apply Hn. right. assumption.
Qed.

(* one iteration of "for match in matches" *)
Lemma rename_ok : forall proc p peps_p g pm m S,
  In (p, peps_p) L -> core proc g -> proc p -> no_founder p g ->
  pm_inv g pm -> pm_nodup pm -> In (m, S) g -> incl peps_p S -> ~ In p m ->
  exists g0 pm',
    gr_rename P peqb p (g, pm) m = Ok (g0 ++ [(m ++ [p], S)], pm') /\
    Permutation g ((m, S) :: g0) /\
    core proc (g0 ++ [(m ++ [p], S)]) /\ no_founder p (g0 ++ [(m ++ [p], S)]) /\
    pm_inv (g0 ++ [(m ++ [p], S)]) pm' /\ pm_nodup pm'.
Proof.
  intros proc p peps_p g pm m S HpL Hc Hproc Hnf Hinv Hnd HinS Hincl Hpm.
  destruct (pop_some m g S HinS) as [S' [g0 [Hpop Hperm]]].
  assert (ES : S' = S).
  { eapply core_key_fun; [exact Hc| |exact HinS].
    eapply Permutation_in; [apply Permutation_sym; exact Hperm|left; reflexivity]. }
  subst S'.
  assert (Hg : forall n S0, In (n, S0) g <-> (n = m /\ S0 = S) \/ In (n, S0) g0).
  { intros n S0. split.
    - intros H. apply (Permutation_in _ Hperm) in H. destruct H as [H|H]; [left; split; congruence|right; assumption].
    - intros [[E1 E2]|H]; [subst; assumption|].
      eapply Permutation_in; [apply Permutation_sym; exact Hperm|right; assumption]. }
  destruct (c_founder _ _ Hc m S HinS) as [f [ms [Em HfL]]].
  assert (Hhd : NoDup (keyhd (m, S) :: map keyhd g0)).
  { change (NoDup (map keyhd ((m, S) :: g0))). eapply Permutation_NoDup; [|apply (c_heads _ _ Hc)].
    apply Permutation_map. exact Hperm. }
  assert (Hm_notin : forall n S0, In (n, S0) g0 -> hd_error n <> Some f).
  { intros n S0 Hin E. inversion Hhd as [|? ? Hn _]; subst. apply Hn.
    unfold keyhd at 1. simpl. rewrite <- E. change (hd_error n) with (keyhd (n, S0)).
    apply in_map. assumption. }
  set (nw := m ++ [p]).
  assert (Hfresh : haskey nw g0 = false).
  { destruct (haskey nw g0) eqn:E; [|reflexivity]. apply haskey_spec in E. destruct E as [S1 H1].
    exfalso. apply (Hm_notin nw S1 H1). unfold nw. subst m. reflexivity. }
  assert (HSnd : NoDup S) by (eapply L_peps; exact HfL).
  destruct (update_peps_ok m p nw S pm HSnd) as [pm' [Hrun Hlk]].
  { intros pep Hpep. apply Hinv. left. exists S. split; assumption. }
  exists g0, pm'.
  assert (HinG' : forall n S0, In (n, S0) (g0 ++ [(nw, S)]) <-> In (n, S0) g0 \/ (n = nw /\ S0 = S)).
  { intros n S0. rewrite in_app_iff. simpl. split.
    - intros [H|[H|[]]]; [left; assumption|right; split; congruence].
    - intros [H|[E1 E2]]; [left; assumption|right; left; congruence]. }
  split.
  { unfold gr_rename. simpl fst. simpl snd. rewrite Hpop. fold nw. rewrite Hrun.
    rewrite dict_set_fresh by assumption. reflexivity. }
  split; [exact Hperm|].
  split.
  { constructor.
    - intros n S0 Hin. apply HinG' in Hin. destruct Hin as [Hin|[E1 E2]].
      + apply (c_founder _ _ Hc). apply Hg. right. assumption.
      + subst n S0. exists f, (ms ++ [p]). split; [unfold nw; subst m; reflexivity|assumption].
    - rewrite map_app. simpl. eapply Permutation_NoDup; [|exact Hhd].
      replace (keyhd (nw, S)) with (keyhd (m, S)) by (unfold keyhd, nw; subst m; reflexivity).
      apply Permutation_cons_append.
    - intros n S0 x Hin Hx. apply HinG' in Hin. destruct Hin as [Hin|[E1 E2]].
      + apply (c_members _ _ Hc n S0 x); [apply Hg; right; assumption|assumption].
      + subst n S0. unfold nw in Hx. apply in_app_iff in Hx. destruct Hx as [Hx|[Hx|[]]].
        * apply (c_members _ _ Hc m S x); assumption.
        * subst x. split; [assumption|]. exists peps_p. split; assumption.
    - intros n S0 n' S0' Hin Hin' Hsub. apply HinG' in Hin. apply HinG' in Hin'.
      destruct Hin as [Hin|[E1 E2]]; destruct Hin' as [Hin'|[E1' E2']].
      + apply (c_anti _ _ Hc n S0 n' S0'); [apply Hg; right; assumption|apply Hg; right; assumption|assumption].
      + subst n' S0'. exfalso.
        assert (E : n = m).
        { apply (c_anti _ _ Hc n S0 m S); [apply Hg; right; assumption|assumption|assumption]. }
        subst n. apply (Hm_notin m S0 Hin). subst m. reflexivity.
      + subst n S0. exfalso.
        assert (E : m = n').
        { apply (c_anti _ _ Hc m S n' S0'); [assumption|apply Hg; right; assumption|assumption]. }
        subst n'. apply (Hm_notin m S0' Hin'). subst m. reflexivity.
      + congruence.
    - intros n S0 Hin. apply HinG' in Hin. destruct Hin as [Hin|[E1 E2]].
      + apply (c_nodup _ _ Hc n S0). apply Hg. right. assumption.
      + subst n. unfold nw. apply nodup_snoc; [apply (c_nodup _ _ Hc m S); assumption|assumption]. }
  split.
  { intros n S0 Hin. apply HinG' in Hin. destruct Hin as [Hin|[E1 E2]].
    - apply (Hnf n S0). apply Hg. right. assumption.
    - subst n. unfold nw. intros E. apply (Hnf m S HinS). subst m. exact E. }
  split.
  2:{ intros pep. rewrite Hlk. destruct (gr_memp pep S); [|apply Hnd].
      apply set_add_nodup. apply set_remove_nodup. apply set_remove_nodup. apply Hnd. }
  intros pep x. rewrite Hlk. destruct (gr_memp pep S) eqn:EmS.
  - apply memp_spec in EmS. rewrite set_add_in, set_remove_in, set_remove_in. rewrite (Hinv pep x). split.
    + intros [Hx | [[Hold Hxm] Hxp]].
      * left. exists S. split; [apply HinG'; right; auto|assumption].
      * destruct Hold as [[S0 [HinS0 Hpep]] | [p0 [peps0 [HL [Hx [Hpep Hcl]]]]]].
        -- left. exists S0. split; [|assumption]. apply HinG'. left. apply Hg in HinS0.
           destruct HinS0 as [[E _]|H]; [congruence|assumption].
        -- right. exists p0, peps0. repeat split; try assumption.
           intros n S1 Hin1 Hp0n. apply HinG' in Hin1. destruct Hin1 as [Hin1|[En E1]].
           ++ apply (Hcl n S1); [apply Hg; right; assumption|assumption].
           ++ subst n S1. unfold nw in Hp0n. apply in_app_iff in Hp0n. destruct Hp0n as [Hp0m|[E|[]]].
              ** apply (Hcl m S); [assumption|assumption].
              ** subst p0. congruence.
    + intros [[S0 [HinS0 Hpep]] | [p0 [peps0 [HL [Hx [Hpep Hcl]]]]]].
      * apply HinG' in HinS0. destruct HinS0 as [Hin0|[En E1]].
        -- right. split; [split|].
           ++ left. exists S0. split; [apply Hg; right; assumption|assumption].
           ++ intros E. subst x. apply (Hm_notin m S0 Hin0). subst m. reflexivity.
           ++ intros E. subst x. apply (Hnf [p] S0); [apply Hg; right; assumption|reflexivity].
        -- left. assumption.
      * right.
        assert (Hp0 : ~ In p0 nw).
        { intros Hcn. apply (Hcl nw S); [apply HinG'; right; auto|assumption|assumption]. }
        assert (Hp0m : ~ In p0 m) by (intros H; apply Hp0; unfold nw; apply in_app_iff; left; assumption).
        assert (Hp0p : p0 <> p) by (intros H; apply Hp0; unfold nw; apply in_app_iff; right; left; congruence).
        split; [split|].
        -- right. exists p0, peps0. repeat split; try assumption.
           intros n S1 Hin1 Hp0n. apply Hg in Hin1. destruct Hin1 as [[En E1]|Hin1].
           ++ subst n. contradiction.
           ++ apply (Hcl n S1); [apply HinG'; left; assumption|assumption].
        -- intros E. subst x. apply Hp0m. rewrite <- E. left. reflexivity.
        -- intros E. subst x. congruence.
  - apply memp_false in EmS. rewrite (Hinv pep x). split.
    + intros [[S0 [HinS0 Hpep]] | [p0 [peps0 [HL [Hx [Hpep Hcl]]]]]].
      * left. exists S0. split; [|assumption]. apply HinG'. left. apply Hg in HinS0.
        destruct HinS0 as [[En E1]|H]; [subst; contradiction|assumption].
      * right. exists p0, peps0. repeat split; try assumption.
        intros n S1 Hin1 Hp0n. apply HinG' in Hin1. destruct Hin1 as [Hin1|[En E1]].
        -- apply (Hcl n S1); [apply Hg; right; assumption|assumption].
        -- subst S1. assumption.
    + intros [[S0 [HinS0 Hpep]] | [p0 [peps0 [HL [Hx [Hpep Hcl]]]]]].
      * left. exists S0. split; [|assumption]. apply HinG' in HinS0.
        destruct HinS0 as [H|[En E1]]; [apply Hg; right; assumption|subst; contradiction].
      * right. exists p0, peps0. repeat split; try assumption.
        intros n S1 Hin1 Hp0n. apply Hg in Hin1. destruct Hin1 as [[En E1]|Hin1].
        -- subst S1. assumption.
        -- apply (Hcl n S1); [apply HinG'; left; assumption|assumption].
Qed.

Lemma perm_key_notin : forall proc g m S g0, core proc g -> Permutation g ((m, S) :: g0) ->
  forall S0, ~ In (m, S0) g0.
Proof.
  intros proc g m S g0 Hc Hperm S0 Hin.
  assert (Hhd : NoDup (map keyhd ((m, S) :: g0))).
  { eapply Permutation_NoDup; [|apply (c_heads _ _ Hc)]. apply Permutation_map. exact Hperm. }
  simpl in Hhd. inversion Hhd as [|? ? Hn _]; subst. apply Hn.
  change (keyhd (m, S)) with (keyhd (m, S0)). apply in_map. assumption.
Qed.

(* the whole "for match in matches" loop *)
Lemma renames_ok : forall (proc : P -> Prop) p peps_p, In (p, peps_p) L -> proc p ->
  forall rest g pm,
  core proc g -> no_founder p g -> pm_inv g pm -> pm_nodup pm -> NoDup rest ->
  (forall m, In m rest -> exists S, In (m, S) g /\ incl peps_p S /\ ~ In p m) ->
  exists g' pm', gr_renames P peqb p (g, pm) rest = Ok (g', pm') /\
    core proc g' /\ no_founder p g' /\ pm_inv g' pm' /\ pm_nodup pm' /\
    (forall n S, In (n, S) g' ->
       (In (n, S) g /\ ~ In n rest) \/ (exists m, In m rest /\ In (m, S) g /\ n = m ++ [p])) /\
    (forall n S, In (n, S) g ->
       (~ In n rest -> In (n, S) g') /\ (In n rest -> In (n ++ [p], S) g')).
Proof.
  intros proc p peps_p HpL Hproc rest.
  induction rest as [|m r IH]; intros g pm Hc Hnf Hinv Hnd Hndr Hrest.
  - exists g, pm. split; [reflexivity|].
    split; [assumption|]. split; [assumption|]. split; [assumption|]. split; [assumption|].
    split.
    + intros n S H. left. split; [assumption|intros []].
    + intros n S H. split; [intros _; assumption|intros []].
  - inversion Hndr as [|? ? Hmr Hndr']; subst.
    destruct (Hrest m (or_introl eq_refl)) as [S [HinS [Hincl Hpm]]].
    destruct (rename_ok proc p peps_p g pm m S HpL Hc Hproc Hnf Hinv Hnd HinS Hincl Hpm)
      as [g0 [pm1 [Hrun [Hperm [Hc1 [Hnf1 [Hinv1 Hnd1]]]]]]].
    set (g1 := g0 ++ [(m ++ [p], S)]) in *.
    assert (Hg : forall n S0, In (n, S0) g <-> (n = m /\ S0 = S) \/ In (n, S0) g0).
    { intros n S0. split.
      - intros H. apply (Permutation_in _ Hperm) in H.
        destruct H as [H|H]; [left; split; congruence|right; assumption].
      - intros [[E1 E2]|H]; [subst; assumption|].
        eapply Permutation_in; [apply Permutation_sym; exact Hperm|right; assumption]. }
    assert (Hg1 : forall n S0, In (n, S0) g1 <-> In (n, S0) g0 \/ (n = m ++ [p] /\ S0 = S)).
    { intros n S0. unfold g1. rewrite in_app_iff. simpl. split.
      - intros [H|[H|[]]]; [left; assumption|right; split; congruence].
      - intros [H|[E1 E2]]; [left; assumption|right; left; congruence]. }
    assert (Hnotin := perm_key_notin proc g m S g0 Hc Hperm).
    assert (Hrp : forall m', In m' r -> ~ In p m').
    { intros m' Hm'. destruct (Hrest m' (or_intror Hm')) as [S' [_ [_ H]]]. exact H. }
    assert (Hnwr : ~ In (m ++ [p]) r).
    { intros H. apply (Hrp _ H). apply in_app_iff. right. left. reflexivity. }
    destruct (IH g1 pm1 Hc1 Hnf1 Hinv1 Hnd1 Hndr') as [g' [pm' [Hrun' [Hc' [Hnf' [Hinv' [Hnd' [R1 R2]]]]]]]].
    { intros m' Hm'. destruct (Hrest m' (or_intror Hm')) as [S' [HinS' [Hincl' Hpm']]].
      exists S'. split; [|split; assumption]. apply Hg1. left.
      apply Hg in HinS'. destruct HinS' as [[E _]|H]; [subst; contradiction|assumption]. }
    exists g', pm'. split.
    { simpl. rewrite Hrun. exact Hrun'. }
    split; [assumption|]. split; [assumption|]. split; [assumption|]. split; [assumption|].
    split; [|intros n S0 H; split].
    + intros n S0 Hin. destruct (R1 n S0 Hin) as [[Hin1 Hnr]|[m' [Hm' [Hin1 En]]]].
      * apply Hg1 in Hin1. destruct Hin1 as [Hin0|[En ES]].
        -- left. split; [apply Hg; right; assumption|].
           intros [E|H]; [subst n; exact (Hnotin S0 Hin0)|contradiction].
        -- right. exists m. subst. split; [left; reflexivity|split; [assumption|reflexivity]].
      * apply Hg1 in Hin1. destruct Hin1 as [Hin0|[Em' ES]].
        -- right. exists m'. split; [right; assumption|split; [apply Hg; right; assumption|assumption]].
        -- exfalso. subst m'. contradiction.
    + intros Hn. assert (Hnm : n <> m) by (intros E; apply Hn; left; congruence).
      apply Hg in H. destruct H as [[E _]|Hin0]; [contradiction|].
      apply (R2 n S0); [apply Hg1; left; assumption|]. intros Hr. apply Hn. right. assumption.
    + intros [E|Hr].
      * subst n. apply Hg in H. destruct H as [[_ ES]|Hin0]; [|exfalso; exact (Hnotin S0 Hin0)].
        subst S0. apply (R2 (m ++ [p]) S); [apply Hg1; right; split; reflexivity|assumption].
      * assert (Hnm : n <> m) by (intros E; subst; contradiction).
        apply Hg in H. destruct H as [[E _]|Hin0]; [contradiction|].
        apply (R2 n S0); [apply Hg1; left; assumption|assumption].
Qed.

Lemma core_mono : forall (proc proc' : P -> Prop) g,
  (forall x, proc x -> proc' x) -> core proc g -> core proc' g.
Proof.
  intros proc proc' g Himp Hc. constructor.
  - apply (c_founder _ _ Hc).
  - apply (c_heads _ _ Hc).
  - intros n S x Hin Hx. destruct (c_members _ _ Hc n S x Hin Hx) as [H1 H2]. split; [apply Himp; assumption|assumption].
  - apply (c_anti _ _ Hc).
  - apply (c_nodup _ _ Hc).
Qed.

(* the state between two iterations of the loop over proteins; [done] = proteins processed so far *)
Record ginv (done : list (P * list nat)) (g : gr_groups P) (pm : gr_pmap P) : Prop := {
  gi_core : core (fun x => In x (map fst done)) g;
  gi_complete : forall n S x peps, In (n, S) g -> In (x, peps) done -> incl peps S -> In x n;
  gi_cover : forall x peps, In (x, peps) done -> exists n S, In (n, S) g /\ In x n;
  gi_pm : pm_inv g pm;
  gi_nd : pm_nodup pm }.

(* for a current group, the names recorded for a peptide tell membership of the peptide *)
Lemma key_lookup : forall proc g pm m S pep, core proc g -> pm_inv g pm -> In (m, S) g ->
  (In m (lookup pep pm) <-> In pep S).
Proof.
  intros proc g pm m S pep Hc Hinv HinS. rewrite (Hinv pep m). split.
  - intros [[S0 [Hin0 Hpep]] | [p0 [peps0 [HL [Hx [Hpep Hcl]]]]]].
    + rewrite (core_key_fun proc g m S S0 Hc HinS Hin0). assumption.
    + exfalso. destruct (c_founder _ _ Hc m S HinS) as [f [ms [Em HfL]]].
      rewrite Hx in Em. injection Em as E1 E2. subst f ms.
      assert (E : S = peps0) by (eapply L_fun; eassumption). subst peps0.
      apply (Hcl m S HinS); [rewrite Hx; left; reflexivity|assumption].
  - intros H. left. exists S. split; assumption.
Qed.

Variable pi : P -> list (list P) -> list (list P).
Hypothesis pi_perm : forall p l, Permutation l (pi p l).

Lemma matches_ok : forall proc p peps g pm, core proc g -> pm_inv g pm -> pm_nodup pm -> peps <> [] ->
  exists ms, gr_matches P peqb pi p peps g pm = Ok ms /\ NoDup ms /\
    forall m, In m ms <-> exists S, In (m, S) g /\ incl peps S.
Proof.
  intros proc p peps g pm Hc Hinv Hnd Hne. destruct peps as [|pep0 rest]; [congruence|].
  unfold gr_matches.
  set (inter := filter (fun x => forallb (fun pp => memn x (lookup pp pm)) rest) (lookup pep0 pm)).
  exists (filter (fun m => haskey m g) (pi p inter)). split; [reflexivity|].
  assert (Hndi : NoDup inter) by (apply NoDup_filter; apply Hnd).
  split.
  - apply NoDup_filter. eapply Permutation_NoDup; [apply pi_perm|assumption].
  - intros m. rewrite filter_In. rewrite haskey_spec.
    assert (Hpi : In m (pi p inter) <-> In m inter).
    { split; intros H.
      - apply (Permutation_in _ (Permutation_sym (pi_perm p inter))). assumption.
      - apply (Permutation_in _ (pi_perm p inter)). assumption. }
    rewrite Hpi. unfold inter. rewrite filter_In. rewrite forallb_forall. split.
    + intros [[H0 Hr] [S HinS]]. exists S. split; [assumption|].
      intros pep [E|Hpep].
      * subst pep. apply (key_lookup proc g pm m S pep0 Hc Hinv HinS). assumption.
      * apply (key_lookup proc g pm m S pep Hc Hinv HinS). apply memn_spec. apply Hr. assumption.
    + intros [S [HinS Hincl]]. split; [|exists S; assumption]. split.
      * apply (key_lookup proc g pm m S pep0 Hc Hinv HinS). apply Hincl. left. reflexivity.
      * intros pp Hpp. apply memn_spec. apply (key_lookup proc g pm m S pp Hc Hinv HinS).
        apply Hincl. right. assumption.
Qed.

(* a protein that lies in no existing group founds a new one *)
Lemma add_group_ok : forall done p peps g pm,
  In (p, peps) L -> incl done L -> ~ In p (map fst done) ->
  (forall y, In y done -> length peps <= length (snd y)) ->
  ginv done g pm -> (forall m S, In (m, S) g -> ~ incl peps S) ->
  ginv (done ++ [(p, peps)]) (g ++ [([p], peps)]) pm.
Proof.
  intros done p peps g pm HpL HdL Hpnd Hlen Hgi Hnomatch.
  destruct Hgi as [Hc Hcomp Hcov Hinv Hnd].
  assert (HinG' : forall n S, In (n, S) (g ++ [([p], peps)]) <-> In (n, S) g \/ (n = [p] /\ S = peps)).
  { intros n S. rewrite in_app_iff. simpl. split.
    - intros [H|[H|[]]]; [left; assumption|right; split; congruence].
    - intros [H|[E1 E2]]; [left; assumption|right; left; congruence]. }
  assert (Hproc' : forall x, In x (map fst done) -> In x (map fst (done ++ [(p, peps)]))).
  { intros x H. rewrite map_app. apply in_app_iff. left. assumption. }
  assert (Hpg : forall n S, In (n, S) g -> ~ In p n).
  { intros n S Hin Hp. destruct (c_members _ _ Hc n S p Hin Hp) as [H _]. contradiction. }
  (* a processed protein whose peptides lie inside [peps] would have produced a match *)
  assert (Hsmall : forall x px, In (x, px) done -> ~ incl px peps).
  { intros x px Hx Hsub.
    assert (Hpx : NoDup px) by (eapply L_peps; apply HdL; exact Hx).
    assert (Hrev : incl peps px).
    { apply NoDup_length_incl; [assumption|apply (Hlen (x, px) Hx)|assumption]. }
    destruct (Hcov x px Hx) as [n0 [S0 [Hin0 Hxn0]]].
    destruct (c_members _ _ Hc n0 S0 x Hin0 Hxn0) as [_ [px' [HxL Hsub']]].
    assert (E : px' = px) by (eapply L_fun; [exact HxL|apply HdL; exact Hx]). subst px'.
    apply (Hnomatch n0 S0 Hin0). intros a Ha. apply Hsub'. apply Hrev. assumption. }
  constructor.
  - constructor.
    + intros n S Hin. apply HinG' in Hin. destruct Hin as [Hin|[E1 E2]].
      * apply (c_founder _ _ Hc). assumption.
      * subst. exists p, []. split; [reflexivity|assumption].
    + rewrite map_app. simpl. apply nodup_snoc; [apply (c_heads _ _ Hc)|].
      intros H. apply in_map_iff in H. destruct H as [[n S] [Ek Hin]].
      destruct (c_founder _ _ Hc n S Hin) as [f [ms [En _]]]. subst n.
      unfold keyhd in Ek. simpl in Ek. injection Ek as Ef. subst f.
      apply (Hpg _ _ Hin). left. reflexivity.
    + intros n S x Hin Hx. apply HinG' in Hin. destruct Hin as [Hin|[E1 E2]].
      * destruct (c_members _ _ Hc n S x Hin Hx) as [H1 H2]. split; [apply Hproc'; assumption|assumption].
      * subst. destruct Hx as [Hx|[]]. subst x. split.
        -- rewrite map_app. apply in_app_iff. right. left. reflexivity.
        -- exists peps. split; [assumption|apply incl_refl].
    + intros n S n' S' Hin Hin' Hsub. apply HinG' in Hin. apply HinG' in Hin'.
      destruct Hin as [Hin|[E1 E2]]; destruct Hin' as [Hin'|[E1' E2']].
      * apply (c_anti _ _ Hc n S n' S'); assumption.
      * subst n' S'. exfalso.
        destruct (c_founder _ _ Hc n S Hin) as [f [ms [En HfL]]].
        destruct (c_members _ _ Hc n S f Hin) as [Hf _]; [subst n; left; reflexivity|].
        apply in_map_iff in Hf. destruct Hf as [[f' pf] [Ef Hfd]]. simpl in Ef. subst f'.
        assert (E : pf = S) by (eapply L_fun; [apply HdL; exact Hfd|exact HfL]). subst pf.
        apply (Hsmall f S Hfd). assumption.
      * subst n S. exfalso. apply (Hnomatch n' S' Hin'). assumption.
      * congruence.
    + intros n S Hin. apply HinG' in Hin. destruct Hin as [Hin|[E1 E2]].
      * apply (c_nodup _ _ Hc n S). assumption.
      * subst n. constructor; [intros []|constructor].
  - intros n S x px Hin Hx Hsub. apply HinG' in Hin. apply in_app_iff in Hx.
    destruct Hin as [Hin|[E1 E2]]; destruct Hx as [Hx|[Hx|[]]].
    + apply (Hcomp n S x px); assumption.
    + injection Hx as E1 E2. subst x px. exfalso. apply (Hnomatch n S Hin). assumption.
    + subst n S. exfalso. apply (Hsmall x px Hx). assumption.
    + injection Hx as E3 E4. subst x px n. left. reflexivity.
  - intros x px Hx. apply in_app_iff in Hx. destruct Hx as [Hx|[Hx|[]]].
    + destruct (Hcov x px Hx) as [n [S [Hin Hxn]]]. exists n, S. split; [apply HinG'; left; assumption|assumption].
    + injection Hx as E1 E2. subst x px. exists [p], peps. split; [apply HinG'; right; auto|left; reflexivity].
  - intros pep x. rewrite (Hinv pep x). split.
    + intros [[S0 [Hin0 Hpep]] | [p0 [peps0 [HL [Hx [Hpep Hcl]]]]]].
      * left. exists S0. split; [apply HinG'; left; assumption|assumption].
      * destruct (peqb_spec p0 p) as [E|E].
        -- subst p0. assert (E2 : peps0 = peps) by (eapply L_fun; eassumption). subst peps0.
           left. exists peps. split; [apply HinG'; right; auto|assumption].
        -- right. exists p0, peps0. repeat split; try assumption.
           intros n S1 Hin1 Hp0n. apply HinG' in Hin1. destruct Hin1 as [Hin1|[En E1]].
           ++ apply (Hcl n S1); assumption.
           ++ subst n. destruct Hp0n as [Hp|[]]. congruence.
    + intros [[S0 [Hin0 Hpep]] | [p0 [peps0 [HL [Hx [Hpep Hcl]]]]]].
      * apply HinG' in Hin0. destruct Hin0 as [Hin0|[En E1]].
        -- left. exists S0. split; assumption.
        -- subst x S0. right. exists p, peps. repeat split; try assumption.
           intros n S1 Hin1 Hpn. exfalso. apply (Hpg n S1 Hin1). assumption.
      * right. exists p0, peps0. repeat split; try assumption.
        intros n S1 Hin1 Hp0n. apply (Hcl n S1); [apply HinG'; left; assumption|assumption].
  - assumption.
Qed.

(* one iteration of the loop over proteins *)
Lemma step_ok : forall done p peps g pm,
  In (p, peps) L -> incl done L -> ~ In p (map fst done) -> peps <> [] ->
  (forall y, In y done -> length peps <= length (snd y)) ->
  ginv done g pm ->
  exists g' pm', gr_step P peqb pi (g, pm) (p, peps) = Ok (g', pm') /\
                 ginv (done ++ [(p, peps)]) g' pm'.
Proof.
  intros done p peps g pm HpL HdL Hpnd Hne Hlen Hgi.
  assert (Hpg : forall n S, In (n, S) g -> ~ In p n).
  { intros n S Hin Hp. destruct (c_members _ _ (gi_core _ _ _ Hgi) n S p Hin Hp) as [H _]. contradiction. }
  destruct g as [|e g0].
  { exists [([p], peps)], pm. split; [reflexivity|].
    apply (add_group_ok done p peps [] pm); try assumption. intros m S []. }
  remember (e :: g0) as g eqn:Eg.
  assert (Hstep : gr_step P peqb pi (g, pm) (p, peps) =
                  match gr_matches P peqb pi p peps g pm with
                  | Err e0 => Err e0
                  | Ok [] => Ok (dict_set [p] peps g, pm)
                  | Ok ms => gr_renames P peqb p (g, pm) ms
                  end).
  { subst g. reflexivity. }
  clear Eg e g0.
  pose proof Hgi as Hgi0. destruct Hgi as [Hc Hcomp Hcov Hinv Hnd].
  destruct (matches_ok _ p peps g pm Hc Hinv Hnd Hne) as [ms [Hrun [Hndms Hms]]].
  rewrite Hrun in Hstep. destruct ms as [|m0 ms'].
  - (* no match *)
    assert (Hfresh : haskey [p] g = false).
    { destruct (haskey [p] g) eqn:E; [|reflexivity]. apply haskey_spec in E. destruct E as [S1 H1].
      exfalso. apply (Hpg [p] S1 H1). left. reflexivity. }
    rewrite dict_set_fresh in Hstep by assumption.
    exists (g ++ [([p], peps)]), pm. split; [exact Hstep|].
    apply add_group_ok; try assumption.
    intros m S Hin Hsub. assert (H : In m []) by (apply Hms; exists S; split; assumption). destruct H.
  - (* at least one match *)
    set (rest := m0 :: ms') in *.
    set (proc' := fun x => In x (map fst (done ++ [(p, peps)]))).
    assert (Hc' : core proc' g).
    { eapply core_mono; [|exact Hc]. intros x H. unfold proc'. rewrite map_app. apply in_app_iff. left. assumption. }
    assert (Hproc : proc' p).
    { unfold proc'. rewrite map_app. apply in_app_iff. right. left. reflexivity. }
    assert (Hnf : no_founder p g).
    { intros n S Hin E. apply (Hpg n S Hin). destruct n as [|a n']; [discriminate|].
      simpl in E. injection E as E. subst a. left. reflexivity. }
    destruct (renames_ok proc' p peps HpL Hproc rest g pm Hc' Hnf Hinv Hnd Hndms)
      as [g' [pm' [Hrun' [Hcg' [_ [Hinv' [Hnd' [R1 R2]]]]]]]].
    { intros m Hm. apply Hms in Hm. destruct Hm as [S [Hin Hsub]]. exists S.
      split; [assumption|split; [assumption|apply (Hpg m S Hin)]]. }
    exists g', pm'. split; [exact (eq_trans Hstep Hrun')|].
    constructor; try assumption.
    + intros n S x px Hin Hx Hsub. apply in_app_iff in Hx.
      destruct (R1 n S Hin) as [[Hing Hnr]|[m [Hm [Hing En]]]].
      * destruct Hx as [Hx|[Hx|[]]].
        -- apply (Hcomp n S x px); assumption.
        -- injection Hx as E1 E2. subst x px. exfalso. apply Hnr. apply Hms. exists S. split; assumption.
      * subst n. apply in_app_iff. destruct Hx as [Hx|[Hx|[]]].
        -- left. apply (Hcomp m S x px); assumption.
        -- injection Hx as E1 E2. subst x px. right. left. reflexivity.
    + intros x px Hx. apply in_app_iff in Hx. destruct Hx as [Hx|[Hx|[]]].
      * destruct (Hcov x px Hx) as [n [S [Hin Hxn]]].
        destruct (R2 n S Hin) as [Ra Rb].
        destruct (memn n rest) eqn:E.
        -- apply memn_spec in E. exists (n ++ [p]), S. split; [apply Rb; assumption|].
           apply in_app_iff. left. assumption.
        -- apply memn_false in E. exists n, S. split; [apply Ra; assumption|assumption].
      * injection Hx as E1 E2. subst x px.
        assert (Hm0 : In m0 rest) by (left; reflexivity).
        destruct (proj1 (Hms m0) Hm0) as [S [Hin Hsub]].
        destruct (R2 m0 S Hin) as [_ Rb].
        exists (m0 ++ [p]), S. split; [apply Rb; assumption|].
        apply in_app_iff. right. left. reflexivity.
Qed.

Fixpoint desc_sorted (l : list (P * list nat)) : Prop :=
  match l with
  | [] => True
  | x :: r => (forall y, In y r -> length (snd y) <= length (snd x)) /\ desc_sorted r
  end.

Lemma desc_sorted_app : forall a q b, desc_sorted (a ++ q :: b) ->
  forall y, In y a -> length (snd q) <= length (snd y).
Proof.
  induction a as [|x a IH]; intros q b Hs y Hy; [contradiction|].
  simpl in Hs. destruct Hs as [Hx Hs]. destruct Hy as [Hy|Hy].
  - subst y. apply Hx. apply in_app_iff. right. left. reflexivity.
  - apply (IH q b Hs y Hy).
Qed.

Lemma loop_ok : forall todo rest done g pm,
  L = done ++ todo ++ rest -> desc_sorted L -> (forall p peps, In (p, peps) L -> peps <> []) ->
  ginv done g pm ->
  exists g' pm', gr_loop P peqb pi (g, pm) todo = Ok (g', pm') /\ ginv (done ++ todo) g' pm'.
Proof.
  induction todo as [|[p peps] r IH]; intros rest done g pm EL Hs Hne Hgi.
  - rewrite app_nil_r. exists g, pm. split; [reflexivity|assumption].
  - assert (HpL : In (p, peps) L) by (rewrite EL; apply in_app_iff; right; left; reflexivity).
    assert (HdL : incl done L) by (intros y Hy; rewrite EL; apply in_app_iff; left; assumption).
    assert (Hpnd : ~ In p (map fst done)).
    { pose proof L_names as Hn. rewrite EL in Hn. rewrite map_app in Hn. simpl in Hn.
      apply NoDup_remove_2 in Hn. intros H. apply Hn. apply in_app_iff. left. assumption. }
    assert (Hlen : forall y, In y done -> length peps <= length (snd y)).
    { intros y Hy. rewrite EL in Hs. apply (desc_sorted_app done (p, peps) (r ++ rest) Hs y Hy). }
    destruct (step_ok done p peps g pm HpL HdL Hpnd (Hne p peps HpL) Hlen Hgi) as [g1 [pm1 [Hrun Hgi1]]].
    destruct (IH rest (done ++ [(p, peps)]) g1 pm1) as [g' [pm' [Hrun' Hgi']]]; try assumption.
    { rewrite <- app_assoc. exact EL. }
    exists g', pm'. split.
    + simpl. rewrite Hrun. exact Hrun'.
    + rewrite <- app_assoc in Hgi'. exact Hgi'.
Qed.

(* the peptide dict handed to _group_proteins: peptide -> one-element names of its proteins *)
Definition pm0_ok (pm : gr_pmap P) : Prop :=
  (forall pep x, In x (lookup pep pm) <-> exists p peps, In (p, peps) L /\ x = [p] /\ In pep peps)
  /\ pm_nodup pm.

Lemma ginv_init : forall pm, pm0_ok pm -> ginv [] [] pm.
Proof.
  intros pm [H0 Hnd]. constructor; try assumption.
  - constructor.
    + intros n S [].
    + constructor.
    + intros n S x [].
    + intros n S n' S' [].
    + intros n S [].
  - intros n S x peps [].
  - intros x peps [].
  - intros pep x. rewrite (H0 pep x). split.
    + intros [p [peps [HL [Hx Hpep]]]]. right. exists p, peps. repeat split; try assumption.
      intros n S [].
    + intros [[S [[] _]] | [p [peps [HL [Hx [Hpep _]]]]]]. exists p, peps. repeat split; assumption.
Qed.

Lemma ginv_spec : forall g pm, ginv L g pm -> group_spec L g /\ pmap_spec g pm.
Proof.
  intros g pm [Hc Hcomp Hcov Hinv Hnd].
  assert (Hmem : forall n S x, In (n, S) g -> In x n -> exists peps, In (x, peps) L /\ incl peps S).
  { intros n S x Hin Hx. destruct (c_members _ _ Hc n S x Hin Hx) as [_ H]. exact H. }
  split.
  - constructor.
    + intros n S Hin. destruct (c_founder _ _ Hc n S Hin) as [f [ms [En HfL]]]. split.
      * exists f, S. split; [assumption|split; apply incl_refl].
      * intros q peps Hq Hsub.
        destruct (Hcov q peps Hq) as [n' [S' [Hin' Hqn']]].
        destruct (Hmem n' S' q Hin' Hqn') as [peps' [Hq' Hsub']].
        assert (E : peps' = peps) by (eapply L_fun; eassumption). subst peps'.
        assert (En' : n = n').
        { apply (c_anti _ _ Hc n S n' S' Hin Hin'). intros a Ha. apply Hsub'. apply Hsub. assumption. }
        subst n'. rewrite (core_key_fun _ g n S S' Hc Hin Hin'). assumption.
    + intros n S Hin x. split.
      * intros Hx. apply (Hmem n S x Hin Hx).
      * intros [peps [Hx Hsub]]. apply (Hcomp n S x peps); assumption.
    + intros n S Hin. destruct (c_founder _ _ Hc n S Hin) as [f [ms [En HfL]]]. exists f.
      split; [subst n; left; reflexivity|assumption].
    + apply (c_nodup _ _ Hc).
    + intros S [[p [peps [Hp [HS1 HS2]]]] Hm].
      destruct (Hcov p peps Hp) as [n [S' [Hin Hpn]]].
      destruct (Hmem n S' p Hin Hpn) as [peps' [Hp' Hsub']].
      assert (E : peps' = peps) by (eapply L_fun; eassumption). subst peps'.
      destruct (c_founder _ _ Hc n S' Hin) as [f [ms [En HfL]]].
      exists n, S'. split; [assumption|]. split.
      * apply (Hm f S' HfL). intros a Ha. apply Hsub'. apply HS1. assumption.
      * intros a Ha. apply Hsub'. apply HS1. assumption.
    + pose proof (c_heads _ _ Hc) as H.
      assert (E : map keyhd g = map (@hd_error P) (map fst g)) by (rewrite map_map; reflexivity).
      rewrite E in H. apply NoDup_map_inv in H. exact H.
    + apply (c_anti _ _ Hc).
    + exact Hcov.
  - intros pep. split; [apply Hnd|]. intros x. rewrite (Hinv pep x). split.
    + intros [H | [p [peps [HL [Hx [Hpep Hcl]]]]]]; [exact H|].
      exfalso. destruct (Hcov p peps HL) as [n [S [Hin Hpn]]].
      destruct (Hmem n S p Hin Hpn) as [peps' [Hp' Hsub']].
      assert (E : peps' = peps) by (eapply L_fun; eassumption). subst peps'.
      apply (Hcl n S Hin Hpn). apply Hsub'. assumption.
    + intros H. left. exact H.
Qed.

End Inv.

(* ================================================================== sorting *)
Lemma ins_desc_perm : forall x l, Permutation (x :: l) (gr_ins_desc P x l).
Proof.
  intros x l. induction l as [|y t IH]; simpl; [apply Permutation_refl|].
  destruct (Nat.leb (length (snd y)) (length (snd x))); [apply Permutation_refl|].
  eapply perm_trans; [apply perm_swap|apply perm_skip; exact IH].
Qed.

Lemma sort_desc_perm : forall l, Permutation l (gr_sort_desc P l).
Proof.
  induction l as [|x l IH]; simpl; [apply Permutation_refl|].
  eapply perm_trans; [apply perm_skip; exact IH|apply ins_desc_perm].
Qed.

Lemma ins_desc_sorted : forall x l, desc_sorted l -> desc_sorted (gr_ins_desc P x l).
Proof.
  intros x l. induction l as [|y t IH]; intros Hs; simpl.
  - split; [intros y []|exact I].
  - destruct Hs as [Hy Hs]. destruct (Nat.leb (length (snd y)) (length (snd x))) eqn:E.
    + apply Nat.leb_le in E. split; [|split; assumption].
      intros z [Hz|Hz]; [subst; assumption|]. specialize (Hy z Hz). lia.
    + apply Nat.leb_gt in E. split; [|apply IH; assumption].
      intros z Hz. apply (Permutation_in _ (Permutation_sym (ins_desc_perm x t))) in Hz.
      destruct Hz as [Hz|Hz]; [subst; lia|apply Hy; assumption].
Qed.

Lemma sort_desc_sorted : forall l, desc_sorted (gr_sort_desc P l).
Proof.
  induction l as [|x l IH]; simpl; [exact I|apply ins_desc_sorted; assumption].
Qed.

Lemma ins_asc_perm : forall x l, Permutation (x :: l) (gr_ins_asc P x l).
Proof.
  intros x l. induction l as [|y t IH]; simpl; [apply Permutation_refl|].
  destruct (Nat.leb (length (snd x)) (length (snd y))); [apply Permutation_refl|].
  eapply perm_trans; [apply perm_swap|apply perm_skip; exact IH].
Qed.

Lemma sort_asc_perm : forall l, Permutation l (gr_sort_asc P l).
Proof.
  induction l as [|x l IH]; simpl; [apply Permutation_refl|].
  eapply perm_trans; [apply perm_skip; exact IH|apply ins_asc_perm].
Qed.

(* ================================================================== _group_proteins *)
Definition wf_prots (prots : list (P * list nat)) : Prop :=
  NoDup (map fst prots) /\ forall p peps, In (p, peps) prots -> NoDup peps /\ peps <> [].

Definition perm_oracle (pi : P -> list (list P) -> list (list P)) : Prop :=
  forall p l, Permutation l (pi p l).

Theorem group_ok : forall pi prots pm0,
  perm_oracle pi -> wf_prots prots -> pm0_ok prots pm0 ->
  exists g pm, gr_group P peqb pi prots pm0 = Ok (g, pm) /\ group_spec prots g /\ pmap_spec g pm.
Proof.
  intros pi prots pm0 Hpi [Hnames Hpeps] [H0 Hnd0].
  set (L := gr_sort_desc P prots).
  assert (Hperm : Permutation prots L) by apply sort_desc_perm.
  assert (Hext : forall e, In e L <-> In e prots).
  { intros e. split; intros H.
    - apply (Permutation_in _ (Permutation_sym Hperm)). assumption.
    - apply (Permutation_in _ Hperm). assumption. }
  assert (HLn : NoDup (map fst L)).
  { eapply Permutation_NoDup; [apply Permutation_map; exact Hperm|assumption]. }
  assert (HLp : forall p peps, In (p, peps) L -> NoDup peps).
  { intros p peps Hin. apply (Hpeps p peps). apply Hext. assumption. }
  assert (Hpm0 : pm0_ok L pm0).
  { split; [|assumption]. intros pep x. rewrite (H0 pep x). split.
    - intros [p [peps [H1 H2]]]. exists p, peps. split; [apply Hext; assumption|assumption].
    - intros [p [peps [H1 H2]]]. exists p, peps. split; [apply Hext; assumption|assumption]. }
  destruct (loop_ok L HLn HLp pi Hpi L [] [] [] pm0) as [g [pm [Hrun Hgi]]].
  - rewrite app_nil_r. reflexivity.
  - apply sort_desc_sorted.
  - intros p peps Hin. apply (Hpeps p peps). apply Hext. assumption.
  - apply ginv_init. assumption.
  - exists g, pm. split; [exact Hrun|].
    destruct (ginv_spec L HLn g pm Hgi) as [Hs Hp].
    split; [|assumption]. apply (group_spec_ext L prots g Hext Hs).
Qed.

(* C16_invariant: after any number of iterations of the loop over the (sorted) proteins, the names
   recorded for a peptide that are current group names are exactly the groups containing it *)
Theorem loop_invariant : forall pi prots pm0 done todo,
  perm_oracle pi -> wf_prots prots -> pm0_ok prots pm0 ->
  gr_sort_desc P prots = done ++ todo ->
  exists g pm, gr_loop P peqb pi ([], pm0) done = Ok (g, pm) /\
    forall n S pep, In (n, S) g -> (In n (lookup pep pm) <-> In pep S).
Proof.
  intros pi prots pm0 done todo Hpi [Hnames Hpeps] [H0 Hnd0] Esort.
  set (L := gr_sort_desc P prots) in *.
  assert (Hperm : Permutation prots L) by apply sort_desc_perm.
  assert (Hext : forall e, In e L <-> In e prots).
  { intros e. split; intros H.
    - apply (Permutation_in _ (Permutation_sym Hperm)). assumption.
    - apply (Permutation_in _ Hperm). assumption. }
  assert (HLn : NoDup (map fst L)).
  { eapply Permutation_NoDup; [apply Permutation_map; exact Hperm|assumption]. }
  assert (HLp : forall p peps, In (p, peps) L -> NoDup peps).
  { intros p peps Hin. apply (Hpeps p peps). apply Hext. assumption. }
  assert (Hpm0 : pm0_ok L pm0).
  { split; [|assumption]. intros pep x. rewrite (H0 pep x). split.
    - intros [p [peps [H1 H2]]]. exists p, peps. split; [apply Hext; assumption|assumption].
    - intros [p [peps [H1 H2]]]. exists p, peps. split; [apply Hext; assumption|assumption]. }
  destruct (loop_ok L HLn HLp pi Hpi done todo [] [] pm0) as [g [pm [Hrun Hgi]]].
  - exact Esort.
  - apply sort_desc_sorted.
  - intros p peps Hin. apply (Hpeps p peps). apply Hext. assumption.
  - apply ginv_init. assumption.
  - exists g, pm. split; [exact Hrun|]. simpl in Hgi.
    intros n S pep Hin. apply (key_lookup L HLn _ g pm n S pep (gi_core _ _ _ _ Hgi) (gi_pm _ _ _ _ Hgi) Hin).
Qed.

(* ================================================================== keys of the peptide dict *)
Lemma lookup_nonkey : forall pep (pm : gr_pmap P), ~ In pep (map fst pm) -> lookup pep pm = [].
Proof.
  intros pep pm. induction pm as [|[k v] r IH]; simpl; intros H; [reflexivity|].
  destruct (Nat.eqb pep k) eqn:E.
  - apply Nat.eqb_eq in E. exfalso. apply H. left. congruence.
  - apply IH. intros H2. apply H. right. assumption.
Qed.

Lemma update_keys_in : forall pep v (pm : gr_pmap P),
  In pep (map fst pm) -> map fst (update pep v pm) = map fst pm.
Proof.
  intros pep v pm. induction pm as [|[k w] r IH]; simpl; intros H; [contradiction|].
  destruct (Nat.eqb pep k) eqn:E; simpl; [reflexivity|].
  f_equal. apply IH. destruct H as [H|H]; [|assumption].
  subst k. rewrite Nat.eqb_refl in E. discriminate.
Qed.

Lemma update_keys_notin : forall pep v (pm : gr_pmap P),
  ~ In pep (map fst pm) -> map fst (update pep v pm) = map fst pm ++ [pep].
Proof.
  intros pep v pm. induction pm as [|[k w] r IH]; simpl; intros H; [reflexivity|].
  destruct (Nat.eqb pep k) eqn:E; simpl.
  - apply Nat.eqb_eq in E. exfalso. apply H. left. congruence.
  - f_equal. apply IH. intros H2. apply H. right. assumption.
Qed.

Lemma lookup_in_key : forall pep x (pm : gr_pmap P), In x (lookup pep pm) -> In pep (map fst pm).
Proof.
  intros pep x pm Hx. destruct (in_dec Nat.eq_dec pep (map fst pm)) as [H|H]; [assumption|].
  rewrite (lookup_nonkey pep pm H) in Hx. destruct Hx.
Qed.

Lemma update_peps_keys : forall m p nw S pm pm',
  gr_update_peps P peqb m p nw S pm = Ok pm' -> map fst pm' = map fst pm.
Proof.
  intros m p nw S. induction S as [|pep r IH]; intros pm pm' H; simpl in H.
  - injection H as H. subst. reflexivity.
  - destruct (memn m (lookup pep pm)) eqn:E; [|discriminate].
    apply memn_spec in E. apply lookup_in_key in E.
    rewrite (IH _ _ H). apply update_keys_in. assumption.
Qed.

Lemma rename_keys : forall p st m st',
  gr_rename P peqb p st m = Ok st' -> map fst (snd st') = map fst (snd st).
Proof.
  intros p [g pm] m st' H. unfold gr_rename in H. simpl in H.
  destruct (pop m g) as [[gs g']|]; [|discriminate].
  destruct (gr_update_peps P peqb m p (m ++ [p]) gs pm) as [pm1|e] eqn:E; [|discriminate].
  injection H as H. subst st'. simpl. eapply update_peps_keys. exact E.
Qed.

Lemma renames_keys : forall p ms st st',
  gr_renames P peqb p st ms = Ok st' -> map fst (snd st') = map fst (snd st).
Proof.
  intros p ms. induction ms as [|m r IH]; intros st st' H; simpl in H.
  - injection H as H. subst. reflexivity.
  - destruct (gr_rename P peqb p st m) as [st1|e] eqn:E; [|discriminate].
    rewrite (IH _ _ H). eapply rename_keys. exact E.
Qed.

Lemma step_keys : forall pi st q st',
  gr_step P peqb pi st q = Ok st' -> map fst (snd st') = map fst (snd st).
Proof.
  intros pi [g pm] [p peps] st' H. unfold gr_step in H. simpl in H.
  destruct g as [|e g0].
  - injection H as H. subst. reflexivity.
  - destruct (gr_matches P peqb pi p peps (e :: g0) pm) as [ms|er]; [|discriminate].
    destruct ms as [|m0 ms'].
    + injection H as H. subst. reflexivity.
    + apply renames_keys in H. exact H.
Qed.

Lemma loop_keys : forall pi qs st st',
  gr_loop P peqb pi st qs = Ok st' -> map fst (snd st') = map fst (snd st).
Proof.
  intros pi qs. induction qs as [|q r IH]; intros st st' H; simpl in H.
  - injection H as H. subst. reflexivity.
  - destruct (gr_step P peqb pi st q) as [st1|e] eqn:E; [|discriminate].
    rewrite (IH _ _ H). eapply step_keys. exact E.
Qed.

Lemma lookup_in_pm : forall (pm : gr_pmap P) pep v, NoDup (map fst pm) ->
  (In (pep, v) pm <-> In pep (map fst pm) /\ lookup pep pm = v).
Proof.
  intros pm pep v. induction pm as [|[k w] r IH]; simpl; intros Hnd.
  - split; [intros []|intros [[] _]].
  - inversion Hnd as [|? ? Hk Hr]; subst. destruct (Nat.eqb pep k) eqn:E.
    + apply Nat.eqb_eq in E. subst k. split.
      * intros [H|H]; [injection H as H; subst; split; [left|]; reflexivity|].
        exfalso. apply Hk. change pep with (fst (pep, v)). apply in_map. assumption.
      * intros [_ H]. left. congruence.
    + assert (Hne : k <> pep) by (intros E2; subst; rewrite Nat.eqb_refl in E; discriminate).
      split.
      * intros [H|H]; [congruence|]. apply (IH Hr) in H. destruct H as [H1 H2]. split; [right|]; assumption.
      * intros [[H|H] H2]; [contradiction|]. right. apply (IH Hr). split; assumption.
Qed.

(* ================================================================== read_fasta: the initial maps *)
(* the proteins that yield at least one peptide, with their peptide sets, in entry order *)
Definition clean (entries : list (P * list nat)) : list (P * list nat) :=
  flat_map (fun e => match gr_dedup (snd e) with [] => [] | peps => [(fst e, peps)] end) entries.

Lemma clean_names : forall entries p, In p (map fst (clean entries)) -> In p (map fst entries).
Proof.
  induction entries as [|[q raw] r IH]; intros p H; [contradiction|].
  unfold clean in H. simpl in H. rewrite map_app in H. apply in_app_iff in H. destruct H as [H|H].
  - left. simpl. destruct (gr_dedup raw); simpl in H; [contradiction|]. destruct H as [H|[]]. assumption.
  - right. apply IH. assumption.
Qed.

Lemma clean_wf : forall entries, NoDup (map fst entries) -> wf_prots (clean entries).
Proof.
  intros entries Hnd. split.
  - induction entries as [|[q raw] r IH]; [constructor|].
    simpl in Hnd. inversion Hnd as [|? ? Hq Hr]; subst.
    unfold clean. simpl. rewrite map_app. fold (clean r).
    destruct (gr_dedup raw) as [|a l]; simpl; [apply IH; assumption|].
    constructor; [|apply IH; assumption]. intros H. apply Hq. apply clean_names. assumption.
  - intros p peps Hin. unfold clean in Hin. apply in_flat_map in Hin.
    destruct Hin as [[q raw] [_ Hin]]. simpl in Hin.
    destruct (gr_dedup raw) as [|a l] eqn:E; [contradiction|].
    destruct Hin as [Hin|[]]. injection Hin as E1 E2. subst p peps. split.
    + rewrite <- E. apply dedup_nodup.
    + discriminate.
Qed.

Lemma prot_set_fresh : forall p peps d, ~ In p (map fst d) ->
  gr_prot_set P peqb p peps d = d ++ [(p, peps)].
Proof.
  intros p peps d. induction d as [|[k w] r IH]; simpl; intros H; [reflexivity|].
  destruct (peqb_spec p k) as [E|E].
  - exfalso. apply H. left. congruence.
  - f_equal. apply IH. intros H2. apply H. right. assumption.
Qed.

Lemma add_name_lookup : forall p pm a pep,
  lookup pep (gr_add_name P peqb p pm a) =
  if Nat.eqb pep a then set_add [p] (lookup a pm) else lookup pep pm.
Proof.
  intros p pm a pep. unfold gr_add_name. destruct (Nat.eqb pep a) eqn:E.
  - apply Nat.eqb_eq in E. subst. apply lookup_update_same.
  - apply lookup_update_other. intros E2. subst. rewrite Nat.eqb_refl in E. discriminate.
Qed.

Lemma fold_add_lookup : forall p peps pm pep x,
  In x (lookup pep (fold_left (gr_add_name P peqb p) peps pm)) <->
  In x (lookup pep pm) \/ (x = [p] /\ In pep peps).
Proof.
  intros p peps. induction peps as [|a r IH]; intros pm pep x; simpl.
  - split; [left; assumption|intros [H|[_ []]]; assumption].
  - rewrite IH. rewrite add_name_lookup. destruct (Nat.eqb pep a) eqn:E.
    + apply Nat.eqb_eq in E. subst a. rewrite set_add_in. split.
      * intros [[H|H]|[H1 H2]]; [right; split; [assumption|left; reflexivity]|left; assumption|right; split; [assumption|right; assumption]].
      * intros [H|[H1 [H2|H2]]]; [left; right; assumption|left; left; assumption|right; split; assumption].
    + split.
      * intros [H|[H1 H2]]; [left; assumption|right; split; [assumption|right; assumption]].
      * intros [H|[H1 [H2|H2]]]; [left; assumption| |right; split; assumption].
        subst a. rewrite Nat.eqb_refl in E. discriminate.
Qed.

Lemma fold_add_nodup : forall p peps pm, pm_nodup pm ->
  pm_nodup (fold_left (gr_add_name P peqb p) peps pm).
Proof.
  intros p peps. induction peps as [|a r IH]; intros pm H; simpl; [assumption|].
  apply IH. intros pep. rewrite add_name_lookup. destruct (Nat.eqb pep a); [|apply H].
  apply set_add_nodup. apply H.
Qed.

Lemma add_name_keys : forall p (pm : gr_pmap P) a,
  (NoDup (map fst pm) -> NoDup (map fst (gr_add_name P peqb p pm a))) /\
  (forall k, In k (map fst (gr_add_name P peqb p pm a)) <-> In k (map fst pm) \/ k = a).
Proof.
  intros p pm a. unfold gr_add_name.
  destruct (in_dec Nat.eq_dec a (map fst pm)) as [H|H].
  - rewrite update_keys_in by assumption. split; [tauto|].
    intros k. split; [tauto|]. intros [H2|H2]; [assumption|subst; assumption].
  - rewrite update_keys_notin by assumption. split.
    + intros Hnd. apply nodup_snoc; assumption.
    + intros k. rewrite in_app_iff. simpl. split; intros [H2|H2]; try tauto.
      * destruct H2 as [H2|[]]. right. congruence.
      * right. left. congruence.
Qed.

Lemma fold_add_keys : forall p peps (pm : gr_pmap P),
  (NoDup (map fst pm) -> NoDup (map fst (fold_left (gr_add_name P peqb p) peps pm))) /\
  (forall k, In k (map fst (fold_left (gr_add_name P peqb p) peps pm)) <->
             In k (map fst pm) \/ In k peps).
Proof.
  intros p peps. induction peps as [|a r IH]; intros pm; simpl.
  - split; [tauto|]. intros k. tauto.
  - destruct (IH (gr_add_name P peqb p pm a)) as [IH1 IH2].
    destruct (add_name_keys p pm a) as [A1 A2]. split.
    + intros H. apply IH1. apply A1. assumption.
    + intros k. rewrite IH2. rewrite A2. split; intros H; intuition congruence.
Qed.

Lemma build_ok : forall entries d pm d' pm',
  NoDup (map fst entries) -> (forall p, In p (map fst entries) -> ~ In p (map fst d)) ->
  gr_build P peqb entries d pm = (d', pm') ->
  d' = d ++ clean entries /\
  (forall pep x, In x (lookup pep pm') <->
     In x (lookup pep pm) \/ exists p peps, In (p, peps) (clean entries) /\ x = [p] /\ In pep peps) /\
  (pm_nodup pm -> pm_nodup pm') /\
  (NoDup (map fst pm) -> NoDup (map fst pm')) /\
  (forall k, In k (map fst pm') <->
     In k (map fst pm) \/ exists p peps, In (p, peps) (clean entries) /\ In k peps).
Proof.
  induction entries as [|[p raw] r IH]; intros d pm d' pm' Hnd Hfresh Hrun.
  - simpl in Hrun. injection Hrun as E1 E2. subst d' pm'. simpl. rewrite app_nil_r.
    split; [reflexivity|]. split; [|split; [tauto|split; [tauto|]]].
    + intros pep x. split; [left; assumption|]. intros [H|[q [peps [[] _]]]]. assumption.
    + intros k. split; [left; assumption|]. intros [H|[q [peps [[] _]]]]. assumption.
  - simpl in Hnd. inversion Hnd as [|? ? Hp Hr]; subst.
    simpl in Hrun. unfold clean. simpl. fold (clean r).
    destruct (gr_dedup raw) as [|a l] eqn:Ed.
    + simpl. apply (IH d pm d' pm' Hr); [|assumption].
      intros q Hq. apply Hfresh. right. assumption.
    + set (peps := a :: l) in *.
      rewrite prot_set_fresh in Hrun by (apply Hfresh; left; reflexivity).
      destruct (IH (d ++ [(p, peps)]) (fold_left (gr_add_name P peqb p) peps pm) d' pm' Hr)
        as [I1 [I2 [I3 [I4 I5]]]]; [|exact Hrun|].
      { intros q Hq. rewrite map_app. rewrite in_app_iff. simpl. intros [H|[H|[]]].
        - apply (Hfresh q); [right; assumption|assumption].
        - subst q. contradiction. }
      destruct (fold_add_keys p peps pm) as [K1 K2].
      split; [rewrite I1; rewrite <- app_assoc; reflexivity|].
      split; [|split; [|split]].
      * intros pep x. rewrite I2. rewrite fold_add_lookup. simpl. split.
        -- intros [[H|[H1 H2]]|[q [pq [H1 H2]]]].
           ++ left. assumption.
           ++ right. exists p, peps. split; [left; reflexivity|split; assumption].
           ++ right. exists q, pq. split; [right; assumption|assumption].
        -- intros [H|[q [pq [[H1|H1] H2]]]].
           ++ left. left. assumption.
           ++ injection H1 as E1 E2. subst q pq. left. right. assumption.
           ++ right. exists q, pq. split; assumption.
      * intros H. apply I3. apply fold_add_nodup. assumption.
      * intros H. apply I4. apply K1. assumption.
      * intros k. rewrite I5. rewrite K2. simpl. split.
        -- intros [[H|H]|[q [pq [H1 H2]]]].
           ++ left. assumption.
           ++ right. exists p, peps. split; [left; reflexivity|assumption].
           ++ right. exists q, pq. split; [right; assumption|assumption].
        -- intros [H|[q [pq [[H1|H1] H2]]]].
           ++ left. left. assumption.
           ++ injection H1 as E1 E2. subst q pq. left. right. assumption.
           ++ right. exists q, pq. split; assumption.
Qed.

(* the two maps read_fasta hands to _group_proteins satisfy its precondition *)
Lemma build_pm0_ok : forall entries d0 pm0,
  NoDup (map fst entries) -> gr_build P peqb entries [] [] = (d0, pm0) ->
  d0 = clean entries /\ wf_prots (clean entries) /\ pm0_ok (clean entries) pm0.
Proof.
  intros entries d0 pm0 Hnd Eb.
  destruct (build_ok entries [] [] d0 pm0 Hnd) as [B1 [B2 [B3 _]]]; [intros p _ []|exact Eb|].
  split; [exact B1|]. split; [apply clean_wf; assumption|]. split.
  - intros pep x. rewrite (B2 pep x). simpl. split.
    + intros [[]|H]. exact H.
    + intros H. right. exact H.
  - apply B3. intros pep. simpl. constructor.
Qed.

(* ================================================================== independence of orders *)
Definition name_eq (n n' : list P) : Prop := forall x, In x n <-> In x n'.

(* the same proteins with the same peptide sets, whatever the list orders *)
Definition prots_sub (prots prots' : list (P * list nat)) : Prop :=
  forall p peps, In (p, peps) prots -> exists peps', In (p, peps') prots' /\ seteq peps peps'.

Lemma maximal_equiv : forall prots prots' S,
  prots_sub prots prots' -> prots_sub prots' prots -> maximal prots S -> maximal prots' S.
Proof.
  intros prots prots' S H12 H21 [[p [peps [Hp [E1 E2]]]] Hm]. split.
  - destruct (H12 p peps Hp) as [peps' [Hp' [F1 F2]]]. exists p, peps'. split; [assumption|]. split.
    + intros a Ha. apply F1. apply E1. assumption.
    + intros a Ha. apply E2. apply F2. assumption.
  - intros q pq' Hq Hsub. destruct (H21 q pq' Hq) as [pq [Hq2 [F1 F2]]].
    intros a Ha. apply (Hm q pq Hq2).
    + intros b Hb. apply F1. apply Hsub. assumption.
    + apply F1. assumption.
Qed.

Lemma groups_equiv : forall prots prots' g g',
  prots_sub prots prots' -> prots_sub prots' prots ->
  group_spec prots g -> group_spec prots' g' ->
  forall n S, In (n, S) g -> exists n' S', In (n', S') g' /\ name_eq n n' /\ seteq S S'.
Proof.
  intros prots prots' g g' H12 H21 Hs Hs' n S Hin.
  pose proof (gs_maximal _ _ Hs n S Hin) as Hmax.
  apply (maximal_equiv prots prots' S H12 H21) in Hmax.
  destruct (gs_all_maximal _ _ Hs' S Hmax) as [n' [S' [Hin' [E1 E2]]]].
  exists n', S'. split; [assumption|]. split; [|split; assumption].
  intros x. rewrite (gs_members _ _ Hs n S Hin x). rewrite (gs_members _ _ Hs' n' S' Hin' x). split.
  - intros [peps [Hx Hsub]]. destruct (H12 x peps Hx) as [peps' [Hx' [F1 F2]]]. exists peps'.
    split; [assumption|]. intros a Ha. apply E2. apply Hsub. apply F2. assumption.
  - intros [peps' [Hx' Hsub]]. destruct (H21 x peps' Hx') as [peps [Hx [F1 F2]]]. exists peps.
    split; [assumption|]. intros a Ha. apply E1. apply Hsub. apply F2. assumption.
Qed.

Lemma same_members_same_group : forall prots g n S n' S',
  NoDup (map fst prots) -> group_spec prots g ->
  In (n, S) g -> In (n', S') g -> name_eq n n' -> n = n'.
Proof.
  intros prots g n S n' S' Hnd Hs Hin Hin' Heq.
  destruct (gs_founder _ _ Hs n S Hin) as [f [Hfn HfS]].
  apply Heq in Hfn. apply (gs_members _ _ Hs n' S' Hin' f) in Hfn.
  destruct Hfn as [peps [Hf Hsub]].
  assert (E : (f, peps) = (f, S)) by (eapply nodup_map_inj; [exact Hnd|assumption|assumption|reflexivity]).
  injection E as E. subst peps.
  apply (gs_anti _ _ Hs n S n' S' Hin Hin' Hsub).
Qed.

(* _group_proteins: neither the order of the proteins, nor the order inside the peptide sets,
   nor the iteration order of [matches] changes the groups (as sets of members and peptides) *)
Theorem group_order_free : forall pi pi' prots prots' pm0 pm0' g pm g' pm',
  perm_oracle pi -> perm_oracle pi' -> wf_prots prots -> wf_prots prots' ->
  pm0_ok prots pm0 -> pm0_ok prots' pm0' ->
  prots_sub prots prots' -> prots_sub prots' prots ->
  gr_group P peqb pi prots pm0 = Ok (g, pm) -> gr_group P peqb pi' prots' pm0' = Ok (g', pm') ->
  forall n S, In (n, S) g -> exists n' S', In (n', S') g' /\ name_eq n n' /\ seteq S S'.
Proof.
  intros pi pi' prots prots' pm0 pm0' g pm g' pm' Hpi Hpi' Hwf Hwf' H0 H0' H12 H21 Hrun Hrun'.
  destruct (group_ok pi prots pm0 Hpi Hwf H0) as [g1 [pm1 [R1 [Hs _]]]].
  destruct (group_ok pi' prots' pm0' Hpi' Hwf' H0') as [g2 [pm2 [R2 [Hs' _]]]].
  rewrite Hrun in R1. injection R1 as E1 E2. subst g1 pm1.
  rewrite Hrun' in R2. injection R2 as E1 E2. subst g2 pm2.
  apply (groups_equiv prots prots' g g' H12 H21 Hs Hs').
Qed.

(* ================================================================== read_fasta: decoys, unique / shared *)
Section Fasta.
Variable is_decoy : P -> bool.
Variable decoy_of : P -> P.

Lemma pair_set_fresh : forall k v d, ~ In k (map fst d) ->
  gr_pair_set P peqb k v d = d ++ [(k, v)].
Proof.
  intros k v d. induction d as [|[k' w] r IH]; simpl; intros H; [reflexivity|].
  destruct (peqb_spec k k') as [E|E].
  - exfalso. apply H. left. congruence.
  - f_equal. apply IH. intros H2. apply H. right. assumption.
Qed.

Lemma has_prot_spec : forall p d, gr_has_prot P peqb p d = true <-> In p (map fst d).
Proof.
  intros p d. unfold gr_has_prot. rewrite existsb_exists. split.
  - intros [[k v] [Hin E]]. simpl in E. destruct (peqb_spec p k); [|discriminate].
    subst. change k with (fst (k, v)). apply in_map. assumption.
  - intros H. apply in_map_iff in H. destruct H as [[k v] [E Hin]]. simpl in E. subst k.
    exists (p, v). split; [assumption|]. simpl. destruct (peqb_spec p p); congruence.
Qed.

Definition targets (names : list P) : list P := filter (fun p => negb (is_decoy p)) names.

Lemma decoys_ok : forall all names dm hd ht,
  NoDup (map fst names) -> (forall p, In p (map fst names) -> ~ In p (map fst dm)) ->
  gr_decoys P peqb is_decoy decoy_of all names (dm, hd, ht) =
  (dm ++ map (fun p => (p, decoy_of p)) (targets (map fst names)),
   hd || existsb (fun p => gr_has_prot P peqb (decoy_of p) all) (targets (map fst names)),
   ht || existsb (fun _ => true) (targets (map fst names))).
Proof.
  intros all names. induction names as [|[p w] r IH]; intros dm hd ht Hnd Hfresh.
  - simpl. rewrite app_nil_r. rewrite !orb_false_r. reflexivity.
  - simpl in Hnd. inversion Hnd as [|? ? Hp Hr]; subst.
    simpl. unfold targets. simpl. destruct (is_decoy p) eqn:E; simpl.
    + apply IH; [assumption|]. intros q Hq. apply Hfresh. right. assumption.
    + rewrite pair_set_fresh by (apply Hfresh; left; reflexivity).
      rewrite IH; [|assumption|].
      * fold (targets (map fst r)). rewrite <- app_assoc. simpl.
        f_equal; [f_equal|].
        -- destruct (gr_has_prot P peqb (decoy_of p) all); destruct hd; reflexivity.
        -- destruct ht; reflexivity.
      * intros q Hq. rewrite map_app. rewrite in_app_iff. simpl. intros [H|[H|[]]].
        -- apply (Hfresh q); [right; assumption|assumption].
        -- subst q. contradiction.
Qed.

Lemma split_spec : forall (pm : gr_pmap P) u s, gr_split P pm = (u, s) ->
  (forall pep n, In (pep, n) u <-> In (pep, [n]) pm) /\
  (forall pep ns, In (pep, ns) s <-> In (pep, ns) pm /\ forall n, ns <> [n]) /\
  Permutation (map fst pm) (map fst u ++ map fst s).
Proof.
  induction pm as [|[k names] r IH]; intros u s H; simpl in H.
  - injection H as E1 E2. subst. split; [|split].
    + intros pep n. tauto.
    + intros pep ns. simpl. tauto.
    + constructor.
  - destruct (gr_split P r) as [u0 s0]. destruct (IH u0 s0 eq_refl) as [I1 [I2 I3]].
    destruct names as [|n1 [|n2 l]]; injection H as E1 E2; subst u s.
    + split; [|split].
      * intros pep n. rewrite I1. simpl. split; [right; assumption|intros [H|H]; [discriminate|assumption]].
      * intros pep ns. simpl. rewrite I2. split.
        -- intros [H|[H1 H2]]; [injection H as E1 E2; subst; split; [left; reflexivity|discriminate]|].
           split; [right; assumption|assumption].
        -- intros [[H|H] H2]; [left; assumption|right; split; assumption].
      * simpl. apply Permutation_cons_app. assumption.
    + split; [|split].
      * intros pep n. simpl. rewrite I1. split.
        -- intros [H|H]; [left; congruence|right; assumption].
        -- intros [H|H]; [left; congruence|right; assumption].
      * intros pep ns. rewrite I2. simpl. split.
        -- intros [H1 H2]. split; [right; assumption|assumption].
        -- intros [[H|H] H2]; [injection H as E1 E2; subst; exfalso; apply (H2 n1); reflexivity|].
           split; assumption.
      * simpl. apply perm_skip. assumption.
    + split; [|split].
      * intros pep n. rewrite I1. simpl. split; [right; assumption|intros [H|H]; [discriminate|assumption]].
      * intros pep ns. simpl. rewrite I2. split.
        -- intros [H|[H1 H2]]; [injection H as E1 E2; subst; split; [left; reflexivity|discriminate]|].
           split; [right; assumption|assumption].
        -- intros [[H|H] H2]; [left; assumption|right; split; assumption].
      * simpl. apply Permutation_cons_app. assumption.
Qed.

Lemma nodup_singleton : forall {A} (l : list A) a,
  NoDup l -> In a l -> (forall x, In x l -> x = a) -> l = [a].
Proof.
  intros A l a Hnd Hin Hall. destruct l as [|x [|y r]].
  - contradiction.
  - f_equal. apply Hall. left. reflexivity.
  - exfalso. inversion Hnd as [|? ? Hx _]; subst. apply Hx. left.
    rewrite (Hall x) by (left; reflexivity). rewrite (Hall y) by (right; left; reflexivity). reflexivity.
Qed.

Definition in_group (g : gr_groups P) (n : list P) (pep : nat) : Prop :=
  exists S, In (n, S) g /\ In pep S.

Record fasta_spec (entries : list (P * list nat)) (out : gr_out P) : Prop := {
  fs_groups : exists g, group_spec (clean entries) g /\
    (forall pep n, In (pep, n) (gr_unique P out) <->
       in_group g n pep /\ forall n', in_group g n' pep -> n' = n) /\
    (forall pep ns, In (pep, ns) (gr_shared P out) ->
       NoDup ns /\ 2 <= length ns /\ forall x, In x ns <-> in_group g x pep) /\
    (forall pep n n', n <> n' -> in_group g n pep -> in_group g n' pep ->
       In pep (map fst (gr_shared P out)));
  fs_keys : NoDup (map fst (gr_unique P out) ++ map fst (gr_shared P out));
  fs_pmap : forall t d, In (t, d) (gr_protein_map P out) <->
              In t (map fst (clean entries)) /\ is_decoy t = false /\ d = decoy_of t;
  fs_pmap_keys : NoDup (map fst (gr_protein_map P out));
  fs_has_decoys : gr_has_decoys P out = true <->
     exists t, In t (map fst (clean entries)) /\ is_decoy t = false /\
               In (decoy_of t) (map fst (clean entries)) }.

Theorem read_fasta_ok : forall pi entries,
  perm_oracle pi -> NoDup (map fst entries) ->
  (exists t, In t (map fst (clean entries)) /\ is_decoy t = false) ->
  exists out, gr_read_fasta P peqb pi is_decoy decoy_of entries = Ok out /\ fasta_spec entries out.
Proof.
  intros pi entries Hpi Hnd [t0 [Ht0 Ht0d]].
  assert (Hne : entries <> []) by (intros E; subst; destruct Ht0).
  unfold gr_read_fasta. destruct entries as [|e0 es] eqn:Ee; [congruence|]. rewrite <- Ee in *. clear Ee e0 es Hne.
  destruct (gr_build P peqb entries [] []) as [d0 pm0] eqn:Eb.
  destruct (build_ok entries [] [] d0 pm0 Hnd) as [B1 [B2 [B3 [B4 B5]]]]; [intros p _ []|exact Eb|].
  simpl in B1. subst d0.
  set (d := gr_sort_asc P (clean entries)).
  assert (Hperm : Permutation (clean entries) d) by apply sort_asc_perm.
  assert (Hext : forall e, In e d <-> In e (clean entries)).
  { intros e. split; intros H.
    - apply (Permutation_in _ (Permutation_sym Hperm)). assumption.
    - apply (Permutation_in _ Hperm). assumption. }
  assert (Hextn : forall x, In x (map fst d) <-> In x (map fst (clean entries))).
  { intros x. split; intros H.
    - apply (Permutation_in _ (Permutation_sym (Permutation_map fst Hperm))). assumption.
    - apply (Permutation_in _ (Permutation_map fst Hperm)). assumption. }
  destruct (clean_wf entries Hnd) as [Wn Wp].
  assert (Hdn : NoDup (map fst d)).
  { eapply Permutation_NoDup; [apply Permutation_map; exact Hperm|assumption]. }
  assert (Hwf : wf_prots d).
  { split; [assumption|]. intros p peps Hin. apply (Wp p peps). apply Hext. assumption. }
  rewrite (decoys_ok d d [] false false Hdn) by (intros p _ []).
  simpl app. simpl orb.
  set (tg := targets (map fst d)).
  assert (Htg : forall x, In x tg <-> In x (map fst (clean entries)) /\ is_decoy x = false).
  { intros x. unfold tg, targets. rewrite filter_In. rewrite Hextn.
    destruct (is_decoy x); simpl; split; intros [H1 H2]; split; congruence. }
  assert (Hht : existsb (fun _ : P => true) tg = true).
  { apply existsb_exists. exists t0. split; [apply Htg; split; assumption|reflexivity]. }
  rewrite Hht. simpl negb. cbv iota.
  assert (Hpm0 : pm0_ok d pm0).
  { split.
    - intros pep x. rewrite (B2 pep x). simpl. split.
      + intros [[]|[p [peps [H1 H2]]]]. exists p, peps. split; [apply Hext; assumption|assumption].
      + intros [p [peps [H1 H2]]]. right. exists p, peps. split; [apply Hext; assumption|assumption].
    - apply B3. intros pep. simpl. constructor. }
  destruct (group_ok pi d pm0 Hpi Hwf Hpm0) as [g [pm [Hrun [Hgs Hps]]]].
  rewrite Hrun.
  assert (Hkeys : map fst pm = map fst pm0).
  { unfold gr_group in Hrun. apply loop_keys in Hrun. exact Hrun. }
  assert (Hknd : NoDup (map fst pm)) by (rewrite Hkeys; apply B4; constructor).
  destruct (gr_split P pm) as [u s] eqn:Es.
  destruct (split_spec pm u s Es) as [S1 [S2 S3]].
  eexists. split; [reflexivity|].
  assert (Hgs' : group_spec (clean entries) g) by (apply (group_spec_ext d); assumption).
  assert (Hlk : forall pep x, In x (lookup pep pm) <-> in_group g x pep).
  { intros pep x. apply (proj2 (Hps pep) x). }
  (* a key of the dict is a peptide of some protein, hence lies in some group *)
  assert (Hkey_group : forall pep, In pep (map fst pm) -> exists n, in_group g n pep).
  { intros pep Hk. rewrite Hkeys in Hk. apply B5 in Hk. simpl in Hk.
    destruct Hk as [[]|[p [peps [Hp Hpep]]]].
    destruct (gs_cover _ _ Hgs' p peps Hp) as [n [S [Hin Hpn]]].
    exists n, S. split; [assumption|].
    apply (proj1 (gs_members _ _ Hgs' n S Hin p)) in Hpn. destruct Hpn as [peps' [Hp' Hsub]].
    assert (E : (p, peps') = (p, peps)) by (eapply nodup_map_inj; [exact Wn|assumption|assumption|reflexivity]).
    injection E as E. subst peps'. apply Hsub. assumption. }
  constructor; simpl.
  - exists g. split; [assumption|]. split; [|split].
    + intros pep n. rewrite S1. rewrite (lookup_in_pm pm pep [n] Hknd). split.
      * intros [Hk Hl]. split.
        -- apply Hlk. rewrite Hl. left. reflexivity.
        -- intros n' Hn'. apply Hlk in Hn'. rewrite Hl in Hn'. destruct Hn' as [H|[]]. congruence.
      * intros [Hn Hall]. apply Hlk in Hn. split; [eapply lookup_in_key; exact Hn|].
        apply nodup_singleton; [apply (proj1 (Hps pep))|assumption|].
        intros x Hx. apply Hall. apply Hlk. assumption.
    + intros pep ns Hin. apply S2 in Hin. destruct Hin as [Hin Hns].
      apply (lookup_in_pm pm pep ns Hknd) in Hin. destruct Hin as [Hk Hl]. subst ns.
      split; [apply (proj1 (Hps pep))|]. split; [|apply Hlk].
      destruct (Hkey_group pep Hk) as [n Hn]. apply Hlk in Hn.
      destruct (lookup pep pm) as [|a [|b l]]; simpl.
      * destruct Hn.
      * exfalso. apply (Hns a). reflexivity.
      * lia.
    + intros pep n n' Hnn Hn Hn'. apply Hlk in Hn. apply Hlk in Hn'.
      apply in_map_iff. exists (pep, lookup pep pm). split; [reflexivity|].
      apply S2. split.
      * apply (lookup_in_pm pm pep _ Hknd). split; [eapply lookup_in_key; exact Hn|reflexivity].
      * intros a E. rewrite E in Hn, Hn'. destruct Hn as [Hn|[]]. destruct Hn' as [Hn'|[]]. congruence.
  - eapply Permutation_NoDup; [exact S3|exact Hknd].
  - intros t d'. rewrite in_map_iff. split.
    + intros [x [E Hx]]. injection E as E1 E2. subst x d'. apply Htg in Hx. tauto.
    + intros [H1 [H2 H3]]. exists t. split; [congruence|apply Htg; split; assumption].
  - rewrite map_map. simpl. rewrite map_id. unfold tg, targets. apply NoDup_filter. assumption.
  - rewrite existsb_exists. split.
    + intros [x [Hx Hh]]. apply Htg in Hx. apply has_prot_spec in Hh. apply Hextn in Hh.
      exists x. tauto.
    + intros [x [H1 [H2 H3]]]. exists x. split; [apply Htg; split; assumption|].
      apply has_prot_spec. apply Hextn. assumption.
Qed.

(* the two error exits *)
Lemma read_fasta_empty : forall pi, gr_read_fasta P peqb pi is_decoy decoy_of [] = Err EIndex.
Proof. reflexivity. Qed.

Lemma read_fasta_only_decoys : forall pi entries,
  entries <> [] -> NoDup (map fst entries) ->
  (forall t, In t (map fst (clean entries)) -> is_decoy t = true) ->
  gr_read_fasta P peqb pi is_decoy decoy_of entries = Err EValue.
Proof.
  intros pi entries Hne Hnd Hall.
  unfold gr_read_fasta. destruct entries as [|e0 es] eqn:Ee; [congruence|]. rewrite <- Ee in *. clear Ee e0 es Hne.
  destruct (gr_build P peqb entries [] []) as [d0 pm0] eqn:Eb.
  destruct (build_ok entries [] [] d0 pm0 Hnd) as [B1 _]; [intros p _ []|exact Eb|].
  simpl in B1. subst d0.
  set (d := gr_sort_asc P (clean entries)).
  assert (Hperm : Permutation (clean entries) d) by apply sort_asc_perm.
  destruct (clean_wf entries Hnd) as [Wn _].
  assert (Hdn : NoDup (map fst d)).
  { eapply Permutation_NoDup; [apply Permutation_map; exact Hperm|assumption]. }
  rewrite (decoys_ok d d [] false false Hdn) by (intros p _ []).
  assert (Htg : targets (map fst d) = []).
  { unfold targets. destruct (filter (fun p => negb (is_decoy p)) (map fst d)) as [|x l] eqn:E; [reflexivity|].
    assert (Hx : In x (filter (fun p => negb (is_decoy p)) (map fst d))) by (rewrite E; left; reflexivity).
    apply filter_In in Hx. destruct Hx as [Hx1 Hx2].
    apply (Permutation_in _ (Permutation_sym (Permutation_map fst Hperm))) in Hx1.
    rewrite (Hall x Hx1) in Hx2. discriminate. }
  rewrite Htg. reflexivity.
Qed.

Lemma read_fasta_inv : forall pi entries out,
  perm_oracle pi -> NoDup (map fst entries) ->
  gr_read_fasta P peqb pi is_decoy decoy_of entries = Ok out -> fasta_spec entries out.
Proof.
  intros pi entries out Hpi Hnd Hrun.
  destruct (existsb (fun t => negb (is_decoy t)) (map fst (clean entries))) eqn:E.
  - apply existsb_exists in E. destruct E as [t [Ht Hd]].
    destruct (read_fasta_ok pi entries Hpi Hnd) as [out' [Hrun' Hspec]].
    + exists t. split; [assumption|]. destruct (is_decoy t); [discriminate|reflexivity].
    + rewrite Hrun in Hrun'. injection Hrun' as E2. subst out'. assumption.
  - exfalso. destruct entries as [|e0 es] eqn:Ee.
    + rewrite read_fasta_empty in Hrun. discriminate.
    + rewrite <- Ee in *. rewrite (read_fasta_only_decoys pi entries) in Hrun; [discriminate|congruence|assumption|].
      intros t Ht. destruct (is_decoy t) eqn:Ed; [reflexivity|].
      assert (Hc : existsb (fun t => negb (is_decoy t)) (map fst (clean entries)) = true).
      { apply existsb_exists. exists t. split; [assumption|rewrite Ed; reflexivity]. }
      congruence.
Qed.

(* the incidence relation read off a FASTA entry list *)
Definition inc (entries : list (P * list nat)) (p : P) (pep : nat) : Prop :=
  exists raw, In (p, raw) entries /\ In pep raw.

Lemma clean_in : forall entries p peps,
  In (p, peps) (clean entries) <-> exists raw, In (p, raw) entries /\ peps = gr_dedup raw /\ peps <> [].
Proof.
  intros entries p peps. unfold clean. rewrite in_flat_map. split.
  - intros [[q raw] [Hin H]]. simpl in H. destruct (gr_dedup raw) as [|a l] eqn:E; [contradiction|].
    destruct H as [H|[]]. injection H as E1 E2. subst q peps. exists raw.
    split; [assumption|]. split; [symmetry; assumption|discriminate].
  - intros [raw [Hin [E Hne]]]. exists (p, raw). split; [assumption|]. simpl.
    destruct (gr_dedup raw) as [|a l] eqn:E2; [congruence|]. left. congruence.
Qed.

Lemma clean_inc : forall entries p peps, NoDup (map fst entries) -> In (p, peps) (clean entries) ->
  forall pep, In pep peps <-> inc entries p pep.
Proof.
  intros entries p peps Hnd Hin pep. apply clean_in in Hin. destruct Hin as [raw [Hraw [E _]]]. subst peps.
  rewrite dedup_in. split.
  - intros H. exists raw. split; assumption.
  - intros [raw' [Hraw' H]].
    assert (E : (p, raw') = (p, raw)) by (eapply nodup_map_inj; [exact Hnd|assumption|assumption|reflexivity]).
    injection E as E. subst raw'. assumption.
Qed.

Lemma inc_clean : forall entries p pep, inc entries p pep ->
  exists peps, In (p, peps) (clean entries) /\ In pep peps.
Proof.
  intros entries p pep [raw [Hraw Hpep]]. exists (gr_dedup raw). split.
  - apply clean_in. exists raw. split; [assumption|]. split; [reflexivity|].
    intros E. apply dedup_in in Hpep. rewrite E in Hpep. destruct Hpep.
  - apply dedup_in. assumption.
Qed.

Lemma clean_sub : forall entries entries',
  NoDup (map fst entries) -> NoDup (map fst entries') ->
  (forall p pep, inc entries p pep <-> inc entries' p pep) ->
  prots_sub (clean entries) (clean entries').
Proof.
  intros entries entries' Hnd Hnd' Hinc p peps Hin.
  destruct (clean_wf entries Hnd) as [_ Wp]. destruct (Wp p peps Hin) as [_ Hne].
  destruct peps as [|pep0 r] eqn:Ep; [congruence|]. rewrite <- Ep in *.
  assert (H0 : In pep0 peps) by (rewrite Ep; left; reflexivity).
  apply (clean_inc entries p peps Hnd Hin) in H0. apply Hinc in H0.
  destruct (inc_clean entries' p pep0 H0) as [peps' [Hin' _]].
  exists peps'. split; [assumption|]. split; intros a Ha.
  - apply (clean_inc entries' p peps' Hnd' Hin'). apply Hinc. apply (clean_inc entries p peps Hnd Hin). assumption.
  - apply (clean_inc entries p peps Hnd Hin). apply Hinc. apply (clean_inc entries' p peps' Hnd' Hin'). assumption.
Qed.

Lemma clean_name_inc : forall entries p, NoDup (map fst entries) ->
  (In p (map fst (clean entries)) <-> exists pep, inc entries p pep).
Proof.
  intros entries p Hnd. split.
  - intros H. apply in_map_iff in H. destruct H as [[q peps] [E Hin]]. simpl in E. subst q.
    destruct (clean_wf entries Hnd) as [_ Wp]. destruct (Wp p peps Hin) as [_ Hne].
    destruct peps as [|pep0 r] eqn:Ep; [congruence|]. rewrite <- Ep in *. exists pep0.
    apply (clean_inc entries p peps Hnd Hin). rewrite Ep. left. reflexivity.
  - intros [pep H]. destruct (inc_clean entries p pep H) as [peps [Hin _]].
    change p with (fst (p, peps)). apply in_map. assumption.
Qed.

(* equality of two results of read_fasta up to the orders inside names and sets *)
Definition out_sub (out out' : gr_out P) : Prop :=
  (forall pep n, In (pep, n) (gr_unique P out) ->
     exists n', In (pep, n') (gr_unique P out') /\ name_eq n n') /\
  (forall pep ns, In (pep, ns) (gr_shared P out) ->
     exists ns', In (pep, ns') (gr_shared P out') /\
                 forall n, In n ns -> exists n', In n' ns' /\ name_eq n n') /\
  (forall t d, In (t, d) (gr_protein_map P out) -> In (t, d) (gr_protein_map P out')) /\
  (gr_has_decoys P out = true -> gr_has_decoys P out' = true).

Lemma in_group_equiv : forall prots prots' g g',
  prots_sub prots prots' -> prots_sub prots' prots -> group_spec prots g -> group_spec prots' g' ->
  forall n pep, in_group g n pep -> exists n', in_group g' n' pep /\ name_eq n n'.
Proof.
  intros prots prots' g g' H12 H21 Hs Hs' n pep [S [Hin Hpep]].
  destruct (groups_equiv prots prots' g g' H12 H21 Hs Hs' n S Hin) as [n' [S' [Hin' [Hn [E1 E2]]]]].
  exists n'. split; [|assumption]. exists S'. split; [assumption|apply E1; assumption].
Qed.

Lemma out_sub_ok : forall entries entries' out out',
  NoDup (map fst entries) -> NoDup (map fst entries') ->
  (forall p pep, inc entries p pep <-> inc entries' p pep) ->
  fasta_spec entries out -> fasta_spec entries' out' -> out_sub out out'.
Proof.
  intros entries entries' out out' Hnd Hnd' Hinc Hf Hf'.
  assert (H12 : prots_sub (clean entries) (clean entries')) by (apply clean_sub; assumption).
  assert (H21 : prots_sub (clean entries') (clean entries)).
  { apply clean_sub; try assumption. intros p pep. symmetry. apply Hinc. }
  destruct (clean_wf entries Hnd) as [Wn _]. destruct (clean_wf entries' Hnd') as [Wn' _].
  destruct (fs_groups _ _ Hf) as [g [Hs [U [Sh1 Sh2]]]].
  destruct (fs_groups _ _ Hf') as [g' [Hs' [U' [Sh1' Sh2']]]].
  assert (Hfw := in_group_equiv _ _ g g' H12 H21 Hs Hs').
  assert (Hbw := in_group_equiv _ _ g' g H21 H12 Hs' Hs).
  assert (Hname : forall t, In t (map fst (clean entries)) -> In t (map fst (clean entries'))).
  { intros t Ht. apply (clean_name_inc entries' t Hnd'). apply (clean_name_inc entries t Hnd) in Ht.
    destruct Ht as [pep Ht]. exists pep. apply Hinc. assumption. }
  split; [|split; [|split]].
  - intros pep n Hin. apply U in Hin. destruct Hin as [Hn Hall].
    destruct (Hfw n pep Hn) as [n' [Hn' Heq]]. exists n'. split; [|assumption].
    apply U'. split; [assumption|]. intros m' Hm'.
    destruct (Hbw m' pep Hm') as [m [Hm Heq2]].
    assert (E : m = n) by (apply Hall; assumption). subst m.
    destruct Hm' as [S1 [HinS1 _]]. destruct Hn' as [S2 [HinS2 _]].
    apply (same_members_same_group (clean entries') g' m' S1 n' S2 Wn' Hs' HinS1 HinS2).
    intros x. rewrite (Heq2 x). apply Heq.
  - intros pep ns Hin. destruct (Sh1 pep ns Hin) as [Hndns [Hlen Hns]].
    destruct ns as [|a [|b l]] eqn:Ens; simpl in Hlen; try lia. rewrite <- Ens in *.
    assert (Ha : In a ns) by (rewrite Ens; left; reflexivity).
    assert (Hb : In b ns) by (rewrite Ens; right; left; reflexivity).
    assert (Hab : a <> b).
    { rewrite Ens in Hndns. inversion Hndns as [|? ? Hx _]; subst. intros E. apply Hx. left. congruence. }
    apply Hns in Ha. apply Hns in Hb.
    destruct (Hfw a pep Ha) as [a' [Ha' Heqa]]. destruct (Hfw b pep Hb) as [b' [Hb' Heqb]].
    assert (Hab' : a' <> b').
    { intros E. subst b'. apply Hab.
      destruct Ha as [S1 [HinS1 _]]. destruct Hb as [S2 [HinS2 _]].
      apply (same_members_same_group (clean entries) g a S1 b S2 Wn Hs HinS1 HinS2).
      intros x. rewrite (Heqa x). symmetry. apply Heqb. }
    pose proof (Sh2' pep a' b' Hab' Ha' Hb') as Hk. apply in_map_iff in Hk.
    destruct Hk as [[pep' ns'] [E Hin']]. simpl in E. subst pep'.
    exists ns'. split; [assumption|].
    intros n Hn. apply Hns in Hn. destruct (Hfw n pep Hn) as [n' [Hn' Heq]]. exists n'.
    split; [|assumption]. apply (proj2 (proj2 (Sh1' pep ns' Hin'))). assumption.
  - intros t d Hin. apply (fs_pmap _ _ Hf) in Hin. destruct Hin as [H1 [H2 H3]].
    apply (fs_pmap _ _ Hf'). split; [apply Hname; assumption|split; assumption].
  - intros H. apply (fs_has_decoys _ _ Hf) in H. destruct H as [t [H1 [H2 H3]]].
    apply (fs_has_decoys _ _ Hf'). exists t. split; [apply Hname; assumption|].
    split; [assumption|apply Hname; assumption].
Qed.

Theorem read_fasta_order_free : forall pi pi' entries entries' out out',
  perm_oracle pi -> perm_oracle pi' ->
  NoDup (map fst entries) -> NoDup (map fst entries') ->
  (forall p pep, inc entries p pep <-> inc entries' p pep) ->
  gr_read_fasta P peqb pi is_decoy decoy_of entries = Ok out ->
  gr_read_fasta P peqb pi' is_decoy decoy_of entries' = Ok out' ->
  out_sub out out' /\ out_sub out' out.
Proof.
  intros pi pi' entries entries' out out' Hpi Hpi' Hnd Hnd' Hinc Hrun Hrun'.
  pose proof (read_fasta_inv pi entries out Hpi Hnd Hrun) as Hf.
  pose proof (read_fasta_inv pi' entries' out' Hpi' Hnd' Hrun') as Hf'.
  split.
  - apply (out_sub_ok entries entries'); assumption.
  - apply (out_sub_ok entries' entries); try assumption. intros p pep. symmetry. apply Hinc.
Qed.

End Fasta.

End GroupingProofs.

(* ================================================================== the extracted instance *)
Lemma gr_str_eqb_spec : forall a b : str, reflect (a = b) (str_eqb a b).
Proof.
  induction a as [|x a IH]; intros [|y b]; simpl; try (constructor; congruence).
  destruct (Z.eqb_spec x y) as [E|E]; simpl.
  - destruct (IH b) as [E2|E2]; constructor; congruence.
  - constructor; congruence.
Qed.

Lemma gr_take_nth_perm : forall {A} i (l : list A) x r,
  gr_take_nth i l = Some (x, r) -> Permutation l (x :: r).
Proof.
  intros A i l. revert i. induction l as [|y l IH]; intros i x r H.
  { destruct i; simpl in H; discriminate. }
  destruct i as [|j]; simpl in H.
  - injection H as E1 E2. subst. apply Permutation_refl.
  - destruct (gr_take_nth j l) as [[z r']|] eqn:E; [|discriminate].
    injection H as E1 E2. subst.
    eapply perm_trans; [apply perm_skip; apply (IH j x r' E)|apply perm_swap].
Qed.

Lemma gr_perm_fuel_perm : forall {A} fuel k (l : list A), Permutation l (gr_perm_fuel fuel k l).
Proof.
  intros A fuel. induction fuel as [|f IH]; intros k l; simpl; [apply Permutation_refl|].
  destruct l as [|a l']; [apply Permutation_refl|].
  destruct (gr_take_nth (Nat.modulo k (length (a :: l'))) (a :: l')) as [[x r]|] eqn:E;
    [|apply Permutation_refl].
  eapply perm_trans; [apply (gr_take_nth_perm _ _ _ _ E)|apply perm_skip; apply IH].
Qed.

Lemma gr_perm_oracle : forall k, perm_oracle str (fun _ l => gr_perm k l).
Proof. intros k p l. unfold gr_perm. apply gr_perm_fuel_perm. Qed.

(* ================================================================== statements used by Props/C16.v *)
Definition eqb_ok {P : Type} (peqb : P -> P -> bool) : Type := forall a b, reflect (a = b) (peqb a b).

Lemma group_inv : forall P peqb, eqb_ok peqb -> forall pi prots pm0 g pm,
  perm_oracle P pi -> wf_prots P prots -> pm0_ok P prots pm0 ->
  gr_group P peqb pi prots pm0 = Ok (g, pm) -> group_spec P prots g /\ pmap_spec P g pm.
Proof.
  intros P peqb He pi prots pm0 g pm Hpi Hwf H0 Hrun.
  destruct (group_ok P peqb He pi prots pm0 Hpi Hwf H0) as [g1 [pm1 [R1 Hs]]].
  rewrite Hrun in R1. injection R1 as E1 E2. subst g1 pm1. exact Hs.
Qed.

Lemma group_characterisation : forall P peqb, eqb_ok peqb -> forall pi prots pm0,
  perm_oracle P pi -> wf_prots P prots -> pm0_ok P prots pm0 ->
  exists g pm, gr_group P peqb pi prots pm0 = Ok (g, pm) /\
    (forall n S, In (n, S) g -> maximal P prots S /\ members_ok P prots n S /\ NoDup n) /\
    (forall S, maximal P prots S -> exists n S', In (n, S') g /\ seteq S' S) /\
    NoDup (map fst g) /\
    (forall pep, NoDup (gr_lookup P pep pm) /\
                 forall x, In x (gr_lookup P pep pm) <-> exists S, In (x, S) g /\ In pep S).
Proof.
  intros P peqb He pi prots pm0 Hpi Hwf H0.
  destruct (group_ok P peqb He pi prots pm0 Hpi Hwf H0) as [g [pm [R1 [Hs Hp]]]].
  exists g, pm. split; [exact R1|]. split; [|split; [|split]].
  - intros n S Hin. split; [apply (gs_maximal _ _ _ Hs n S Hin)|].
    split; [apply (gs_members _ _ _ Hs n S Hin)|apply (gs_listed_once _ _ _ Hs n S Hin)].
  - apply (gs_all_maximal _ _ _ Hs).
  - apply (gs_keys _ _ _ Hs).
  - exact Hp.
Qed.

Lemma group_cover : forall P peqb, eqb_ok peqb -> forall pi prots pm0 g pm,
  perm_oracle P pi -> wf_prots P prots -> pm0_ok P prots pm0 ->
  gr_group P peqb pi prots pm0 = Ok (g, pm) ->
  forall p peps, In (p, peps) prots -> exists n S, In (n, S) g /\ In p n /\ incl peps S.
Proof.
  intros P peqb He pi prots pm0 g pm Hpi Hwf H0 Hrun p peps Hin.
  destruct (group_inv P peqb He pi prots pm0 g pm Hpi Hwf H0 Hrun) as [Hs _].
  destruct (gs_cover _ _ _ Hs p peps Hin) as [n [S [HinS Hpn]]].
  exists n, S. split; [assumption|]. split; [assumption|].
  apply (proj1 (gs_members _ _ _ Hs n S HinS p)) in Hpn. destruct Hpn as [peps' [Hp' Hsub]].
  destruct Hwf as [Hnd _].
  assert (E : (p, peps') = (p, peps)) by (eapply nodup_map_inj; [exact Hnd|assumption|assumption|reflexivity]).
  injection E as E. subst peps'. assumption.
Qed.

Lemma group_set : forall P peqb, eqb_ok peqb -> forall pi prots pm0 g pm,
  perm_oracle P pi -> wf_prots P prots -> pm0_ok P prots pm0 ->
  gr_group P peqb pi prots pm0 = Ok (g, pm) ->
  forall n S, In (n, S) g ->
    (exists f, In f n /\ In (f, S) prots) /\
    (forall x peps, In x n -> In (x, peps) prots -> incl peps S).
Proof.
  intros P peqb He pi prots pm0 g pm Hpi Hwf H0 Hrun n S Hin.
  destruct (group_inv P peqb He pi prots pm0 g pm Hpi Hwf H0 Hrun) as [Hs _].
  split; [apply (gs_founder _ _ _ Hs n S Hin)|].
  intros x peps Hx Hxp.
  apply (proj1 (gs_members _ _ _ Hs n S Hin x)) in Hx. destruct Hx as [peps' [Hp' Hsub]].
  destruct Hwf as [Hnd _].
  assert (E : (x, peps') = (x, peps)) by (eapply nodup_map_inj; [exact Hnd|assumption|assumption|reflexivity]).
  injection E as E. subst peps'. assumption.
Qed.

Lemma group_antichain : forall P peqb, eqb_ok peqb -> forall pi prots pm0 g pm,
  perm_oracle P pi -> wf_prots P prots -> pm0_ok P prots pm0 ->
  gr_group P peqb pi prots pm0 = Ok (g, pm) ->
  forall n S n' S', In (n, S) g -> In (n', S') g -> incl S S' -> n = n' /\ S = S'.
Proof.
  intros P peqb He pi prots pm0 g pm Hpi Hwf H0 Hrun n S n' S' Hin Hin' Hsub.
  destruct (group_inv P peqb He pi prots pm0 g pm Hpi Hwf H0 Hrun) as [Hs _].
  assert (E : n = n') by (apply (gs_anti _ _ _ Hs n S n' S' Hin Hin' Hsub)). subst n'.
  split; [reflexivity|].
  assert (E : (n, S) = (n, S')) by (eapply nodup_map_inj; [apply (gs_keys _ _ _ Hs)|assumption|assumption|reflexivity]).
  congruence.
Qed.

Lemma fasta_unique_shared : forall P peqb, eqb_ok peqb -> forall is_decoy decoy_of pi entries out,
  perm_oracle P pi -> NoDup (map fst entries) ->
  gr_read_fasta P peqb pi is_decoy decoy_of entries = Ok out ->
  exists g, group_spec P (clean P entries) g /\
    (forall pep n, In (pep, n) (gr_unique P out) <->
       in_group P g n pep /\ forall n', in_group P g n' pep -> n' = n) /\
    (forall pep ns, In (pep, ns) (gr_shared P out) ->
       NoDup ns /\ 2 <= length ns /\ forall x, In x ns <-> in_group P g x pep) /\
    (forall pep n n', n <> n' -> in_group P g n pep -> in_group P g n' pep ->
       In pep (map fst (gr_shared P out))) /\
    NoDup (map fst (gr_unique P out) ++ map fst (gr_shared P out)).
Proof.
  intros P peqb He is_decoy decoy_of pi entries out Hpi Hnd Hrun.
  pose proof (read_fasta_inv P peqb He is_decoy decoy_of pi entries out Hpi Hnd Hrun) as Hf.
  destruct (fs_groups _ _ _ _ _ Hf) as [g [Hs [U [S1 S2]]]].
  exists g. split; [assumption|]. split; [assumption|]. split; [assumption|]. split; [assumption|].
  apply (fs_keys _ _ _ _ _ Hf).
Qed.

Lemma fasta_decoy_pairing : forall P peqb, eqb_ok peqb -> forall is_decoy decoy_of pi entries out,
  perm_oracle P pi -> NoDup (map fst entries) ->
  gr_read_fasta P peqb pi is_decoy decoy_of entries = Ok out ->
  (forall t d, In (t, d) (gr_protein_map P out) <->
     In t (map fst (clean P entries)) /\ is_decoy t = false /\ d = decoy_of t) /\
  NoDup (map fst (gr_protein_map P out)) /\
  (gr_has_decoys P out = true <->
     exists t, In t (map fst (clean P entries)) /\ is_decoy t = false /\
               In (decoy_of t) (map fst (clean P entries))).
Proof.
  intros P peqb He is_decoy decoy_of pi entries out Hpi Hnd Hrun.
  pose proof (read_fasta_inv P peqb He is_decoy decoy_of pi entries out Hpi Hnd Hrun) as Hf.
  split; [apply (fs_pmap _ _ _ _ _ Hf)|]. split; [apply (fs_pmap_keys _ _ _ _ _ Hf)|apply (fs_has_decoys _ _ _ _ _ Hf)].
Qed.

Lemma fasta_str_instance : forall k prefix entries out,
  NoDup (map fst entries) -> gr_read_fasta_str k prefix entries = Ok out ->
  fasta_spec str (prefixb prefix) (fun n => prefix ++ n) entries out.
Proof.
  intros k prefix entries out Hnd Hrun. unfold gr_read_fasta_str in Hrun.
  eapply read_fasta_inv; [exact gr_str_eqb_spec|apply (gr_perm_oracle k)|exact Hnd|exact Hrun].
Qed.
