(* MatchDecoyP.v — proofs about Model/MatchDecoy.v (peptides.match_decoy): C15 (composition, injectivity, exhaustion)
   and C08 (the result does not depend on the order the targets arrive in). *)
From Coq Require Import Lia Permutation Sorted.
From Mokaverif Require Import Model.Base Model.MatchDecoy Proofs.BaseP.
Open Scope Z_scope.

(* ================================================================ sorting *)
Definition md_le {A : Type} (leb : A -> A -> bool) (a b : A) : Prop := leb a b = true.

Section Sort.
  Context {A : Type} (leb : A -> A -> bool).
  Hypothesis leb_total : forall a b, leb a b = true \/ leb b a = true.
  Hypothesis leb_trans : forall a b c, leb a b = true -> leb b c = true -> leb a c = true.
  Hypothesis leb_antisym : forall a b, leb a b = true -> leb b a = true -> a = b.

  Lemma md_insert_perm x l : Permutation (md_insert leb x l) (x :: l).
  Proof.
    induction l as [|y t IH]; cbn [md_insert]; [apply Permutation_refl|].
    destruct (leb x y); [apply Permutation_refl|].
    eapply perm_trans; [apply perm_skip, IH | apply perm_swap].
  Qed.

  Lemma md_isort_perm l : Permutation (md_isort leb l) l.
  Proof.
    induction l as [|x l IH]; cbn [md_isort fold_right]; [apply perm_nil|].
    eapply perm_trans; [apply md_insert_perm | apply perm_skip, IH].
  Qed.

  Lemma md_insert_sorted x l :
    StronglySorted (md_le leb) l -> StronglySorted (md_le leb) (md_insert leb x l).
  Proof.
    induction l as [|y t IH]; intros Hs; cbn [md_insert].
    - constructor; constructor.
    - inversion Hs as [|y' t' Hst Hall]; subst.
      destruct (leb x y) eqn:E.
      + constructor; [exact Hs|]. constructor; [exact E|].
        eapply Forall_impl; [|exact Hall]. intros z Hz. unfold md_le in *. eapply leb_trans; eassumption.
      + assert (Hyx : leb y x = true) by (destruct (leb_total x y) as [H|H]; [congruence|exact H]).
        constructor; [apply IH; exact Hst|].
        apply Forall_forall. intros z Hz.
        apply (Permutation_in _ (md_insert_perm x t)) in Hz. destruct Hz as [<-|Hz]; [exact Hyx|].
        rewrite Forall_forall in Hall. apply Hall; exact Hz.
  Qed.

  Lemma md_isort_sorted l : StronglySorted (md_le leb) (md_isort leb l).
  Proof.
    induction l as [|x l IH]; cbn [md_isort fold_right]; [constructor|].
    apply md_insert_sorted; exact IH.
  Qed.

  (* a sorted list is a function of its multiset: ANY correct sort returns this list *)
  Lemma md_sorted_perm_eq l1 : forall l2,
    StronglySorted (md_le leb) l1 -> StronglySorted (md_le leb) l2 -> Permutation l1 l2 -> l1 = l2.
  Proof.
    induction l1 as [|x l1 IH]; intros l2 H1 H2 HP.
    - apply Permutation_nil in HP. congruence.
    - destruct l2 as [|y l2]; [apply Permutation_sym, Permutation_nil in HP; discriminate|].
      inversion H1 as [|x' l1' Hs1 Ha1]; subst. inversion H2 as [|y' l2' Hs2 Ha2]; subst.
      rewrite Forall_forall in Ha1, Ha2.
      assert (Hrefl : forall a, leb a a = true) by (intros a; destruct (leb_total a a); assumption).
      assert (Hxy : leb x y = true).
      { assert (Hin : In y (x :: l1)) by (eapply Permutation_in; [apply Permutation_sym; exact HP | left; reflexivity]).
        destruct Hin as [<-|Hin]; [apply Hrefl | apply Ha1; exact Hin]. }
      assert (Hyx : leb y x = true).
      { assert (Hin : In x (y :: l2)) by (eapply Permutation_in; [exact HP | left; reflexivity]).
        destruct Hin as [<-|Hin]; [apply Hrefl | apply Ha2; exact Hin]. }
      assert (x = y) by (apply leb_antisym; assumption). subst y.
      f_equal. apply IH; [exact Hs1 | exact Hs2 | eapply Permutation_cons_inv; exact HP].
  Qed.

  Lemma md_isort_perm_eq l1 l2 : Permutation l1 l2 -> md_isort leb l1 = md_isort leb l2.
  Proof.
    intros HP. apply md_sorted_perm_eq; try apply md_isort_sorted.
    eapply perm_trans; [apply md_isort_perm|]. eapply perm_trans; [exact HP|]. apply Permutation_sym, md_isort_perm.
  Qed.

  Lemma md_isort_of_sorted l : StronglySorted (md_le leb) l -> md_isort leb l = l.
  Proof. intros Hs. apply md_sorted_perm_eq; [apply md_isort_sorted | exact Hs | apply md_isort_perm]. Qed.
End Sort.

(* ---------- the two orders ---------- *)
Lemma md_str_leb_total a : forall b, md_str_leb a b = true \/ md_str_leb b a = true.
Proof.
  induction a as [|x a IH]; intros [|y b]; cbn [md_str_leb]; auto.
  destruct (Z.ltb_spec x y) as [Hxy|Hxy]; [auto|].
  destruct (Z.ltb_spec y x) as [Hyx|Hyx]; [auto|].
  assert (x = y) by lia. subst y. rewrite Z.eqb_refl. apply IH.
Qed.

Lemma md_str_leb_trans a : forall b c, md_str_leb a b = true -> md_str_leb b c = true -> md_str_leb a c = true.
Proof.
  induction a as [|x a IH]; intros [|y b] [|z c]; cbn [md_str_leb]; try congruence.
  destruct (Z.ltb_spec x y) as [Hxy|Hxy]; destruct (Z.ltb_spec y z) as [Hyz|Hyz];
    destruct (Z.ltb_spec x z) as [Hxz|Hxz]; try reflexivity; try lia;
    destruct (Z.eqb_spec x y) as [Exy|Exy]; destruct (Z.eqb_spec y z) as [Eyz|Eyz];
    destruct (Z.eqb_spec x z) as [Exz|Exz]; try congruence; try lia.
  apply IH.
Qed.

Lemma md_str_leb_antisym a : forall b, md_str_leb a b = true -> md_str_leb b a = true -> a = b.
Proof.
  induction a as [|x a IH]; intros [|y b]; cbn [md_str_leb]; try congruence.
  destruct (Z.ltb_spec x y) as [Hxy|Hxy]; destruct (Z.ltb_spec y x) as [Hyx|Hyx]; try lia;
    destruct (Z.eqb_spec x y) as [Exy|Exy]; destruct (Z.eqb_spec y x) as [Eyx|Eyx]; try congruence; try lia.
  intros H1 H2. subst y. f_equal. apply IH; assumption.
Qed.

Lemma md_zleb_total a b : Z.leb a b = true \/ Z.leb b a = true.
Proof. rewrite !Z.leb_le. lia. Qed.
Lemma md_zleb_trans a b c : Z.leb a b = true -> Z.leb b c = true -> Z.leb a c = true.
Proof. rewrite !Z.leb_le. lia. Qed.
Lemma md_zleb_antisym a b : Z.leb a b = true -> Z.leb b a = true -> a = b.
Proof. rewrite !Z.leb_le. lia. Qed.

(* sort_values() / sorted(): sorted, a rearrangement, and a function of the multiset only *)
Lemma md_sort_strs_sorted l : StronglySorted (md_le md_str_leb) (md_sort_strs l).
Proof. apply md_isort_sorted; [exact md_str_leb_total | exact md_str_leb_trans]. Qed.
Lemma md_sort_strs_perm l : Permutation (md_sort_strs l) l.
Proof. apply md_isort_perm. Qed.
Lemma md_sort_strs_perm_eq l1 l2 : Permutation l1 l2 -> md_sort_strs l1 = md_sort_strs l2.
Proof. apply md_isort_perm_eq; [exact md_str_leb_total | exact md_str_leb_trans | exact md_str_leb_antisym]. Qed.

Lemma md_sort_chars_sorted s : StronglySorted (md_le Z.leb) (md_sort_chars s).
Proof. apply md_isort_sorted; [exact md_zleb_total | exact md_zleb_trans]. Qed.
Lemma md_sort_chars_perm s : Permutation (md_sort_chars s) s.
Proof. apply md_isort_perm. Qed.

(* equal plain composition keys = anagrams *)
Lemma md_key_plain_anagram a b : md_key_plain a = md_key_plain b <-> Permutation a b.
Proof.
  unfold md_key_plain. split; intros H.
  - eapply perm_trans; [apply Permutation_sym, md_sort_chars_perm|]. rewrite H. apply md_sort_chars_perm.
  - apply md_isort_perm_eq; [exact md_zleb_total | exact md_zleb_trans | exact md_zleb_antisym | exact H].
Qed.

(* ---------- on upper-case strings both keys are the sorted characters ---------- *)
Lemma md_split_go_upper s : forall cur,
  Forall (fun c => md_is_upper c = true) s -> md_split_go cur s = rev cur :: map (fun c => [c]) s.
Proof.
  induction s as [|c r IH]; intros cur Hu; cbn [md_split_go map]; [reflexivity|].
  inversion Hu as [|c' r' Hc Hr]; subst. rewrite Hc. rewrite (IH [c] Hr). reflexivity.
Qed.

Lemma md_insert_singleton x l :
  md_insert md_str_leb [x] (map (fun c => [c]) l) = map (fun c => [c]) (md_insert Z.leb x l).
Proof.
  induction l as [|y t IH]; cbn [md_insert map]; [reflexivity|].
  assert (E : md_str_leb [x] [y] = Z.leb x y).
  { cbn [md_str_leb]. destruct (Z.ltb_spec x y) as [H|H]; destruct (Z.leb_spec x y) as [H'|H']; try lia; try reflexivity;
      destruct (Z.eqb_spec x y) as [H''|H'']; try lia; reflexivity. }
  rewrite E. destruct (Z.leb x y); cbn [map]; [reflexivity|]. rewrite IH. reflexivity.
Qed.

Lemma md_sort_singletons l : md_sort_strs (map (fun c => [c]) l) = map (fun c => [c]) (md_sort_chars l).
Proof.
  unfold md_sort_strs, md_sort_chars.
  induction l as [|x l IH]; cbn [md_isort fold_right map]; [reflexivity|].
  fold (md_isort md_str_leb (map (fun c : Z => [c]) l)). fold (md_isort Z.leb l).
  rewrite IH. apply md_insert_singleton.
Qed.

Lemma md_concat_singletons (l : str) : concat (map (fun c => [c]) l) = l.
Proof. induction l as [|x l IH]; cbn [map concat app]; [reflexivity|]. rewrite IH. reflexivity. Qed.

Lemma md_insert_empty l : md_insert md_str_leb [] l = [] :: l.
Proof. destruct l; reflexivity. Qed.

Lemma md_key_mods_upper s : Forall (fun c => md_is_upper c = true) s -> md_key_mods s = md_key_plain s.
Proof.
  intros Hu. unfold md_key_mods, md_key_plain, md_split_upper. rewrite (md_split_go_upper s [] Hu). cbn [rev].
  unfold md_sort_strs at 1. cbn [md_isort fold_right].
  fold (md_isort md_str_leb (map (fun c : Z => [c]) s)). fold (md_sort_strs (map (fun c : Z => [c]) s)).
  rewrite md_sort_singletons.
  rewrite md_insert_empty. cbn [concat app]. apply md_concat_singletons.
Qed.

(* ================================================================ the shuffle oracle *)
Lemma md_is_perm_spec perm n : md_is_perm perm n = true <-> Permutation perm (seq 0 n).
Proof.
  unfold md_is_perm. rewrite andb_true_iff, Nat.eqb_eq, forallb_forall. split.
  - intros [Hlen Hall]. apply Permutation_sym. apply NoDup_Permutation_bis.
    + apply seq_NoDup.
    + rewrite seq_length. lia.
    + intros i Hi. apply Hall in Hi. apply existsb_exists in Hi. destruct Hi as [j [Hj E]].
      apply Nat.eqb_eq in E. subst j. exact Hj.
  - intros HP. split.
    + rewrite (Permutation_length HP). apply seq_length.
    + intros i Hi. apply existsb_exists. exists i. split; [|apply Nat.eqb_refl].
      eapply Permutation_in; [apply Permutation_sym; exact HP | exact Hi].
Qed.

Lemma md_take_map {A : Type} (l : list A) perm : forall xs,
  md_take l perm = Some xs -> map Some xs = map (nth_error l) perm.
Proof.
  induction perm as [|i r IH]; intros xs H; cbn [md_take] in H.
  - inversion H. reflexivity.
  - destruct (nth_error l i) as [x|] eqn:E; [|discriminate].
    destruct (md_take l r) as [ys|]; [|discriminate]. inversion H; subst. cbn [map]. rewrite E, (IH ys eq_refl). reflexivity.
Qed.

Lemma md_take_some {A : Type} (l : list A) perm :
  Forall (fun i => (i < length l)%nat) perm -> exists xs, md_take l perm = Some xs.
Proof.
  induction perm as [|i r IH]; intros Hb; cbn [md_take]; [eexists; reflexivity|].
  inversion Hb as [|i' r' Hi Hr]; subst. destruct (IH Hr) as [ys Hys]. rewrite Hys.
  destruct (nth_error l i) as [x|] eqn:E; [eexists; reflexivity|].
  apply nth_error_None in E. lia.
Qed.

Lemma md_nth_error_seq {A : Type} (l : list A) : map (nth_error l) (seq 0 (length l)) = map Some l.
Proof.
  induction l as [|x l IH]; [reflexivity|].
  cbn [length]. rewrite <- cons_seq, <- seq_shift. cbn [map nth_error]. rewrite map_map. f_equal.
  rewrite <- IH. apply map_ext. intros i. reflexivity.
Qed.

Lemma md_map_some_inj {A : Type} (a : list A) : forall b, map Some a = map Some b -> a = b.
Proof.
  induction a as [|x a IH]; intros [|y b] H; try discriminate; [reflexivity|].
  cbn [map] in H. inversion H. f_equal. apply IH. assumption.
Qed.

Lemma md_take_perm {A : Type} (l : list A) perm xs :
  Permutation perm (seq 0 (length l)) -> md_take l perm = Some xs -> Permutation xs l.
Proof.
  intros HP Ht. apply md_take_map in Ht.
  assert (HP2 : Permutation (map Some xs) (map Some l)).
  { rewrite Ht, <- md_nth_error_seq. apply Permutation_map. exact HP. }
  apply Permutation_map_inv in HP2. destruct HP2 as [l3 [E HP3]].
  apply md_map_some_inj in E. subst l3. apply Permutation_sym. exact HP3.
Qed.

(* the shuffle succeeds exactly on permutations, and rearranges *)
Lemma md_shuffle_ok perm l : Permutation perm (seq 0 (length l)) -> exists sh, md_shuffle perm l = Ok sh.
Proof.
  intros HP. unfold md_shuffle. rewrite (proj2 (md_is_perm_spec perm (length l)) HP).
  destruct (md_take_some l perm) as [xs Hxs].
  - apply Forall_forall. intros i Hi. apply (Permutation_in _ HP) in Hi. apply in_seq in Hi. lia.
  - rewrite Hxs. eexists; reflexivity.
Qed.

Lemma md_shuffle_inv perm l sh :
  md_shuffle perm l = Ok sh -> Permutation perm (seq 0 (length l)) /\ Permutation sh l.
Proof.
  unfold md_shuffle. destruct (md_is_perm perm (length l)) eqn:E; [|discriminate].
  apply md_is_perm_spec in E. destruct (md_take l perm) as [xs|] eqn:Et; [|discriminate].
  intros H; inversion H; subst. split; [exact E | eapply md_take_perm; eassumption].
Qed.

Lemma md_shuffle_err perm l e : md_shuffle perm l = Err e -> e = EValue /\ ~ Permutation perm (seq 0 (length l)).
Proof.
  intros H. split.
  - unfold md_shuffle in H. destruct (md_is_perm perm (length l)); [destruct (md_take l perm)|]; congruence.
  - intros HP. destruct (md_shuffle_ok perm l HP) as [sh Hsh]. congruence.
Qed.

(* ================================================================ groups *)
Definition md_avail (k : str) : md_groups -> list str :=
  fix go (g : md_groups) : list str :=
    match g with
    | [] => []
    | (k', l) :: r => if str_eqb k k' then l else go r
    end.

Definition md_content (g : md_groups) : list str := concat (map snd g).

Definition md_count (key : str -> str) (k : str) (l : list str) : nat :=
  length (filter (fun p => str_eqb k (key p)) l).

Lemma md_eqb_neq a b : str_eqb a b = false <-> a <> b.
Proof.
  split.
  - intros H E. subst. rewrite b_str_eqb_refl in H. discriminate.
  - intros H. destruct (str_eqb a b) eqn:E; [|reflexivity]. apply b_str_eqb_eq in E. contradiction.
Qed.

Lemma md_eqb_sym a b : str_eqb a b = str_eqb b a.
Proof.
  destruct (str_eqb a b) eqn:E.
  - apply b_str_eqb_eq in E. subst. symmetry. apply b_str_eqb_refl.
  - apply md_eqb_neq in E. symmetry. apply md_eqb_neq. congruence.
Qed.

Lemma md_avail_add k k0 p g :
  md_avail k (md_add k0 p g) = if str_eqb k k0 then p :: md_avail k g else md_avail k g.
Proof.
  induction g as [|[k' l] r IH]; cbn [md_add md_avail].
  - destruct (str_eqb k k0); reflexivity.
  - destruct (str_eqb k0 k') eqn:E0; cbn [md_avail].
    + apply b_str_eqb_eq in E0. subst k'. destruct (str_eqb k k0); reflexivity.
    + destruct (str_eqb k k') eqn:E1.
      * apply b_str_eqb_eq in E1. subst k'. rewrite md_eqb_sym, E0. reflexivity.
      * exact IH.
Qed.

Lemma md_content_add k p g : Permutation (md_content (md_add k p g)) (p :: md_content g).
Proof.
  unfold md_content. induction g as [|[k' l] r IH]; cbn [md_add map snd concat].
  - apply Permutation_refl.
  - destruct (str_eqb k k'); cbn [map snd concat].
    + apply Permutation_refl.
    + eapply perm_trans; [apply Permutation_app_head, IH|]. apply Permutation_sym, Permutation_middle.
Qed.

Lemma md_avail_residue key k peps : forall g0,
  md_avail k (fold_left (fun g p => md_add (key p) p g) peps g0)
  = rev (filter (fun p => str_eqb k (key p)) peps) ++ md_avail k g0.
Proof.
  induction peps as [|p r IH]; intros g0; cbn [fold_left filter]; [reflexivity|].
  rewrite IH, md_avail_add. destruct (str_eqb k (key p)); [|reflexivity].
  cbn [rev]. rewrite <- app_assoc. reflexivity.
Qed.

Lemma md_content_residue key peps : forall g0,
  Permutation (md_content (fold_left (fun g p => md_add (key p) p g) peps g0)) (peps ++ md_content g0).
Proof.
  induction peps as [|p r IH]; intros g0; cbn [fold_left app]; [apply Permutation_refl|].
  eapply perm_trans; [apply IH|].
  eapply perm_trans; [apply Permutation_app_head, md_content_add|]. apply Permutation_sym, Permutation_middle.
Qed.

Lemma md_pop_none k g : md_pop k g = None <-> md_avail k g = [].
Proof.
  induction g as [|[k' l] r IH]; cbn [md_pop md_avail]; [split; reflexivity|].
  destruct (str_eqb k k').
  - destruct l; split; congruence.
  - destruct (md_pop k r) as [[t r']|]; [split; [discriminate|] | tauto].
    intros H. apply IH in H. discriminate.
Qed.

Lemma md_pop_some k g : forall t g',
  md_pop k g = Some (t, g') ->
  md_avail k g = t :: md_avail k g' /\
  (forall k', k' <> k -> md_avail k' g' = md_avail k' g) /\
  Permutation (md_content g) (t :: md_content g').
Proof.
  induction g as [|[k1 l] r IH]; intros t g' H; cbn [md_pop] in H; [discriminate|].
  destruct (str_eqb k k1) eqn:E.
  - apply b_str_eqb_eq in E. subst k1. destruct l as [|t0 l']; [discriminate|]. inversion H; subst.
    cbn [md_avail]. rewrite b_str_eqb_refl. split; [reflexivity|]. split.
    + intros k' Hne. apply md_eqb_neq in Hne. rewrite Hne. reflexivity.
    + unfold md_content. cbn [map snd concat app]. apply Permutation_refl.
  - destruct (md_pop k r) as [[t1 r1]|] eqn:Ep; [|discriminate]. inversion H; subst.
    destruct (IH t r1 eq_refl) as [Ha [Hb Hc]]. cbn [md_avail]. rewrite E. split; [exact Ha|]. split.
    + intros k' Hne. destruct (str_eqb k' k1); [reflexivity|]. apply Hb; exact Hne.
    + unfold md_content in *. cbn [map snd concat].
      eapply perm_trans; [apply Permutation_app_head, Hc|]. apply Permutation_sym, Permutation_middle.
Qed.

Lemma md_pop_avail_incl k g t g' k' : md_pop k g = Some (t, g') -> incl (md_avail k' g') (md_avail k' g).
Proof.
  intros H. destruct (md_pop_some k g t g' H) as [Ha [Hb _]].
  destruct (str_eqb k' k) eqn:E.
  - apply b_str_eqb_eq in E. subst k'. rewrite Ha. apply incl_tl, incl_refl.
  - apply md_eqb_neq in E. rewrite (Hb k' E). apply incl_refl.
Qed.

(* ================================================================ the loop *)
Lemma md_loop_fst ds : forall g, map fst (md_loop g ds) = ds.
Proof.
  induction ds as [|d r IH]; intros g; cbn [md_loop]; [reflexivity|].
  destruct (md_pop (md_dkey d) g) as [[t g']|]; cbn [map fst]; rewrite IH; reflexivity.
Qed.

(* (a) a matched target was available under the decoy's key *)
Lemma md_loop_sound (P : str -> str -> Prop) ds : forall g,
  (forall k t, In t (md_avail k g) -> P k t) ->
  forall d t, In (d, Some t) (md_loop g ds) -> P (md_dkey d) t /\ In d ds.
Proof.
  induction ds as [|d0 r IH]; intros g Hg d t Hin; cbn [md_loop] in Hin; [destruct Hin|].
  destruct (md_pop (md_dkey d0) g) as [[t0 g']|] eqn:Ep.
  - destruct Hin as [E|Hin].
    + inversion E; subst. split; [|left; reflexivity].
      apply Hg. destruct (md_pop_some _ _ _ _ Ep) as [Ha _]. rewrite Ha. left; reflexivity.
    + destruct (IH g') with (d := d) (t := t) as [H1 H2]; [|exact Hin|split; [exact H1|right; exact H2]].
      intros k t1 Ht1. apply Hg. eapply md_pop_avail_incl; eassumption.
  - destruct Hin as [E|Hin]; [discriminate|].
    destruct (IH g Hg d t Hin) as [H1 H2]. split; [exact H1|right; exact H2].
Qed.

(* (b) every target occurrence is handed out at most once *)
Lemma md_loop_content ds : forall g,
  exists rest, Permutation (map snd (md_matched (md_loop g ds)) ++ rest) (md_content g).
Proof.
  induction ds as [|d r IH]; intros g; cbn [md_loop].
  - exists (md_content g). apply Permutation_refl.
  - destruct (md_pop (md_dkey d) g) as [[t g']|] eqn:Ep.
    + destruct (IH g') as [rest Hrest]. exists rest.
      unfold md_matched in *. cbn [flat_map snd fst app map].
      destruct (md_pop_some _ _ _ _ Ep) as [_ [_ Hc]].
      eapply perm_trans; [apply perm_skip, Hrest|]. apply Permutation_sym, Hc.
    + destruct (IH g) as [rest Hrest]. exists rest. unfold md_matched in *. cbn [flat_map snd app]. exact Hrest.
Qed.

(* (c) the i-th decoy goes without a target iff the earlier decoys of its composition used all of them up *)
Lemma md_loop_nth ds : forall g i d o,
  nth_error (md_loop g ds) i = Some (d, o) ->
  (o = None <-> (length (md_avail (md_dkey d) g) <= md_count md_dkey (md_dkey d) (firstn i ds))%nat).
Proof.
  induction ds as [|d0 r IH]; intros g i d o H; cbn [md_loop] in H; [destruct i; discriminate|].
  destruct i as [|i].
  - cbn [firstn]. unfold md_count. cbn [filter length].
    destruct (md_pop (md_dkey d0) g) as [[t g']|] eqn:Ep; cbn [nth_error] in H; inversion H; subst.
    + destruct (md_pop_some _ _ _ _ Ep) as [Ha _]. rewrite Ha. cbn [length]. split; [discriminate|lia].
    + apply md_pop_none in Ep. rewrite Ep. cbn [length]. split; [lia|reflexivity].
  - cbn [firstn]. unfold md_count. cbn [filter].
    set (F := filter (fun p => str_eqb (md_dkey d) (md_dkey p)) (firstn i r)).
    destruct (md_pop (md_dkey d0) g) as [[t g']|] eqn:Ep; cbn [nth_error] in H.
    + pose proof (IH g' i d o H) as IHn. unfold md_count in IHn. fold F in IHn. rewrite IHn.
      destruct (md_pop_some _ _ _ _ Ep) as [Ha [Hb _]].
      destruct (str_eqb (md_dkey d) (md_dkey d0)) eqn:E; cbn [length].
      * apply b_str_eqb_eq in E. rewrite <- E in Ha. rewrite Ha. cbn [length]. lia.
      * apply md_eqb_neq in E. rewrite (Hb _ E). lia.
    + pose proof (IH g i d o H) as IHn. unfold md_count in IHn. fold F in IHn. rewrite IHn.
      apply md_pop_none in Ep.
      destruct (str_eqb (md_dkey d) (md_dkey d0)) eqn:E; cbn [length].
      * apply b_str_eqb_eq in E. rewrite <- E in Ep. rewrite Ep. cbn [length]. lia.
      * lia.
Qed.

Lemma md_count_cons key k p l :
  md_count key k (p :: l) = ((if str_eqb k (key p) then 1 else 0) + md_count key k l)%nat.
Proof. unfold md_count. cbn [filter]. destruct (str_eqb k (key p)); reflexivity. Qed.

Lemma md_matched_some d t st : md_matched ((d, Some t) :: st) = (d, t) :: md_matched st.
Proof. reflexivity. Qed.
Lemma md_matched_none d st : md_matched ((d, None) :: st) = md_matched st.
Proof. reflexivity. Qed.

(* ... so that per composition min(#decoys, #targets) decoys are matched *)
Lemma md_loop_count k ds : forall g,
  md_count md_dkey k (map fst (md_matched (md_loop g ds)))
  = Nat.min (md_count md_dkey k ds) (length (md_avail k g)).
Proof.
  induction ds as [|d r IH]; intros g; cbn [md_loop]; [reflexivity|].
  rewrite (md_count_cons md_dkey k d r).
  destruct (md_pop (md_dkey d) g) as [[t g']|] eqn:Ep.
  - rewrite md_matched_some. cbn [map fst]. rewrite md_count_cons, IH.
    destruct (md_pop_some _ _ _ _ Ep) as [Ha [Hb _]].
    destruct (str_eqb k (md_dkey d)) eqn:E.
    + apply b_str_eqb_eq in E. subst k. rewrite Ha. cbn [length]. lia.
    + apply md_eqb_neq in E. rewrite (Hb _ E). reflexivity.
  - rewrite md_matched_none, IH.
    apply md_pop_none in Ep. destruct (str_eqb k (md_dkey d)) eqn:E.
    + apply b_str_eqb_eq in E. subst k. rewrite Ep. cbn [length]. lia.
    + reflexivity.
Qed.

Lemma md_filter_perm {A : Type} (f : A -> bool) l1 l2 : Permutation l1 l2 -> Permutation (filter f l1) (filter f l2).
Proof.
  induction 1 as [|x l l' HP IH|x y l|l l' l'' HP1 IH1 HP2 IH2]; cbn [filter].
  - apply perm_nil.
  - destruct (f x); [apply perm_skip|]; exact IH.
  - destruct (f x), (f y); try apply Permutation_refl. apply perm_swap.
  - eapply perm_trans; eassumption.
Qed.

Lemma md_count_perm key k l1 l2 : Permutation l1 l2 -> md_count key k l1 = md_count key k l2.
Proof. intros HP. unfold md_count. apply Permutation_length, md_filter_perm, HP. Qed.

(* ================================================================ the dict *)
Lemma md_set_in k v m d t : In (d, t) (md_set k v m) -> In (d, t) m \/ (d, t) = (k, v).
Proof.
  induction m as [|[a b] r IH]; cbn [md_set]; intros H.
  - destruct H as [H|[]]. right. congruence.
  - destruct (str_eqb k a) eqn:E.
    + apply b_str_eqb_eq in E. subst a. destruct H as [H|H]; [right; congruence | left; right; exact H].
    + destruct H as [H|H]; [left; left; exact H|]. destruct (IH H) as [H'|H']; [left; right; exact H' | right; exact H'].
Qed.

Lemma md_set_keys k v m d : In d (map fst (md_set k v m)) <-> d = k \/ In d (map fst m).
Proof.
  induction m as [|[a b] r IH]; cbn [md_set map fst In].
  - split; intros [H|H]; auto; destruct H.
  - destruct (str_eqb k a) eqn:E; cbn [map fst In].
    + apply b_str_eqb_eq in E. subst a. split; [intros [H|H]; auto | intros [H|[H|H]]; auto].
    + rewrite IH. split; [intros [H|[H|H]]; auto | intros [H|[H|H]]; auto].
Qed.

Lemma md_set_keys_nodup k v m : NoDup (map fst m) -> NoDup (map fst (md_set k v m)).
Proof.
  induction m as [|[a b] r IH]; cbn [md_set map fst]; intros Hn.
  - constructor; [intros []|constructor].
  - inversion Hn as [|a' r' Hni Hr]; subst. destruct (str_eqb k a) eqn:E; cbn [map fst].
    + constructor; assumption.
    + constructor; [|apply IH; exact Hr]. intros Hin. apply md_set_keys in Hin. destruct Hin as [H|H]; [|contradiction].
      subst a. rewrite b_str_eqb_refl in E. discriminate.
Qed.

Lemma md_set_vals k v m x : In x (map snd (md_set k v m)) -> x = v \/ In x (map snd m).
Proof.
  induction m as [|[a b] r IH]; cbn [md_set map snd In].
  - intros [H|[]]; auto.
  - destruct (str_eqb k a); cbn [map snd In].
    + intros [H|H]; auto.
    + intros [H|H]; auto. destruct (IH H); auto.
Qed.

Lemma md_set_vals_nodup k v m : NoDup (map snd m) -> ~ In v (map snd m) -> NoDup (map snd (md_set k v m)).
Proof.
  induction m as [|[a b] r IH]; cbn [md_set map snd]; intros Hn Hv.
  - constructor; [intros []|constructor].
  - inversion Hn as [|b' r' Hni Hr]; subst. destruct (str_eqb k a); cbn [map snd].
    + constructor; [|exact Hr]. intros H. apply Hv. right. exact H.
    + constructor; [|apply IH; [exact Hr | intros H; apply Hv; right; exact H]].
      intros H. apply md_set_vals in H. destruct H as [H|H]; [|contradiction]. apply Hv. left. congruence.
Qed.

(* the value under k after the assignment is v; other keys keep theirs *)
Fixpoint md_lookup (k : str) (m : list (str * str)) : option str :=
  match m with
  | [] => None
  | (a, b) :: r => if str_eqb k a then Some b else md_lookup k r
  end.

Lemma md_lookup_set k v m d : md_lookup d (md_set k v m) = if str_eqb d k then Some v else md_lookup d m.
Proof.
  induction m as [|[a b] r IH]; cbn [md_set md_lookup].
  - destruct (str_eqb d k); reflexivity.
  - destruct (str_eqb k a) eqn:E; cbn [md_lookup].
    + apply b_str_eqb_eq in E. subst a. destruct (str_eqb d k); reflexivity.
    + destruct (str_eqb d a) eqn:E1.
      * apply b_str_eqb_eq in E1. subst a. rewrite md_eqb_sym, E. reflexivity.
      * exact IH.
Qed.

Lemma md_lookup_in m : NoDup (map fst m) -> forall d t, In (d, t) m <-> md_lookup d m = Some t.
Proof.
  induction m as [|[a b] r IH]; cbn [map fst md_lookup In]; intros Hn d t.
  - split; [intros []|discriminate].
  - inversion Hn as [|a' r' Hni Hr]; subst. destruct (str_eqb d a) eqn:E.
    + apply b_str_eqb_eq in E. subst a. split.
      * intros [H|H]; [congruence|]. exfalso. apply Hni. apply (in_map fst) in H. exact H.
      * intros H. left. congruence.
    + apply md_eqb_neq in E. rewrite <- (IH Hr). split; [intros [H|H]; [congruence|exact H] | auto].
Qed.

Definition md_dict_from (m : list (str * str)) (l : list (str * str)) : list (str * str) :=
  fold_left (fun m kv => md_set (fst kv) (snd kv) m) l m.

Lemma md_dict_from_in l : forall m d t, In (d, t) (md_dict_from m l) -> In (d, t) m \/ In (d, t) l.
Proof.
  induction l as [|[k v] r IH]; intros m d t H; cbn [md_dict_from fold_left fst snd] in H; [left; exact H|].
  apply IH in H. destruct H as [H|H]; [|right; right; exact H].
  apply md_set_in in H. destruct H as [H|H]; [left; exact H | right; left; congruence].
Qed.

Lemma md_dict_from_keys l : forall m d, In d (map fst (md_dict_from m l)) <-> In d (map fst m) \/ In d (map fst l).
Proof.
  induction l as [|[k v] r IH]; intros m d; cbn [md_dict_from fold_left fst snd map In]; [tauto|].
  fold (md_dict_from (md_set k v m) r). rewrite IH, md_set_keys. split; [intros [[H|H]|H]; auto | intros [H|[H|H]]; auto].
Qed.

Lemma md_dict_from_keys_nodup l : forall m, NoDup (map fst m) -> NoDup (map fst (md_dict_from m l)).
Proof.
  induction l as [|[k v] r IH]; intros m Hn; cbn [md_dict_from fold_left fst snd]; [exact Hn|].
  apply IH, md_set_keys_nodup, Hn.
Qed.

Lemma md_nodup_app_iff {A : Type} (a b : list A) :
  NoDup (a ++ b) <-> NoDup a /\ NoDup b /\ (forall x, In x a -> ~ In x b).
Proof.
  induction a as [|x a IH]; cbn [app].
  - split; [intros H; split; [constructor | split; [exact H | intros x []]] | intros [_ [H _]]; exact H].
  - split.
    + intros H. inversion H as [|x' l' Hni Hn]; subst. apply IH in Hn. destruct Hn as [Ha [Hb Hd]].
      split; [constructor; [intros Hin; apply Hni, in_or_app; left; exact Hin | exact Ha]|].
      split; [exact Hb|]. intros y [<-|Hy]; [intros Hin; apply Hni, in_or_app; right; exact Hin | apply Hd; exact Hy].
    + intros [Ha [Hb Hd]]. inversion Ha as [|x' l' Hni Hn]; subst. constructor.
      * intros Hin. apply in_app_or in Hin. destruct Hin as [Hin|Hin]; [contradiction|]. apply (Hd x); [left; reflexivity|exact Hin].
      * apply IH. split; [exact Hn|]. split; [exact Hb|]. intros y Hy. apply Hd. right. exact Hy.
Qed.

Lemma md_dict_from_vals_nodup l : forall m,
  NoDup (map snd m ++ map snd l) -> NoDup (map snd (md_dict_from m l)).
Proof.
  induction l as [|[k v] r IH]; intros m Hn; cbn [md_dict_from fold_left fst snd map] in *.
  - rewrite app_nil_r in Hn. exact Hn.
  - apply IH. apply md_nodup_app_iff in Hn. destruct Hn as [Hm [Hvr Hd]].
    inversion Hvr as [|v' r' Hvni Hr]; subst.
    assert (Hvm : ~ In v (map snd m)) by (intros H; apply (Hd v H); left; reflexivity).
    apply md_nodup_app_iff. split; [apply md_set_vals_nodup; assumption|]. split; [exact Hr|].
    intros x Hx Hxr. apply md_set_vals in Hx. destruct Hx as [->|Hx]; [contradiction|].
    apply (Hd x Hx). right. exact Hxr.
Qed.

Lemma md_lookup_app d a : forall b,
  md_lookup d (a ++ b) = match md_lookup d a with Some v => Some v | None => md_lookup d b end.
Proof.
  induction a as [|[k v] a IH]; intros b; cbn [app md_lookup]; [reflexivity|].
  destruct (str_eqb d k); [reflexivity | apply IH].
Qed.

(* the entry of a key holds the value of its LAST assignment *)
Lemma md_dict_from_lookup d l : forall m,
  md_lookup d (md_dict_from m l)
  = match md_lookup d (rev l) with Some v => Some v | None => md_lookup d m end.
Proof.
  induction l as [|[k v] r IH]; intros m; cbn [md_dict_from fold_left fst snd rev]; [reflexivity|].
  fold (md_dict_from (md_set k v m) r). rewrite IH, md_lookup_app, md_lookup_set. cbn [md_lookup].
  destruct (md_lookup d (rev r)); [reflexivity|]. destruct (str_eqb d k); reflexivity.
Qed.

Lemma md_set_fresh k v m : ~ In k (map fst m) -> md_set k v m = m ++ [(k, v)].
Proof.
  induction m as [|[a b] r IH]; cbn [md_set map fst In app]; intros Hni; [reflexivity|].
  destruct (str_eqb k a) eqn:E.
  - apply b_str_eqb_eq in E. subst a. exfalso. apply Hni. left. reflexivity.
  - rewrite IH; [reflexivity|]. intros H. apply Hni. right. exact H.
Qed.

Lemma md_dict_from_nodup l : forall m, NoDup (map fst (m ++ l)) -> md_dict_from m l = m ++ l.
Proof.
  induction l as [|[k v] r IH]; intros m Hn; cbn [md_dict_from fold_left fst snd].
  - symmetry. apply app_nil_r.
  - fold (md_dict_from (md_set k v m) r).
    assert (Hk : ~ In k (map fst m)).
    { rewrite map_app in Hn. apply md_nodup_app_iff in Hn. destruct Hn as [_ [_ Hd]].
      intros H. apply (Hd k H). left. reflexivity. }
    rewrite (md_set_fresh k v m Hk). rewrite IH; rewrite <- app_assoc; [reflexivity | exact Hn].
Qed.

(* the dict of the matched occurrences *)
Lemma md_dict_in l d t : In (d, t) (md_dict l) -> In (d, t) l.
Proof. intros H. apply (md_dict_from_in l [] d t) in H. destruct H as [[]|H]. exact H. Qed.

Lemma md_dict_keys l d : In d (map fst (md_dict l)) <-> In d (map fst l).
Proof. unfold md_dict. fold (md_dict_from [] l). rewrite md_dict_from_keys. cbn [map In]. tauto. Qed.

Lemma md_dict_keys_nodup l : NoDup (map fst (md_dict l)).
Proof. apply (md_dict_from_keys_nodup l []). constructor. Qed.

Lemma md_dict_vals_nodup l : NoDup (map snd l) -> NoDup (map snd (md_dict l)).
Proof. intros H. apply (md_dict_from_vals_nodup l []). exact H. Qed.

Lemma md_dict_last l d t : In (d, t) (md_dict l) <-> md_lookup d (rev l) = Some t.
Proof.
  rewrite (md_lookup_in (md_dict l) (md_dict_keys_nodup l)).
  unfold md_dict. fold (md_dict_from [] l). rewrite md_dict_from_lookup. cbn [md_lookup].
  destruct (md_lookup d (rev l)); split; congruence.
Qed.

Lemma md_dict_nodup l : NoDup (map fst l) -> md_dict l = l.
Proof. intros H. apply (md_dict_from_nodup l []). exact H. Qed.

Lemma md_matched_in st d t : In (d, t) (md_matched st) <-> In (d, Some t) st.
Proof.
  induction st as [|[d0 [t0|]] st IH].
  - split; intros [].
  - rewrite md_matched_some. cbn [In]. rewrite IH. split; (intros [H|H]; [left; congruence | right; exact H]).
  - rewrite md_matched_none. cbn [In]. rewrite IH. split; [intros H; right; exact H | intros [H|H]; [discriminate | exact H]].
Qed.

Lemma md_matched_keys_nodup st : NoDup (map fst st) -> NoDup (map fst (md_matched st)).
Proof.
  induction st as [|[d0 [t0|]] st IH]; cbn [map fst]; intros Hn.
  - constructor.
  - inversion Hn as [|d' r' Hni Hr]; subst. rewrite md_matched_some. cbn [map fst]. constructor; [|apply IH; exact Hr].
    intros Hin. apply Hni. apply in_map_iff in Hin. destruct Hin as [[d t] [E Hin]]. cbn [fst] in E. subst d.
    apply md_matched_in in Hin. apply (in_map fst) in Hin. exact Hin.
  - inversion Hn; subst. rewrite md_matched_none. apply IH. assumption.
Qed.

(* ================================================================ match_decoy *)
Lemma md_avail_residue_sort key k sh :
  md_avail k (md_residue_sort key sh) = rev (filter (fun p => str_eqb k (key p)) sh).
Proof. unfold md_residue_sort. rewrite md_avail_residue. cbn [md_avail]. apply app_nil_r. Qed.

Lemma md_content_residue_sort key sh : Permutation (md_content (md_residue_sort key sh)) sh.
Proof.
  unfold md_residue_sort. eapply perm_trans; [apply md_content_residue|].
  unfold md_content. cbn [map concat]. rewrite app_nil_r. apply Permutation_refl.
Qed.

Lemma md_steps_inv im perm ds ts st :
  md_steps im perm ds ts = Ok st ->
  exists sh, Permutation perm (seq 0 (length ts)) /\ Permutation sh ts /\
             st = md_loop (md_residue_sort (md_tkey im) sh) ds.
Proof.
  unfold md_steps. destruct (md_shuffle perm (md_sort_strs ts)) as [sh|e] eqn:Es; [|discriminate].
  intros H. inversion H; subst. apply md_shuffle_inv in Es. destruct Es as [Hp Hsh].
  rewrite (Permutation_length (md_sort_strs_perm ts)) in Hp.
  exists sh. split; [exact Hp|]. split; [|reflexivity].
  eapply perm_trans; [exact Hsh | apply md_sort_strs_perm].
Qed.

Lemma md_match_inv im perm ds ts m :
  md_match im perm ds ts = Ok m -> exists st, md_steps im perm ds ts = Ok st /\ m = md_dict (md_matched st).
Proof.
  unfold md_match. destruct (md_steps im perm ds ts) as [st|e]; [|discriminate].
  intros H. inversion H. exists st. split; reflexivity.
Qed.

(* ---------- the oracle contract is exactly what makes the call succeed ---------- *)
Theorem md_steps_total im perm ds ts :
  Permutation perm (seq 0 (length ts)) <-> exists st, md_steps im perm ds ts = Ok st.
Proof.
  split.
  - intros HP. unfold md_steps.
    destruct (md_shuffle_ok perm (md_sort_strs ts)) as [sh Hsh].
    + rewrite (Permutation_length (md_sort_strs_perm ts)). exact HP.
    + rewrite Hsh. eexists; reflexivity.
  - intros [st Hst]. apply md_steps_inv in Hst. destruct Hst as [sh [HP _]]. exact HP.
Qed.

Theorem md_match_total im perm ds ts :
  Permutation perm (seq 0 (length ts)) <-> exists m, md_match im perm ds ts = Ok m.
Proof.
  rewrite (md_steps_total im perm ds ts). unfold md_match. split.
  - intros [st Hst]. rewrite Hst. eexists; reflexivity.
  - intros [m Hm]. destruct (md_steps im perm ds ts) as [st|e]; [eexists; reflexivity | discriminate].
Qed.

Theorem md_match_err im perm ds ts e :
  md_match im perm ds ts = Err e -> e = EValue /\ ~ Permutation perm (seq 0 (length ts)).
Proof.
  unfold md_match, md_steps. destruct (md_shuffle perm (md_sort_strs ts)) as [sh|e'] eqn:Es; [discriminate|].
  intros H. inversion H; subst. apply md_shuffle_err in Es.
  rewrite (Permutation_length (md_sort_strs_perm ts)) in Es. exact Es.
Qed.

(* ---------- (a) composition ---------- *)
Theorem md_steps_composition im perm ds ts st :
  md_steps im perm ds ts = Ok st ->
  forall d t, In (d, Some t) st -> In d ds /\ In t ts /\ md_dkey d = md_tkey im t.
Proof.
  intros Hst d t Hin. apply md_steps_inv in Hst. destruct Hst as [sh [_ [Hsh ->]]].
  destruct (md_loop_sound (fun k t => k = md_tkey im t /\ In t ts) ds (md_residue_sort (md_tkey im) sh)) with (d := d) (t := t)
    as [[Hk Ht] Hd]; [|exact Hin|tauto].
  intros k t1 Ht1. rewrite md_avail_residue_sort in Ht1. apply in_rev in Ht1. apply filter_In in Ht1.
  destruct Ht1 as [Hin1 E]. apply b_str_eqb_eq in E. split; [exact E|].
  eapply Permutation_in; eassumption.
Qed.

Theorem md_match_composition im perm ds ts m :
  md_match im perm ds ts = Ok m ->
  forall d t, In (d, t) m -> In d ds /\ In t ts /\ md_dkey d = md_tkey im t.
Proof.
  intros Hm d t Hin. apply md_match_inv in Hm. destruct Hm as [st [Hst ->]].
  apply md_dict_in, md_matched_in in Hin. eapply md_steps_composition; eassumption.
Qed.

(* for peptides written in upper-case letters "same composition" is "anagram" *)
Theorem md_match_anagram perm ds ts m :
  md_match true perm ds ts = Ok m ->
  forall d t, In (d, t) m -> Forall (fun c => md_is_upper c = true) d -> Permutation d t.
Proof.
  intros Hm d t Hin Hu. destruct (md_match_composition _ _ _ _ _ Hm d t Hin) as [_ [_ Hk]].
  unfold md_dkey, md_tkey in Hk. rewrite (md_key_mods_upper d Hu) in Hk. apply md_key_plain_anagram. exact Hk.
Qed.

(* ---------- (b) injectivity on occurrences ---------- *)
Theorem md_steps_injective im perm ds ts st :
  md_steps im perm ds ts = Ok st ->
  exists rest, Permutation (map snd (md_matched st) ++ rest) ts.
Proof.
  intros Hst. apply md_steps_inv in Hst. destruct Hst as [sh [_ [Hsh ->]]].
  destruct (md_loop_content ds (md_residue_sort (md_tkey im) sh)) as [rest Hrest]. exists rest.
  eapply perm_trans; [exact Hrest|]. eapply perm_trans; [apply md_content_residue_sort | exact Hsh].
Qed.

Theorem md_steps_injective_nodup im perm ds ts st :
  md_steps im perm ds ts = Ok st -> NoDup ts -> NoDup (map snd (md_matched st)).
Proof.
  intros Hst Hn. destruct (md_steps_injective _ _ _ _ _ Hst) as [rest HP].
  apply Permutation_sym in HP. apply (Permutation_NoDup HP) in Hn. apply md_nodup_app_iff in Hn. tauto.
Qed.

Theorem md_match_injective im perm ds ts m :
  md_match im perm ds ts = Ok m -> NoDup ts -> NoDup (map fst m) /\ NoDup (map snd m).
Proof.
  intros Hm Hn. apply md_match_inv in Hm. destruct Hm as [st [Hst ->]]. split.
  - apply md_dict_keys_nodup.
  - apply md_dict_vals_nodup. eapply md_steps_injective_nodup; eassumption.
Qed.

(* ---------- (c) exhaustion ---------- *)
Theorem md_steps_exhausts im perm ds ts st :
  md_steps im perm ds ts = Ok st ->
  map fst st = ds /\
  forall i d o, nth_error st i = Some (d, o) ->
    (o = None <-> (md_count (md_tkey im) (md_dkey d) ts <= md_count md_dkey (md_dkey d) (firstn i ds))%nat).
Proof.
  intros Hst. apply md_steps_inv in Hst. destruct Hst as [sh [_ [Hsh ->]]]. split; [apply md_loop_fst|].
  intros i d o Hn. rewrite (md_loop_nth _ _ _ _ _ Hn). rewrite md_avail_residue_sort, rev_length.
  fold (md_count (md_tkey im) (md_dkey d) sh). rewrite (md_count_perm _ _ _ _ Hsh). tauto.
Qed.

Theorem md_steps_count im perm ds ts st :
  md_steps im perm ds ts = Ok st ->
  forall k, md_count md_dkey k (map fst (md_matched st))
            = Nat.min (md_count md_dkey k ds) (md_count (md_tkey im) k ts).
Proof.
  intros Hst k. apply md_steps_inv in Hst. destruct Hst as [sh [_ [Hsh ->]]].
  rewrite md_loop_count, md_avail_residue_sort, rev_length.
  fold (md_count (md_tkey im) k sh). rewrite (md_count_perm _ _ _ _ Hsh). reflexivity.
Qed.

(* ---------- the returned dict against the occurrences ---------- *)
Theorem md_match_dict im perm ds ts m st :
  md_match im perm ds ts = Ok m -> md_steps im perm ds ts = Ok st ->
  NoDup (map fst m) /\
  (forall d, In d (map fst m) <-> exists t, In (d, Some t) st) /\
  (forall d t, In (d, t) m <-> md_lookup d (rev (md_matched st)) = Some t) /\
  (NoDup ds -> m = md_matched st).
Proof.
  intros Hm Hst. apply md_match_inv in Hm. destruct Hm as [st' [Hst' ->]].
  assert (st' = st) by congruence. subst st'.
  split; [apply md_dict_keys_nodup|]. split; [|split].
  - intros d. rewrite md_dict_keys. split.
    + intros Hin. apply in_map_iff in Hin. destruct Hin as [[d' t] [E Hin]]. cbn [fst] in E. subst d'.
      exists t. apply md_matched_in. exact Hin.
    + intros [t Hin]. apply md_matched_in in Hin. apply (in_map fst) in Hin. exact Hin.
  - intros d t. apply md_dict_last.
  - intros Hn. apply md_dict_nodup. apply md_matched_keys_nodup.
    destruct (md_steps_exhausts _ _ _ _ _ Hst) as [Hf _]. rewrite Hf. exact Hn.
Qed.

(* ---------- (d) the order the targets arrive in does not matter ---------- *)
Theorem md_match_order_independent im perm ds ts1 ts2 :
  Permutation ts1 ts2 -> md_match im perm ds ts1 = md_match im perm ds ts2.
Proof.
  intros HP. unfold md_match, md_steps. rewrite (md_sort_strs_perm_eq ts1 ts2 HP). reflexivity.
Qed.

Theorem md_steps_order_independent im perm ds ts1 ts2 :
  Permutation ts1 ts2 -> md_steps im perm ds ts1 = md_steps im perm ds ts2.
Proof.
  intros HP. unfold md_steps. rewrite (md_sort_strs_perm_eq ts1 ts2 HP). reflexivity.
Qed.

(* match_decoy as it was before /repo 9b4fbd9: the shuffle starts from the order the targets arrive in *)
Definition md_match_unsorted (im : bool) (perm : list nat) (ds ts : list str) : result (list (str * str)) :=
  match md_shuffle perm ts with
  | Err e => Err e
  | Ok sh => Ok (md_dict (md_matched (md_loop (md_residue_sort (md_tkey im) sh) ds)))
  end.

(* ... then two anagram targets handed over in the other order give another answer under the same shuffle *)
Lemma md_match_unsorted_refuted :
  exists im perm ds ts1 ts2,
    Permutation ts1 ts2 /\ NoDup ts1 /\ Permutation perm (seq 0 (length ts1)) /\
    md_match_unsorted im perm ds ts1 <> md_match_unsorted im perm ds ts2.
Proof.
  exists true, [1; 0]%nat, [[66; 65]], [[65; 66]; [66; 65]], [[66; 65]; [65; 66]].
  split; [apply perm_swap|]. split.
  - constructor; [intros [H|[]]; discriminate|]. constructor; [intros []|constructor].
  - split; [apply perm_swap|]. vm_compute. discriminate.
Qed.
