(* Proofs about Model/Calibrate.v (C11). *)
From Coq Require Import Lia Qfield Lqa.
From Mokaverif Require Import Model.Base Model.Tdc Model.Calibrate Proofs.TdcP.
Open Scope Z_scope.

Lemma cal_min_le x l : cal_min x l <= x /\ forall y, In y l -> cal_min x l <= y.
Proof.
  revert x. induction l as [|z l IH]; intros x; simpl; [split; [lia|intros y []]|].
  destruct (IH (Z.min x z)) as [H1 H2]. split; [lia|].
  intros y [<-|Hy]; [lia|apply H2; exact Hy].
Qed.

Lemma cal_min_in x l : In (cal_min x l) (x :: l).
Proof.
  revert x. induction l as [|z l IH]; intros x; simpl; [left; reflexivity|].
  destruct (IH (Z.min x z)) as [H|H].
  - rewrite <- H. destruct (Z.min_spec x z) as [[_ E]|[_ E]]; rewrite E; [left|right; left]; reflexivity.
  - right. right. exact H.
Qed.

Lemma cal_select_in {A} (keep : list bool) (l : list A) (d : A) s :
  In s (cal_select keep l) <->
  exists i, (i < length keep)%nat /\ (i < length l)%nat /\ nth i keep false = true /\ nth i l d = s.
Proof.
  unfold cal_select. revert l. induction keep as [|k keep IH]; intros [|x l]; simpl.
  - split; [intros []|intros (i & H & _); lia].
  - split; [intros []|intros (i & H & _); lia].
  - split; [intros []|intros (i & _ & H & _); lia].
  - destruct k; simpl.
    + rewrite IH. split.
      * intros [<-|(i & H1 & H2 & H3 & H4)]; [exists 0%nat; repeat split; lia|].
        exists (S i). repeat split; try lia; assumption.
      * intros ([|i] & H1 & H2 & H3 & H4); [left; exact H4|]. right. exists i. repeat split; try lia; assumption.
    + rewrite IH. split.
      * intros (i & H1 & H2 & H3 & H4). exists (S i). repeat split; try lia; assumption.
      * intros ([|i] & H1 & H2 & H3 & H4); [discriminate|]. exists i. repeat split; try lia; assumption.
Qed.

(* what calibrate returns *)
Theorem calibrate_spec scores targets thr ys :
  calibrate scores targets thr = Ok ys ->
  exists labels t d,
    update_labels true scores targets thr = Ok labels /\
    (exists i, (i < length scores)%nat /\ nth i labels 0 = 1 /\ nth i scores 0 = t) /\
    (forall i, (i < length scores)%nat -> nth i labels 0 = 1 -> t <= nth i scores 0) /\
    cal_median (cal_select (map (fun l => l =? -1) labels) scores) = Some d /\
    ~ (inject_Z t == d)%Q /\
    ys = map (fun s => ((inject_Z s - inject_Z t) / (inject_Z t - d))%Q) scores.
Proof.
  unfold calibrate. destruct (update_labels true scores targets thr) as [labels|e] eqn:EL; [|discriminate].
  destruct (update_labels_spec _ _ _ _ _ EL) as [HLlen _].
  destruct (cal_select (map (fun l => l =? 1) labels) scores) as [|p ps] eqn:EP; [discriminate|].
  destruct (cal_median _) as [d|] eqn:EM; [|discriminate].
  destruct (Qeq_bool (inject_Z (cal_min p ps)) d) eqn:EQ; [discriminate|].
  intros H. injection H as <-.
  exists labels, (cal_min p ps), d. split; [reflexivity|].
  assert (forall s, In s (p :: ps) <->
            exists i, (i < length scores)%nat /\ nth i labels 0 = 1 /\ nth i scores 0 = s) as Hsel.
  { intros s. rewrite <- EP. rewrite (cal_select_in _ _ 0). rewrite map_length, HLlen. split.
    - intros (i & H1 & H2 & H3 & H4). exists i. split; [exact H2|]. split; [|exact H4].
      rewrite (nth_indep _ false ((fun l => l =? 1) 0)) in H3 by (rewrite map_length; lia).
      rewrite (map_nth (fun l => l =? 1)) in H3. apply Z.eqb_eq in H3. exact H3.
    - intros (i & H1 & H2 & H3). exists i. split; [lia|]. split; [lia|]. split; [|exact H3].
      rewrite (nth_indep _ false ((fun l => l =? 1) 0)) by (rewrite map_length; lia).
      rewrite (map_nth (fun l => l =? 1)). apply Z.eqb_eq. exact H2. }
  split; [apply Hsel; apply cal_min_in|]. split.
  - intros i Hi Hl. assert (In (nth i scores 0) (p :: ps)) as Hin by (apply Hsel; exists i; auto).
    destruct (cal_min_le p ps) as [H1 H2]. destruct Hin as [<-|Hin]; [exact H1|apply H2; exact Hin].
  - split; [exact EM|]. split; [|reflexivity].
    intros E. apply Qeq_bool_iff in E. congruence.
Qed.

(* the calibration map *)
Definition cal_map (t d x : Q) : Q := ((x - t) / (t - d))%Q.

Lemma cal_map_affine t d x : ~ (t == d)%Q -> (cal_map t d x == (1 / (t - d)) * x + (- t / (t - d)))%Q.
Proof. intros H. unfold cal_map. field. intros E. apply H. lra. Qed.

Lemma cal_map_anchors t d : ~ (t == d)%Q -> (cal_map t d t == 0)%Q /\ (cal_map t d d == -1)%Q.
Proof. intros H. unfold cal_map. split; field; intros E; apply H; lra. Qed.

Lemma cal_map_strict t d x y : (d < t)%Q -> ((x < y)%Q <-> (cal_map t d x < cal_map t d y)%Q).
Proof.
  intros H. unfold cal_map.
  assert (0 < t - d)%Q as Hp by lra.
  assert (0 < / (t - d))%Q as Hi by (apply Qinv_lt_0_compat; exact Hp).
  unfold Qdiv. split; intros Hxy.
  - apply Qmult_lt_compat_r; [exact Hi|lra].
  - apply Qmult_lt_r in Hxy; [lra|exact Hi].
Qed.

Lemma calibrate_error scores targets thr labels :
  update_labels true scores targets thr = Ok labels ->
  (forall i, (i < length scores)%nat -> nth i labels 0 <> 1) ->
  calibrate scores targets thr = Err ERuntime.
Proof.
  intros EL Hno. unfold calibrate. rewrite EL.
  destruct (update_labels_spec _ _ _ _ _ EL) as [HLlen _].
  destruct (cal_select (map (fun l => l =? 1) labels) scores) as [|p ps] eqn:EP; [reflexivity|exfalso].
  assert (In p (cal_select (map (fun l => l =? 1) labels) scores)) as Hin by (rewrite EP; left; reflexivity).
  apply (cal_select_in _ _ 0) in Hin. destruct Hin as (i & H1 & H2 & H3 & _).
  rewrite map_length in H1.
  rewrite (nth_indep _ false ((fun l => l =? 1) 0)) in H3 by (rewrite map_length; lia).
  rewrite (map_nth (fun l => l =? 1)) in H3. apply Z.eqb_eq in H3. apply (Hno i H2 H3).
Qed.
