(* Proofs about Model/Decoys.v (C18). *)
From Coq Require Import Lia Permutation.
From Mokaverif Require Import Model.Base Model.Fasta Model.Decoys Proofs.FastaP.
Local Open Scope nat_scope.

(* ====================================================================== *)
(* Specification-level definitions (independent of the shuffling algorithm) *)
(* ====================================================================== *)

(* contract of the permutation oracle: the j-th value drawn for arange(k) is a permutation of 0..k-1 *)
Definition dc_perm_contract (draw : nat -> nat -> list nat) : Prop :=
  forall j k, Permutation (draw j k) (seq 0 k).

(* a -> s1 -> ... -> n never decreases *)
Fixpoint dc_chain (a : nat) (ss : list nat) (n : nat) : Prop :=
  match ss with
  | [] => a = n
  | b :: r => a <= b /\ dc_chain b r n
  end.

(* contract of the cleavage-site list of a sequence: starts with 0, ends with len, never decreases *)
Definition dc_sites_ok (ss : list nat) (s : str) : Prop :=
  exists r, ss = 0 :: r /\ dc_chain 0 r (length s).

(* x, y are neighbours in the site list: s[x:y] is an enzymatic peptide *)
Definition dc_consecutive (ss : list nat) (x y : nat) : Prop :=
  exists l1 l2, ss = l1 ++ x :: y :: l2.

(* q is a decoy of the peptide p: same first and last residue, interior permuted (reversed) *)
Definition dc_pep_decoy (rv : bool) (p q : str) : Prop :=
  (length p <= 1 /\ q = p) \/
  exists x mid mid' z, p = x :: mid ++ [z] /\ q = x :: mid' ++ [z] /\
                       Permutation mid' mid /\ (rv = true -> mid' = rev mid).

(* d is a decoy of the protein t with cleavage sites ss *)
Definition dc_decoy_spec (rv : bool) (ss : list nat) (t d : str) : Prop :=
  length d = length t /\
  forall x y, dc_consecutive ss x y -> dc_pep_decoy rv (pyslice t x y) (pyslice d x y).

(* the enzymatic peptides of t, given the sites after a *)
Fixpoint dc_cut (a : nat) (ss : list nat) (t : str) : list str :=
  match ss with
  | [] => []
  | b :: r => firstn (b - a) t :: dc_cut b r (skipn (b - a) t)
  end.

(* structural form: the decoy is the concatenation of peptide-wise decoys of the target's peptides *)
Definition dc_decoy_struct (rv : bool) (ss : list nat) (t d : str) : Prop :=
  exists r qs, ss = 0 :: r /\ Forall2 (dc_pep_decoy rv) (dc_cut 0 r t) qs /\ d = concat qs.

(* ====================================================================== *)
(* List helpers *)
(* ====================================================================== *)
Lemma dc_firstn_app_len {A} (l1 l2 : list A) : firstn (length l1) (l1 ++ l2) = l1.
Proof. induction l1 as [|x l1 IH]; cbn; [destruct l2; reflexivity | rewrite IH; reflexivity]. Qed.

Lemma dc_skipn_app_len {A} (l1 l2 : list A) : skipn (length l1) (l1 ++ l2) = l2.
Proof. induction l1 as [|x l1 IH]; cbn; [reflexivity | exact IH]. Qed.

Lemma dc_split_ends {A} (p : list A) : 2 <= length p -> exists x mid z, p = x :: mid ++ [z].
Proof.
  destruct p as [|x p]; cbn; [lia|]. intros H.
  destruct (exists_last (l := p)) as (mid & z & ->); [destruct p; cbn in *; [lia | discriminate]|].
  exists x, mid, z. reflexivity.
Qed.

Lemma dc_nth_error_firstn {A} (l : list A) : forall n i, i < n -> nth_error (firstn n l) i = nth_error l i.
Proof.
  induction l as [|x l IH]; intros n i H.
  - rewrite firstn_nil. reflexivity.
  - destruct n as [|n]; [lia|]. destruct i as [|i]; [reflexivity|]. cbn. apply IH. lia.
Qed.

Lemma dc_nth_error_skipn {A} (l : list A) : forall x i, nth_error (skipn x l) i = nth_error l (x + i).
Proof.
  induction l as [|a l IH]; intros x i.
  - rewrite skipn_nil. destruct i, x; reflexivity.
  - destruct x as [|x]; [reflexivity|]. cbn. apply IH.
Qed.

Lemma dc_nth_error_pyslice {A} (l : list A) x y i :
  i < y - x -> nth_error (pyslice l x y) i = nth_error l (x + i).
Proof. intros H. unfold pyslice. rewrite dc_nth_error_firstn by exact H. apply dc_nth_error_skipn. Qed.

Lemma dc_skipn_S {A} (l : list A) : forall x, skipn (S x) l = tl (skipn x l).
Proof.
  induction l as [|a l IH]; intros x.
  - rewrite !skipn_nil. reflexivity.
  - destruct x as [|x]; [reflexivity|]. cbn [skipn]. rewrite <- IH. reflexivity.
Qed.

Lemma dc_pyslice_length {A} (l : list A) x y : y <= length l -> length (pyslice l x y) = y - x.
Proof. intros H. unfold pyslice. rewrite firstn_length, skipn_length. lia. Qed.

Lemma dc_pyslice_interior {A} (l : list A) x y a mid z :
  y <= length l -> pyslice l x y = a :: mid ++ [z] -> pyslice l (S x) (y - 1) = mid.
Proof.
  intros Hy H. pose proof (dc_pyslice_length l x y Hy) as HL. rewrite H in HL.
  cbn [length] in HL. rewrite app_length in HL. cbn [length] in HL.
  unfold pyslice in *. rewrite dc_skipn_S.
  rewrite <- (firstn_skipn (y - x) (skipn x l)), H.
  cbn [app tl]. rewrite <- app_assoc.
  replace (y - 1 - S x) with (length mid) by lia. apply dc_firstn_app_len.
Qed.

Lemma dc_map_nth_seq (mid : str) : map (fun i => nth i mid 0%Z) (seq 0 (length mid)) = mid.
Proof.
  induction mid as [|x m IH]; [reflexivity|].
  cbn [length seq map nth]. f_equal. rewrite <- seq_shift, map_map. exact IH.
Qed.

Lemma dc_perm_bound perm k : Permutation perm (seq 0 k) -> Forall (fun i => i < k) perm.
Proof.
  intros H. rewrite Forall_forall. intros i Hi.
  apply (Permutation_in _ H) in Hi. apply in_seq in Hi. lia.
Qed.

(* ====================================================================== *)
(* Chains, cuts *)
(* ====================================================================== *)
Lemma dc_chain_le ss : forall a n, dc_chain a ss n -> a <= n.
Proof.
  induction ss as [|b ss IH]; cbn; intros a n H; [lia|].
  destruct H as [H1 H2]. apply IH in H2. lia.
Qed.

Lemma dc_chain_weaken a a' ss n : a <= a' -> ss <> [] -> dc_chain a' ss n -> dc_chain a ss n.
Proof. destruct ss as [|b ss]; [congruence|]. cbn. intros H _ [H1 H2]. split; [lia|exact H2]. Qed.

(* split t at the next site *)
Lemma dc_cut_step a b ss (t : str) : a <= b -> dc_chain b ss (a + length t) ->
  exists p rest, t = p ++ rest /\ length p = b - a /\ b + length rest = a + length t
                 /\ dc_cut a (b :: ss) t = p :: dc_cut b ss rest.
Proof.
  intros Hab Hch. pose proof (dc_chain_le _ _ _ Hch) as Hb.
  exists (firstn (b - a) t), (skipn (b - a) t). split; [|split; [|split]].
  - symmetry. apply firstn_skipn.
  - rewrite firstn_length. lia.
  - rewrite skipn_length. lia.
  - reflexivity.
Qed.

Lemma dc_cut_concat ss : forall a (t : str), dc_chain a ss (a + length t) -> concat (dc_cut a ss t) = t.
Proof.
  induction ss as [|b ss IH]; intros a t H.
  - cbn in H. destruct t; [reflexivity | cbn in H; lia].
  - destruct H as [Hab Hch].
    destruct (dc_cut_step a b ss t Hab Hch) as (p & rest & -> & Hp & Hlen & ->).
    cbn [concat]. rewrite IH; [reflexivity|]. rewrite Hlen. exact Hch.
Qed.

Lemma dc_consecutive_cons a b ss x y :
  dc_consecutive (a :: b :: ss) x y -> (x = a /\ y = b) \/ dc_consecutive (b :: ss) x y.
Proof.
  intros (l1 & l2 & H). destruct l1 as [|c l1].
  - cbn in H. inversion H. left. split; reflexivity.
  - cbn in H. inversion H. right. exists l1, l2. assumption.
Qed.

Lemma dc_consecutive_single a x y : ~ dc_consecutive [a] x y.
Proof. intros (l1 & l2 & H). destruct l1 as [|c [|c' l1]]; discriminate. Qed.

Lemma dc_consecutive_bound ss : forall a n x y, dc_chain a ss n -> dc_consecutive (a :: ss) x y ->
  a <= x /\ x <= y /\ y <= n.
Proof.
  induction ss as [|b ss IH]; intros a n x y Hch Hc.
  - exfalso. exact (dc_consecutive_single _ _ _ Hc).
  - destruct Hch as [Hab Hch]. apply dc_consecutive_cons in Hc. destruct Hc as [[-> ->]|Hc].
    + pose proof (dc_chain_le _ _ _ Hch). lia.
    + destruct (IH b n x y Hch Hc) as (H1 & H2 & H3). lia.
Qed.

(* the slices between neighbouring sites are the pieces, on both sides of a piecewise relation *)
Lemma dc_cut_consecutive (R : str -> str -> Prop) :
  (forall p q, R p q -> length q = length p) ->
  forall ss a (t : str) qs pre pre' x y,
    length pre = a -> length pre' = a -> dc_chain a ss (a + length t) ->
    Forall2 R (dc_cut a ss t) qs -> dc_consecutive (a :: ss) x y ->
    R (pyslice (pre ++ t) x y) (pyslice (pre' ++ concat qs) x y).
Proof.
  intros HR. induction ss as [|b ss IH]; intros a t qs pre pre' x y Hpre Hpre' Hch HF Hc.
  - exfalso. exact (dc_consecutive_single _ _ _ Hc).
  - destruct Hch as [Hab Hch].
    destruct (dc_cut_step a b ss t Hab Hch) as (p & rest & -> & Hp & Hlen & Hcut).
    rewrite Hcut in HF. destruct qs as [|q qs']; [inversion HF|].
    assert (HRpq : R p q) by (inversion HF; assumption).
    assert (HF' : Forall2 R (dc_cut b ss rest) qs') by (inversion HF; assumption).
    pose proof (HR _ _ HRpq) as Hq.
    apply dc_consecutive_cons in Hc. destruct Hc as [[-> ->]|Hc].
    + subst a. unfold pyslice. rewrite dc_skipn_app_len.
      rewrite <- Hpre'. rewrite dc_skipn_app_len. rewrite Hpre'.
      rewrite <- Hp. rewrite dc_firstn_app_len. cbn [concat].
      rewrite <- Hq. rewrite dc_firstn_app_len. exact HRpq.
    + cbn [concat]. rewrite !app_assoc.
      apply IH with (a := b); try assumption.
      * rewrite app_length. lia.
      * rewrite app_length. lia.
      * rewrite Hlen. exact Hch.
Qed.

(* ====================================================================== *)
(* Peptide decoys *)
(* ====================================================================== *)
Lemma dc_pep_decoy_length rv p q : dc_pep_decoy rv p q -> length q = length p.
Proof.
  intros [[_ ->]|(x & mid & mid' & z & -> & -> & HP & _)]; [reflexivity|].
  cbn [length]. rewrite !app_length, (Permutation_length HP). reflexivity.
Qed.

Lemma dc_pep_decoy_perm rv p q : dc_pep_decoy rv p q -> Permutation q p.
Proof.
  intros [[_ ->]|(x & mid & mid' & z & -> & -> & HP & _)]; [apply Permutation_refl|].
  apply perm_skip. apply Permutation_app_tail. exact HP.
Qed.

Lemma dc_pep_decoy_small rv (p : str) : length p <= 3 -> dc_pep_decoy rv p p.
Proof.
  intros H. destruct p as [|x [|y [|z [|w p]]]]; cbn in H; try lia.
  - left. cbn. split; [lia|reflexivity].
  - left. cbn. split; [lia|reflexivity].
  - right. exists x, [], [], y. split; [reflexivity|]. split; [reflexivity|].
    split; [apply Permutation_refl | intros _; reflexivity].
  - right. exists x, [y], [y], z. split; [reflexivity|]. split; [reflexivity|].
    split; [apply Permutation_refl | intros _; reflexivity].
Qed.

Lemma dc_pep_decoy_ends rv p q : dc_pep_decoy rv p q ->
  nth_error q 0 = nth_error p 0 /\ nth_error q (length p - 1) = nth_error p (length p - 1).
Proof.
  intros [[_ ->]|(x & mid & mid' & z & -> & -> & HP & _)]; [split; reflexivity|].
  split; [reflexivity|].
  cbn [length]. rewrite app_length. cbn [length].
  replace (S (length mid + 1) - 1) with (S (length mid)) by lia. cbn [nth_error].
  pose proof (Permutation_length HP) as HL.
  rewrite !nth_error_app2 by lia. rewrite HL, Nat.sub_diag. reflexivity.
Qed.

(* ====================================================================== *)
(* The permutation cache *)
(* ====================================================================== *)
Definition dc_good (rv : bool) (k : nat) (p : list nat) : Prop :=
  Permutation p (seq 0 k) /\ (rv = true -> p = rev (seq 0 k)).
Definition dc_cache_ok (rv : bool) (cache : list (nat * list nat)) : Prop :=
  forall k p, dc_lookup k cache = Some p -> dc_good rv k p.

Section WithOracle.
  Variable draw : nat -> nat -> list nat.
  Hypothesis Hdraw : dc_perm_contract draw.
  Variable rv : bool.

  Lemma dc_retry_perm fuel : forall k perm j, Permutation perm (seq 0 k) ->
    Permutation (fst (dc_retry draw fuel k perm j)) (seq 0 k).
  Proof.
    induction fuel as [|f IH]; intros k perm j H; cbn [dc_retry]; [exact H|].
    destruct (dc_nats_eqb (seq 0 k) perm); [apply IH; apply Hdraw | exact H].
  Qed.

  Lemma dc_get_perm_ok st k p st' :
    dc_cache_ok rv (fst st) -> dc_get_perm draw rv st k = (p, st') ->
    dc_good rv k p /\ dc_cache_ok rv (fst st').
  Proof.
    destruct st as [cache j]. cbn [fst]. intros Hc H. unfold dc_get_perm in H.
    destruct (dc_lookup k cache) as [p0|] eqn:L.
    - inversion H; subst. split; [apply Hc; exact L | exact Hc].
    - assert (Hnew : forall p1 j1, dc_good rv k p1 -> (p1, ((k, p1) :: cache, j1)) = (p, st') ->
                dc_good rv k p /\ dc_cache_ok rv (fst st')).
      { intros p1 j1 Hg E. inversion E; subst. split; [exact Hg|]. cbn [fst].
        intros k0 p0 H0. cbn [dc_lookup] in H0. destruct (Nat.eqb k0 k) eqn:E0.
        - apply Nat.eqb_eq in E0. inversion H0; subst. exact Hg.
        - apply Hc. exact H0. }
      destruct rv eqn:Erv.
      + apply (Hnew _ _ (conj (Permutation_sym (Permutation_rev _)) (fun _ => eq_refl)) H).
      + destruct (dc_retry draw 100 k (seq 0 k) j) as [p1 j1] eqn:R.
        apply (Hnew p1 j1); [|exact H]. split; [|discriminate].
        pose proof (dc_retry_perm 100 k (seq 0 k) j (Permutation_refl _)) as HP.
        rewrite R in HP. exact HP.
  Qed.

  Lemma dc_gather_ok pre mid post perm : Forall (fun i => i < length mid) perm ->
    dc_gather (pre ++ mid ++ post) (length pre) perm = Ok (map (fun i => nth i mid 0%Z) perm).
  Proof.
    induction perm as [|i perm IH]; intros H; [reflexivity|].
    inversion H as [|? ? Hi Hr]; subst. cbn [dc_gather map].
    rewrite nth_error_app2 by lia. replace (i + length pre - length pre) with i by lia.
    rewrite nth_error_app1 by exact Hi. rewrite (nth_error_nth' _ 0%Z Hi).
    rewrite IH by exact Hr. reflexivity.
  Qed.

  Lemma dc_loop_cons st l a b r :
    dc_loop draw rv st l (a :: b :: r) =
    if b <=? a + 3 then dc_loop draw rv st l (b :: r)
    else let (p, st') := dc_get_perm draw rv st (b - 1 - S a) in
         bind (dc_gather l (S a) p) (fun mid =>
         dc_loop draw rv st' (firstn (S a) l ++ mid ++ skipn (b - 1) l) (b :: r)).
  Proof. reflexivity. Qed.

  (* the loop over the sites of one protein: the processed prefix is final, the rest is untouched *)
  Lemma dc_loop_spec : forall ss a pre rest st,
    length pre = a -> dc_chain a ss (a + length rest) -> dc_cache_ok rv (fst st) ->
    exists qs st', dc_loop draw rv st (pre ++ rest) (a :: ss) = Ok (pre ++ concat qs, st')
                   /\ Forall2 (dc_pep_decoy rv) (dc_cut a ss rest) qs /\ dc_cache_ok rv (fst st').
  Proof.
    induction ss as [|b ss IH]; intros a pre rest st Hpre Hch Hst.
    - cbn in Hch. assert (rest = []) by (destruct rest; [reflexivity | cbn in Hch; lia]). subst rest.
      exists [], st. split; [reflexivity|]. split; [constructor | exact Hst].
    - destruct Hch as [Hab Hch].
      destruct (dc_cut_step a b ss rest Hab Hch) as (p & rest' & -> & Hp & Hlen & Hcut).
      rewrite Hcut, dc_loop_cons.
      destruct (b <=? a + 3) eqn:E.
      + apply Nat.leb_le in E.
        destruct (IH b (pre ++ p) rest' st) as (qs & st' & Hrun & Hqs & Hst').
        * rewrite app_length. lia.
        * rewrite Hlen. exact Hch.
        * exact Hst.
        * exists (p :: qs), st'. split; [|split].
          -- rewrite app_assoc, Hrun. cbn [concat]. rewrite <- app_assoc. reflexivity.
          -- constructor; [apply dc_pep_decoy_small; lia | exact Hqs].
          -- exact Hst'.
      + apply Nat.leb_gt in E.
        destruct (dc_split_ends p) as (x & mid & z & ->); [lia|].
        assert (Hmid : length mid = b - 1 - S a).
        { cbn [length] in Hp. rewrite app_length in Hp. cbn [length] in Hp. lia. }
        destruct (dc_get_perm draw rv st (b - 1 - S a)) as [perm st1] eqn:G.
        destruct (dc_get_perm_ok _ _ _ _ Hst G) as [[Hperm Hrev] Hst1].
        rewrite <- Hmid in Hperm, Hrev.
        assert (Hl : pre ++ (x :: mid ++ [z]) ++ rest' = (pre ++ [x]) ++ mid ++ z :: rest').
        { cbn [app]. rewrite <- !app_assoc. reflexivity. }
        rewrite Hl.
        assert (HSa : S a = length (pre ++ [x])) by (rewrite app_length; cbn [length]; lia).
        rewrite HSa.
        rewrite dc_gather_ok by (apply dc_perm_bound; exact Hperm).
        cbn [bind]. rewrite dc_firstn_app_len.
        assert (Hsk : skipn (b - 1) ((pre ++ [x]) ++ mid ++ z :: rest') = z :: rest').
        { replace (b - 1) with (length ((pre ++ [x]) ++ mid)) by (rewrite !app_length; cbn [length]; lia).
          rewrite (app_assoc (pre ++ [x]) mid (z :: rest')). apply dc_skipn_app_len. }
        rewrite Hsk.
        set (mid' := map (fun i => nth i mid 0%Z) perm).
        assert (HPm : Permutation mid' mid).
        { unfold mid'. apply Permutation_trans with (map (fun i => nth i mid 0%Z) (seq 0 (length mid))).
          - apply Permutation_map. exact Hperm.
          - rewrite dc_map_nth_seq. apply Permutation_refl. }
        assert (Hl' : (pre ++ [x]) ++ mid' ++ z :: rest' = (pre ++ x :: mid' ++ [z]) ++ rest').
        { repeat (progress (cbn [app]) || rewrite <- app_assoc). reflexivity. }
        rewrite Hl'.
        destruct (IH b (pre ++ x :: mid' ++ [z]) rest' st1) as (qs & st' & Hrun & Hqs & Hst').
        * rewrite app_length. cbn [length]. rewrite app_length, (Permutation_length HPm). cbn [length]. lia.
        * rewrite Hlen. exact Hch.
        * exact Hst1.
        * exists ((x :: mid' ++ [z]) :: qs), st'. split; [|split].
          -- rewrite Hrun. cbn [concat]. rewrite <- app_assoc. reflexivity.
          -- constructor; [|exact Hqs]. right. exists x, mid, mid', z.
             split; [reflexivity|]. split; [reflexivity|]. split; [exact HPm|].
             intros Hr. unfold mid'. rewrite (Hrev Hr), map_rev, dc_map_nth_seq. reflexivity.
          -- exact Hst'.
  Qed.

  (* one protein *)
  Lemma dc_loop_protein st (t : str) ss :
    dc_sites_ok ss t -> dc_cache_ok rv (fst st) ->
    exists d st', dc_loop draw rv st t ss = Ok (d, st') /\ dc_decoy_struct rv ss t d
                  /\ dc_cache_ok rv (fst st').
  Proof.
    intros (r & -> & Hch) Hst.
    destruct (dc_loop_spec r 0 [] t st eq_refl Hch Hst) as (qs & st' & Hrun & Hqs & Hst').
    exists (concat qs), st'. split; [exact Hrun|]. split; [|exact Hst'].
    exists r, qs. repeat split. exact Hqs.
  Qed.

  (* all proteins *)
  Definition dc_decoy_of (prefix : str) (pr : str * str * list nat) (dc : str * str) : Prop :=
    fst dc = prefix ++ fst (fst pr) /\ dc_decoy_struct rv (snd pr) (snd (fst pr)) (snd dc).

  Lemma dc_shuffle_from_spec prefix : forall prots st,
    Forall (fun pr => dc_sites_ok (snd pr) (snd (fst pr))) prots -> dc_cache_ok rv (fst st) ->
    exists decoys, dc_shuffle_from draw rv st prefix prots = Ok decoys
                   /\ Forall2 (dc_decoy_of prefix) prots decoys.
  Proof.
    induction prots as [|[[n s] ss] prots IH]; intros st HF Hst.
    - exists []. split; [reflexivity|constructor].
    - inversion HF as [|? ? Hs HF']; subst. cbn [fst snd] in Hs.
      destruct (dc_loop_protein st s ss Hs Hst) as (d & st' & Hrun & Hd & Hst').
      destruct (IH st' HF' Hst') as (decoys & Hrest & Hdec).
      exists ((prefix ++ n, d) :: decoys). split.
      + cbn [dc_shuffle_from]. rewrite Hrun. cbn [bind snd fst]. rewrite Hrest. reflexivity.
      + constructor; [|exact Hdec]. split; [reflexivity|exact Hd].
  Qed.

  Theorem dc_shuffle_proteins_spec prefix prots :
    Forall (fun pr => dc_sites_ok (snd pr) (snd (fst pr))) prots ->
    exists decoys, dc_shuffle_proteins draw rv prefix prots = Ok decoys
                   /\ Forall2 (dc_decoy_of prefix) prots decoys.
  Proof.
    intros HF. apply dc_shuffle_from_spec; [exact HF|]. intros k p H. discriminate.
  Qed.
End WithOracle.

(* ====================================================================== *)
(* Consequences of the structural form *)
(* ====================================================================== *)
Lemma dc_struct_perm rv ss t d : dc_sites_ok ss t -> dc_decoy_struct rv ss t d -> Permutation d t.
Proof.
  intros (r & -> & Hch) (r' & qs & E & HF & ->). inversion E; subst r'.
  rewrite <- (dc_cut_concat r 0 t Hch).
  remember (dc_cut 0 r t) as ps0 eqn:Eps. clear Eps.
  induction HF as [|p q ps qs Hpq HF IH]; [apply Permutation_refl|].
  cbn [concat]. apply Permutation_app; [eapply dc_pep_decoy_perm; exact Hpq | exact IH].
Qed.

Lemma dc_struct_spec rv ss t d : dc_sites_ok ss t -> dc_decoy_struct rv ss t d -> dc_decoy_spec rv ss t d.
Proof.
  intros Hok Hs. split.
  - apply Permutation_length. eapply dc_struct_perm; eassumption.
  - destruct Hok as (r & -> & Hch). destruct Hs as (r' & qs & E & HF & ->). inversion E; subst r'.
    intros x y Hc.
    apply (dc_cut_consecutive (dc_pep_decoy rv) (dc_pep_decoy_length rv) r 0 t qs [] [] x y
             eq_refl eq_refl Hch HF Hc).
Qed.

(* index-level consequences of the declarative specification *)
Lemma dc_spec_termini rv ss t d x y :
  dc_sites_ok ss t -> dc_decoy_spec rv ss t d -> dc_consecutive ss x y -> x < y ->
  nth_error d x = nth_error t x /\ nth_error d (y - 1) = nth_error t (y - 1).
Proof.
  intros (r & -> & Hch) [Hlen Hsp] Hc Hxy.
  destruct (dc_consecutive_bound r 0 (length t) x y Hch Hc) as (_ & _ & Hy).
  destruct (dc_pep_decoy_ends _ _ _ (Hsp x y Hc)) as [H0 H1].
  rewrite (dc_pyslice_length t x y Hy) in H1.
  rewrite !dc_nth_error_pyslice in H0 by lia.
  rewrite !dc_nth_error_pyslice in H1 by lia.
  rewrite Nat.add_0_r in H0. replace (x + (y - x - 1)) with (y - 1) in H1 by lia.
  split; assumption.
Qed.

Lemma dc_spec_reverse ss t d x y :
  dc_sites_ok ss t -> dc_decoy_spec true ss t d -> dc_consecutive ss x y ->
  pyslice d (S x) (y - 1) = rev (pyslice t (S x) (y - 1)).
Proof.
  intros (r & -> & Hch) [Hlen Hsp] Hc.
  destruct (dc_consecutive_bound r 0 (length t) x y Hch Hc) as (_ & _ & Hy).
  destruct (Hsp x y Hc) as [[Hs Hq]|(a & mid & mid' & z & Hp & Hq & _ & Hr)].
  - rewrite (dc_pyslice_length t x y Hy) in Hs.
    unfold pyslice. replace (y - 1 - S x) with 0 by lia. reflexivity.
  - rewrite (dc_pyslice_interior t x y a mid z Hy Hp).
    rewrite (dc_pyslice_interior d x y a mid' z) by (try rewrite Hlen; assumption).
    apply Hr. reflexivity.
Qed.

Lemma dc_spec_peptide_perm rv ss t d x y :
  dc_decoy_spec rv ss t d -> dc_consecutive ss x y -> Permutation (pyslice d x y) (pyslice t x y).
Proof. intros [_ Hsp] Hc. eapply dc_pep_decoy_perm. apply Hsp. exact Hc. Qed.

(* ====================================================================== *)
(* Residue-class enzymes *)
(* ====================================================================== *)
Lemma dc_match_ends_chain cls s : forall a,
  dc_chain a (dc_match_ends cls a s ++ [a + length s]) (a + length s).
Proof.
  induction s as [|c r IH]; intros a.
  - cbn. split; [lia|reflexivity].
  - cbn [dc_match_ends length]. replace (a + S (length r)) with (S a + length r) by lia.
    destruct (dc_in_cls cls c).
    + cbn [app dc_chain]. split; [lia|apply IH].
    + apply dc_chain_weaken with (a' := S a); [lia| |apply IH].
      intros H. apply app_eq_nil in H. destruct H as [_ H]. discriminate.
Qed.

Lemma dc_sites_sites_ok cls s : dc_sites_ok (dc_sites cls s) s.
Proof. exists (dc_match_ends cls 0 s ++ [length s]). split; [reflexivity|]. apply (dc_match_ends_chain cls s 0). Qed.

(* inside a peptide of a residue-class enzyme only the last residue can belong to the class *)
Lemma dc_cut_class cls s : forall a,
  Forall (fun p => Forall (fun c => dc_in_cls cls c = false) (removelast p))
         (dc_cut a (dc_match_ends cls a s ++ [a + length s]) s).
Proof.
  induction s as [|c r IH]; intros a.
  - cbn. constructor; [|constructor]. rewrite firstn_nil. constructor.
  - cbn [dc_match_ends length]. replace (a + S (length r)) with (S a + length r) by lia.
    specialize (IH (S a)). pose proof (dc_match_ends_chain cls r (S a)) as Hch.
    destruct (dc_in_cls cls c) eqn:E.
    + cbn [app dc_cut]. replace (S a - a) with 1 by lia. cbn [firstn skipn].
      constructor; [constructor | exact IH].
    + destruct (dc_match_ends cls (S a) r ++ [S a + length r]) as [|b L] eqn:EL.
      { apply app_eq_nil in EL. destruct EL as [_ EL]. discriminate. }
      destruct Hch as [Hb _]. cbn [dc_cut] in *.
      replace (b - a) with (S (b - S a)) by lia. cbn [firstn skipn].
      inversion IH as [|? ? Hp HL]; subst. constructor; [|exact HL].
      destruct (firstn (b - S a) r) as [|y p0] eqn:Ep; [constructor|].
      change (removelast (c :: y :: p0)) with (c :: removelast (y :: p0)).
      constructor; [exact E | exact Hp].
Qed.

Lemma dc_match_ends_flags cls : forall (s s' : str) a,
  map (dc_in_cls cls) s' = map (dc_in_cls cls) s -> dc_match_ends cls a s' = dc_match_ends cls a s.
Proof.
  induction s as [|c r IH]; intros [|c' r'] a H; try discriminate; [reflexivity|].
  cbn [map] in H. inversion H as [[Hc Hr]]. cbn [dc_match_ends]. rewrite Hc, (IH r' (S a) Hr). reflexivity.
Qed.

Lemma dc_pep_decoy_flags cls rv p q :
  Forall (fun c => dc_in_cls cls c = false) (removelast p) -> dc_pep_decoy rv p q ->
  map (dc_in_cls cls) q = map (dc_in_cls cls) p.
Proof.
  intros Hp [[_ ->]|(x & mid & mid' & z & -> & -> & HP & _)]; [reflexivity|].
  change (x :: mid ++ [z]) with ((x :: mid) ++ [z]) in Hp. rewrite removelast_last in Hp.
  inversion Hp as [|? ? _ Hmid]; subst.
  assert (Hmid' : Forall (fun c => dc_in_cls cls c = false) mid').
  { rewrite Forall_forall in *. intros c Hc. apply Hmid. apply (Permutation_in _ HP). exact Hc. }
  assert (Hrep : forall l, Forall (fun c => dc_in_cls cls c = false) l ->
                           map (dc_in_cls cls) l = repeat false (length l)).
  { induction l as [|c l IHl]; intros Hl; [reflexivity|]. inversion Hl; subst. cbn. f_equal; auto. }
  cbn [map]. rewrite !map_app, (Hrep _ Hmid), (Hrep _ Hmid'), (Permutation_length HP). reflexivity.
Qed.

(* the cleavage sites of a residue-class enzyme are identical in target and decoy *)
Lemma dc_struct_sites_same cls rv t d :
  dc_decoy_struct rv (dc_sites cls t) t d -> dc_sites cls d = dc_sites cls t.
Proof.
  intros Hs. pose proof (dc_sites_sites_ok cls t) as Hok.
  pose proof (Permutation_length (dc_struct_perm _ _ _ _ Hok Hs)) as Hlen.
  destruct Hs as (r & qs & E & HF & ->). unfold dc_sites in E. inversion E; subst r. clear E.
  assert (Hflags : map (dc_in_cls cls) (concat qs) = map (dc_in_cls cls) t).
  { clear Hlen. pose proof (dc_cut_class cls t 0) as Hcls. cbn [Nat.add] in Hcls.
    destruct Hok as (r & E & Hch). unfold dc_sites in E. inversion E; subst r. clear E.
    rewrite <- (dc_cut_concat _ 0 t Hch).
    remember (dc_cut 0 (dc_match_ends cls 0 t ++ [length t]) t) as ps0 eqn:Eps. clear Eps.
    revert Hcls. induction HF as [|p q ps qs' Hpq HF IH]; intros Hcls; [reflexivity|].
    inversion Hcls as [|? ? Hp Hps]; subst. cbn [concat]. rewrite !map_app.
    rewrite (dc_pep_decoy_flags cls rv p q Hp Hpq), (IH Hps). reflexivity. }
  unfold dc_sites. rewrite Hlen, (dc_match_ends_flags cls t (concat qs) 0 Hflags). reflexivity.
Qed.

(* ====================================================================== *)
(* make_decoys end to end *)
(* ====================================================================== *)
(* the regex oracle's contract for explicitly given sites; nothing to assume for a residue class *)
Definition dc_given_ok (enz : dc_enzyme) (targets : list (str * str)) : Prop :=
  match enz with
  | DcClass _ => True
  | DcGiven l => Forall2 (fun ss e => dc_sites_ok ss (snd e)) l targets
  end.

Lemma dc_zip_sites_spec : forall targets l prots,
  dc_zip_sites targets l = Ok prots ->
  map fst prots = targets /\ map snd prots = l.
Proof.
  induction targets as [|[n s] targets IH]; intros [|ss l] prots H; cbn [dc_zip_sites] in H; try discriminate.
  - inversion H. split; reflexivity.
  - destruct (dc_zip_sites targets l) as [u|e] eqn:E; cbn [bind] in H; [|discriminate].
    inversion H; subst. destruct (IH l u E) as [H1 H2]. cbn [map fst snd]. rewrite H1, H2. split; reflexivity.
Qed.

Lemma dc_attach_spec enz targets prots :
  dc_attach enz targets = Ok prots -> dc_given_ok enz targets ->
  map fst prots = targets /\ Forall (fun pr => dc_sites_ok (snd pr) (snd (fst pr))) prots
  /\ (forall cls, enz = DcClass cls -> prots = map (fun e => (e, dc_sites cls (snd e))) targets).
Proof.
  destruct enz as [cls|l]; cbn [dc_attach dc_given_ok]; intros H Hok.
  - inversion H; subst. split; [|split].
    + rewrite map_map. cbn [fst]. rewrite <- (map_id targets) at 2. apply map_ext. intros [n s]. reflexivity.
    + rewrite Forall_forall. intros pr Hin. apply in_map_iff in Hin. destruct Hin as (e & <- & _).
      cbn [fst snd]. apply dc_sites_sites_ok.
    + intros cls' E. inversion E; subst. apply map_ext. intros [n s]. reflexivity.
  - destruct (dc_zip_sites_spec _ _ _ H) as [H1 H2]. split; [exact H1|]. split; [|discriminate].
    subst targets l. clear H. induction prots as [|[e ss] prots IH]; [constructor|].
    cbn [map fst snd] in Hok. inversion Hok; subst. constructor; [assumption | apply IH; assumption].
Qed.

Lemma dc_attach_total_class cls targets :
  dc_attach (DcClass cls) targets = Ok (map (fun e => (fst e, snd e, dc_sites cls (snd e))) targets).
Proof. reflexivity. Qed.

(* the entries make_decoys writes *)
Theorem dc_entries_spec draw rv : dc_perm_contract draw ->
  forall files prefix enz conc entries,
  dc_entries draw files prefix enz rv conc = Ok entries ->
  (forall targets, fa_parse_files files = Ok targets -> dc_given_ok enz targets) ->
  exists targets prots decoys,
    fa_parse_files files = Ok targets /\ dc_attach enz targets = Ok prots /\ map fst prots = targets /\
    Forall (fun pr => dc_sites_ok (snd pr) (snd (fst pr))) prots /\
    Forall2 (dc_decoy_of rv prefix) prots decoys /\
    entries = (if conc then targets ++ decoys else decoys).
Proof.
  intros Hdraw files prefix enz conc entries H Hgiven. unfold dc_entries in H.
  destruct (fa_parse_files files) as [targets|e] eqn:P; cbn [bind] in H; [|discriminate].
  destruct (dc_attach enz targets) as [prots|e] eqn:A; cbn [bind] in H; [|discriminate].
  destruct (dc_attach_spec _ _ _ A (Hgiven _ eq_refl)) as (Hfst & Hok & _).
  destruct (dc_shuffle_proteins_spec draw Hdraw rv prefix prots Hok) as (decoys & Hrun & Hdec).
  rewrite Hrun in H. cbn [bind] in H. inversion H; subst entries.
  exists targets, prots, decoys. repeat split; assumption.
Qed.

(* once the input has been parsed, decoy generation cannot fail (residue-class enzyme) *)
Theorem dc_entries_total draw rv : dc_perm_contract draw ->
  forall files prefix cls conc targets, fa_parse_files files = Ok targets ->
  exists entries, dc_entries draw files prefix (DcClass cls) rv conc = Ok entries.
Proof.
  intros Hdraw files prefix cls conc targets P. unfold dc_entries. rewrite P. cbn [bind].
  rewrite dc_attach_total_class. cbn [bind].
  destruct (dc_attach_spec (DcClass cls) targets _ (dc_attach_total_class cls targets) I) as (_ & Hok & _).
  destruct (dc_shuffle_proteins_spec draw Hdraw rv prefix _ Hok) as (decoys & Hrun & _).
  rewrite Hrun. cbn [bind]. eexists. reflexivity.
Qed.

(* ---------- well-formedness of what is written ---------- *)
Lemma fa_parse_all_spec : forall recs es, fa_parse_all recs = Ok es ->
  length es = length recs /\ Forall (fun e => fa_name_ok (fst e) /\ fa_nolb (snd e)) es.
Proof.
  induction recs as [|r recs IH]; intros es H; cbn [fa_parse_all] in H.
  - inversion H. split; [reflexivity|constructor].
  - destruct (fa_parse_protein r) as [[n s]|e] eqn:P; cbn [bind] in H; [|discriminate].
    destruct (fa_parse_all recs) as [es'|e] eqn:A; cbn [bind] in H; [|discriminate].
    inversion H; subst. destruct (IH es' eq_refl) as [Hl HF]. split; [cbn; rewrite Hl; reflexivity|].
    constructor; [|exact HF]. cbn [fst snd]. apply (fa_parse_protein_name_ok r n s P).
Qed.

Lemma fa_parse_files_spec files targets : fa_parse_files files = Ok targets ->
  targets <> [] /\ Forall (fun e => fa_name_ok (fst e)) targets.
Proof.
  unfold fa_parse_files, fa_records, fa_split_recs. intros H.
  destruct (fa_parse_all_spec _ _ H) as [Hl HF]. split.
  - intros ->. cbn in Hl. symmetry in Hl. apply length_zero_iff_nil in Hl.
    exact (fa_split_aux_nonempty _ _ Hl).
  - eapply Forall_impl; [|exact HF]. intros e [He _]. exact He.
Qed.

Lemma fa_name_ok_app a b : fa_name_ok a -> fa_name_ok b -> fa_name_ok (a ++ b).
Proof. intros Ha Hb. apply Forall_app. split; assumption. Qed.

(* re-reading the file written by make_decoys yields exactly the entries that were written *)
Theorem dc_make_decoys_roundtrip draw wrapf rv : dc_perm_contract draw -> fa_wrap_contract wrapf ->
  forall files prefix enz conc text,
  dc_make_decoys draw wrapf files prefix enz rv conc = Ok text ->
  (forall targets, fa_parse_files files = Ok targets ->
     dc_given_ok enz targets /\ Forall (fun e => fa_seq_ok (snd e)) targets) ->
  fa_name_ok prefix ->
  fa_parse_files [text] = dc_entries draw files prefix enz rv conc.
Proof.
  intros Hdraw Hwrap files prefix enz conc text H Hin Hprefix. unfold dc_make_decoys in H.
  destruct (dc_entries draw files prefix enz rv conc) as [entries|e] eqn:E; cbn [bind] in H; [|discriminate].
  inversion H; subst text. clear H.
  destruct (dc_entries_spec draw rv Hdraw files prefix enz conc entries E (fun t P => proj1 (Hin t P)))
    as (targets & prots & decoys & P & A & Hfst & Hok & Hdec & ->).
  destruct (Hin targets P) as [_ Hseq]. destruct (fa_parse_files_spec files targets P) as [Hne Hnames].
  assert (Ht : Forall fa_entry_ok targets).
  { rewrite Forall_forall in *. intros e He. split; [apply Hnames | apply Hseq]; exact He. }
  assert (Hd : Forall fa_entry_ok decoys).
  { subst targets. clear P A Hne Hnames Hseq Hin E. induction Hdec as [|pr dc prots decoys [Hn Hs] Hdec IH]; [constructor|].
    inversion Ht as [|? ? [Htn Hts] Ht']; subst. inversion Hok as [|? ? Hso Hok']; subst.
    constructor; [|apply IH; assumption]. split.
    - rewrite Hn. apply fa_name_ok_app; assumption.
    - pose proof (dc_struct_perm _ _ _ _ Hso Hs) as HP. unfold fa_seq_ok in *. rewrite Forall_forall in *.
      intros c Hc. apply Hts. apply (Permutation_in _ HP). exact Hc. }
  assert (Hdne : decoys <> []).
  { intros ->. inversion Hdec; subst. cbn in Hne. congruence. }
  destruct conc.
  - apply (fa_roundtrip wrapf Hwrap).
    + intros Happ. apply app_eq_nil in Happ. destruct Happ as [Happ _]. exact (Hne Happ).
    + apply Forall_app. split; assumption.
  - apply (fa_roundtrip wrapf Hwrap); assumption.
Qed.

(* ====================================================================== *)
(* Lifting per-protein facts to the result of _shuffle_proteins *)
(* ====================================================================== *)
Lemma dc_shuffle_proteins_lift draw rv (Q : str * str * list nat -> str * str -> Prop) prefix :
  dc_perm_contract draw ->
  (forall pr dc, dc_sites_ok (snd pr) (snd (fst pr)) -> dc_decoy_of rv prefix pr dc -> Q pr dc) ->
  forall prots decoys,
  Forall (fun pr => dc_sites_ok (snd pr) (snd (fst pr))) prots ->
  dc_shuffle_proteins draw rv prefix prots = Ok decoys -> Forall2 Q prots decoys.
Proof.
  intros Hdraw HQ prots decoys Hok H.
  destruct (dc_shuffle_proteins_spec draw Hdraw rv prefix prots Hok) as (decoys' & Hrun & Hdec).
  rewrite Hrun in H. inversion H; subst decoys'. clear H Hrun.
  induction Hdec as [|pr dc prots decoys Hpd Hdec IH]; [constructor|].
  inversion Hok; subst. constructor; [apply HQ; assumption | apply IH; assumption].
Qed.

Definition dc_seq_of (pr : str * str * list nat) : str := snd (fst pr).
Definition dc_name_of (pr : str * str * list nat) : str := fst (fst pr).
Definition dc_sites_of (pr : str * str * list nat) : list nat := snd pr.
Definition dc_prots_ok (prots : list (str * str * list nat)) : Prop :=
  Forall (fun pr => dc_sites_ok (dc_sites_of pr) (dc_seq_of pr)) prots.

Section Lifted.
  Variable draw : nat -> nat -> list nat.
  Hypothesis Hdraw : dc_perm_contract draw.
  Variables (rv : bool) (prefix : str) (prots : list (str * str * list nat)) (decoys : list (str * str)).
  Hypothesis Hok : dc_prots_ok prots.
  Hypothesis Hrun : dc_shuffle_proteins draw rv prefix prots = Ok decoys.

  Lemma dc_lift_name_len_comp :
    Forall2 (fun pr dc => fst dc = prefix ++ dc_name_of pr /\ length (snd dc) = length (dc_seq_of pr)
                          /\ Permutation (snd dc) (dc_seq_of pr)) prots decoys.
  Proof.
    apply (dc_shuffle_proteins_lift draw rv _ prefix Hdraw); [|exact Hok|exact Hrun].
    intros pr dc Hs [Hn Hd]. pose proof (dc_struct_perm _ _ _ _ Hs Hd) as HP.
    split; [exact Hn|]. split; [apply Permutation_length; exact HP | exact HP].
  Qed.

  Lemma dc_lift_spec :
    Forall2 (fun pr dc => dc_decoy_spec rv (dc_sites_of pr) (dc_seq_of pr) (snd dc)) prots decoys.
  Proof.
    apply (dc_shuffle_proteins_lift draw rv _ prefix Hdraw); [|exact Hok|exact Hrun].
    intros pr dc Hs [_ Hd]. apply dc_struct_spec; assumption.
  Qed.

  Lemma dc_lift_termini :
    Forall2 (fun pr dc => forall x y, dc_consecutive (dc_sites_of pr) x y -> x < y ->
               nth_error (snd dc) x = nth_error (dc_seq_of pr) x /\
               nth_error (snd dc) (y - 1) = nth_error (dc_seq_of pr) (y - 1)) prots decoys.
  Proof.
    apply (dc_shuffle_proteins_lift draw rv _ prefix Hdraw); [|exact Hok|exact Hrun].
    intros pr dc Hs [_ Hd] x y Hc Hxy.
    apply (dc_spec_termini rv _ _ _ x y Hs (dc_struct_spec _ _ _ _ Hs Hd) Hc Hxy).
  Qed.

  Lemma dc_lift_peptides :
    Forall2 (fun pr dc => forall x y, dc_consecutive (dc_sites_of pr) x y ->
               Permutation (pyslice (snd dc) x y) (pyslice (dc_seq_of pr) x y)) prots decoys.
  Proof.
    apply (dc_shuffle_proteins_lift draw rv _ prefix Hdraw); [|exact Hok|exact Hrun].
    intros pr dc Hs [_ Hd] x y Hc.
    apply (dc_spec_peptide_perm rv _ _ _ x y (dc_struct_spec _ _ _ _ Hs Hd) Hc).
  Qed.

  Lemma dc_lift_reverse : rv = true ->
    Forall2 (fun pr dc => forall x y, dc_consecutive (dc_sites_of pr) x y ->
               pyslice (snd dc) (S x) (y - 1) = rev (pyslice (dc_seq_of pr) (S x) (y - 1))) prots decoys.
  Proof.
    intros Hrv. apply (dc_shuffle_proteins_lift draw rv _ prefix Hdraw); [|exact Hok|exact Hrun].
    intros pr dc Hs [_ Hd] x y Hc. subst rv.
    apply (dc_spec_reverse _ _ _ x y Hs (dc_struct_spec _ _ _ _ Hs Hd) Hc).
  Qed.

  Lemma dc_lift_sites_same cls :
    Forall (fun pr => dc_sites_of pr = dc_sites cls (dc_seq_of pr)) prots ->
    Forall2 (fun pr dc => dc_sites cls (snd dc) = dc_sites cls (dc_seq_of pr)) prots decoys.
  Proof.
    intros Hcls.
    assert (H : Forall2 (fun pr dc => dc_sites_of pr = dc_sites cls (dc_seq_of pr) ->
                            dc_sites cls (snd dc) = dc_sites cls (dc_seq_of pr)) prots decoys).
    { apply (dc_shuffle_proteins_lift draw rv _ prefix Hdraw); [|exact Hok|exact Hrun].
      intros pr dc Hs [_ Hd] E. unfold dc_sites_of, dc_seq_of in *. rewrite E in Hd.
      apply (dc_struct_sites_same cls rv _ _ Hd). }
    clear Hrun Hok. induction H as [|pr dc prots' decoys' Hpd H IH]; [constructor|].
    inversion Hcls; subst. constructor; [apply Hpd; assumption | apply IH; assumption].
  Qed.
End Lifted.

Lemma dc_Forall2_length {A B} (R : A -> B -> Prop) l l' : Forall2 R l l' -> length l = length l'.
Proof. induction 1; cbn; congruence. Qed.

(* make_decoys with a residue-class enzyme, in terms of _shuffle_proteins *)
Theorem dc_entries_class draw rv : dc_perm_contract draw ->
  forall files prefix cls conc entries,
  dc_entries draw files prefix (DcClass cls) rv conc = Ok entries ->
  exists targets decoys,
    fa_parse_files files = Ok targets /\
    dc_shuffle_proteins draw rv prefix (map (fun e => (e, dc_sites cls (snd e))) targets) = Ok decoys /\
    length decoys = length targets /\
    entries = (if conc then targets ++ decoys else decoys).
Proof.
  intros Hdraw files prefix cls conc entries H. unfold dc_entries in H.
  destruct (fa_parse_files files) as [targets|e] eqn:P; cbn [bind] in H; [|discriminate].
  rewrite dc_attach_total_class in H. cbn [bind] in H.
  assert (Emap : map (fun e => (fst e, snd e, dc_sites cls (snd e))) targets
                 = map (fun e => (e, dc_sites cls (snd e))) targets).
  { apply map_ext. intros [n s]. reflexivity. }
  rewrite Emap in H.
  destruct (dc_shuffle_proteins draw rv prefix _) as [decoys|e] eqn:S; cbn [bind] in H; [|discriminate].
  inversion H; subst entries. exists targets, decoys.
  split; [reflexivity|]. split; [exact S|]. split; [|reflexivity].
  assert (Hok : dc_prots_ok (map (fun e => (e, dc_sites cls (snd e))) targets)).
  { unfold dc_prots_ok. rewrite Forall_forall. intros pr Hin. apply in_map_iff in Hin.
    destruct Hin as (e & <- & _). apply dc_sites_sites_ok. }
  pose proof (dc_lift_name_len_comp draw Hdraw rv prefix _ decoys Hok S) as HF.
  apply dc_Forall2_length in HF. rewrite map_length in HF. symmetry. exact HF.
Qed.

Lemma dc_class_prots_ok cls targets :
  dc_prots_ok (map (fun e => (e, dc_sites cls (snd e))) targets) /\
  Forall (fun pr => dc_sites_of pr = dc_sites cls (dc_seq_of pr)) (map (fun e => (e, dc_sites cls (snd e))) targets).
Proof.
  split.
  - unfold dc_prots_ok. rewrite Forall_forall. intros pr Hin. apply in_map_iff in Hin.
    destruct Hin as (e & <- & _). apply dc_sites_sites_ok.
  - rewrite Forall_forall. intros pr Hin. apply in_map_iff in Hin. destruct Hin as (e & <- & _). reflexivity.
Qed.

(* a concrete oracle meeting the contract: rotate left by one (used for the examples) *)
Definition dc_rot_draw (j k : nat) : list nat :=
  match seq 0 k with [] => [] | x :: r => r ++ [x] end.
Lemma dc_rot_draw_contract : dc_perm_contract dc_rot_draw.
Proof.
  intros j k. unfold dc_rot_draw. destruct (seq 0 k) as [|x r]; [constructor|].
  apply Permutation_sym. apply Permutation_cons_append.
Qed.
