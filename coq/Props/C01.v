(* C01 — TDC q-values equal the defining formula.  Statements only; proofs in Proofs/TdcP.v.
   Vocabulary (Proofs/TdcP.v):
     better_eq desc s' s   : s' scores at least as well as s in direction desc
     n_targets/n_decoys    : targets / decoys scoring at least as well as a threshold
     fdr_at desc st s      : (n_decoys + 1) / n_targets, 1 where no target qualifies
     is_qvalue desc st s v : v is the minimum of {1} and { fdr_at s' | s' an input score at or worse than s } *)
From Coq Require Import Permutation.
From Mokaverif Require Import Model.Base Model.Tdc Proofs.TdcP.
Open Scope Z_scope.

(* the q-value of every PSM is the defining minimum, in input order *)
Theorem C01_tdc_equals_spec : forall desc scores k labels qs,
  tdc desc scores k labels = Ok qs ->
  exists targets, normalize_labels k labels = Ok targets /\ length targets = length scores /\
    length qs = length scores /\
    forall i, (i < length scores)%nat ->
      is_qvalue desc (combine scores targets) (nth i scores 0) (nth i qs 1%Q).
Proof. exact tdc_ok. Qed.
Print Assumptions C01_tdc_equals_spec.

(* the specification determines the value (up to equality of rationals) *)
Theorem C01_spec_unique : forall desc st s v w,
  is_qvalue desc st s v -> is_qvalue desc st s w -> (v == w)%Q.
Proof. exact is_qvalue_unique. Qed.
Print Assumptions C01_spec_unique.

Theorem C01_better_eq_meaning : forall desc s' s,
  better_eq desc s' s <-> if desc then s <= s' else s' <= s.
Proof. exact better_eq_spec. Qed.
Print Assumptions C01_better_eq_meaning.

Theorem C01_range : forall desc scores k labels qs, tdc desc scores k labels = Ok qs ->
  forall i, (i < length scores)%nat -> (0 < nth i qs 1)%Q /\ (nth i qs 1 <= 1)%Q.
Proof. exact out_range. Qed.
Print Assumptions C01_range.

Theorem C01_monotone : forall desc scores k labels qs, tdc desc scores k labels = Ok qs ->
  forall i j, (i < length scores)%nat -> (j < length scores)%nat ->
  better_eq desc (nth i scores 0) (nth j scores 0) -> (nth i qs 1 <= nth j qs 1)%Q.
Proof. exact out_monotone. Qed.
Print Assumptions C01_monotone.

Theorem C01_ties : forall desc scores k labels qs, tdc desc scores k labels = Ok qs ->
  forall i j, (i < length scores)%nat -> (j < length scores)%nat ->
  nth i scores 0 = nth j scores 0 -> (nth i qs 1 == nth j qs 1)%Q.
Proof. exact out_ties. Qed.
Print Assumptions C01_ties.

Theorem C01_input_order : forall desc scores k labels qs scores' k' labels' qs' targets targets' i j,
  tdc desc scores k labels = Ok qs -> tdc desc scores' k' labels' = Ok qs' ->
  normalize_labels k labels = Ok targets -> normalize_labels k' labels' = Ok targets' ->
  Permutation (combine scores targets) (combine scores' targets') ->
  (i < length scores)%nat -> (j < length scores')%nat -> nth i scores 0 = nth j scores' 0 ->
  (nth i qs 1 == nth j qs' 1)%Q.
Proof. exact out_input_order. Qed.
Print Assumptions C01_input_order.

Theorem C01_rescaling : forall desc (f : Z -> Z) scores k labels qs qs' i,
  (forall a b, a <= b <-> f a <= f b) ->
  tdc desc scores k labels = Ok qs -> tdc desc (map f scores) k labels = Ok qs' ->
  (i < length scores)%nat -> (nth i qs 1 == nth i qs' 1)%Q.
Proof. exact out_rescaling. Qed.
Print Assumptions C01_rescaling.

Theorem C01_direction : forall scores k labels qs qs' i,
  tdc false scores k labels = Ok qs -> tdc true (map Z.opp scores) k labels = Ok qs' ->
  (i < length scores)%nat -> (nth i qs 1 == nth i qs' 1)%Q.
Proof. exact out_direction. Qed.
Print Assumptions C01_direction.

(* exactly when the call is rejected *)
Theorem C01_errors : forall desc scores k labels,
  (exists e, tdc desc scores k labels = Err e) <->
  (forall targets, normalize_labels k labels <> Ok targets) \/
  (exists targets, normalize_labels k labels = Ok targets /\ length targets <> length scores).
Proof. exact tdc_error_iff. Qed.
Print Assumptions C01_errors.

Theorem C01_label_encodings : forall k vals targets,
  normalize_labels k vals = Ok targets ->
  length targets = length vals /\
  forall i, (i < length vals)%nat ->
    nth i targets false = match k with
                          | LBool => negb (nth i vals 0 =? 0)
                          | LInt => nth i vals 0 =? 1
                          | LFloat => nth i vals 0 =? 2
                          end.
Proof. exact normalize_labels_spec. Qed.
Print Assumptions C01_label_encodings.

(* training labels: +1 exactly the targets with q <= threshold, -1 exactly the decoys, 0 the rest *)
Theorem C01_labels : forall desc scores targets thr labs,
  update_labels desc scores targets thr = Ok labs ->
  length labs = length scores /\
  forall i, (i < length scores)%nat ->
    let q := nth i (tdc_core desc scores targets) 1%Q in
    let t := nth i targets false in
    is_qvalue desc (combine scores targets) (nth i scores 0) q /\
    (nth i labs 0 = 1 <-> t = true /\ (q <= thr)%Q) /\
    (nth i labs 0 = -1 <-> t = false) /\
    (nth i labs 0 = 0 <-> t = true /\ ~ (q <= thr)%Q).
Proof. exact update_labels_spec. Qed.
Print Assumptions C01_labels.

(* non-vacuity / sanity: the vectors of tests/unit_tests/test_qvalues.py *)
Definition ex_scores : list Z := [10;10;9;8;7;7;6;5;4;3;2;2;1;1;1;1].
Definition ex_labels : list Z := [1;1;1;1;0;1;1;0;1;0;1;0;0;0;0;0].
Example C01_example_desc :
  match tdc true ex_scores LInt ex_labels with Ok qs => map Qred qs | Err _ => [] end
  = [1#4;1#4;1#4;1#4;1#3;1#3;1#3;3#7;3#7;4#7;5#8;5#8;1;1;1;1]%Q.
Proof. vm_compute. reflexivity. Qed.
Example C01_example_asc_ties :
  match tdc false [3;5;5;1;3] LBool [1;0;1;1;0] with Ok qs => map Qred qs | Err _ => [] end = [1;1;1;1;1]%Q /\
  match tdc true [3;5;5;1;3] LFloat [2;0;2;2;0] with Ok qs => map Qred qs | Err _ => [] end = [1;1;1;1;1]%Q /\
  tdc true [1;2] LInt [1;2] = Err EValue /\ tdc true [1;2] LBool [1] = Err EValue.
Proof. vm_compute. repeat split. Qed.
Example C01_labels_example :
  update_labels true [6;5;3;3;2;1] [true;true;true;false;false;false] (1#2)%Q = Ok [1;1;0;-1;-1;-1].
Proof. vm_compute. reflexivity. Qed.
