(* C14 — k-way merge (stub while the correspondence is being set up) *)
From Mokaverif Require Import Model.Base Model.Merge.
Open Scope Z_scope.
Example C14_ex_runs :
  mg_merge_all_z [[(9,0);(5,1);(5,2)];[(9,3);(7,4)];[(1,5)]] = [(9,0);(9,3);(7,4);(5,1);(5,2);(1,5)].
Proof. vm_compute. reflexivity. Qed.
