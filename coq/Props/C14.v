(* C14 — k-way merge returns every row once, globally sorted by score; the table merger rejects an
   input that is not sorted as declared.  Statements only; proofs are in Proofs/MergeP.v.

   Vocabulary (Proofs/MergeP.v, independent of the algorithm):
     mg_sorted score desc l   StronglySorted: every earlier row scores >= (desc) / <= (asc) every later one
     mg_wf inputs             at least one input and no input without rows (the property's quantifier)
     mg_at score s l          the rows of l whose score is s, in their order in l
     mg_key score desc        score (desc) or its negation (asc)
   All theorems hold for every row type, every score function, any number of inputs of any lengths.
   The model has no chunking (both merges read per-input row iterators): independence of the reader
   chunk size is established by the correspondence check, which runs the real readers with chunk
   sizes 1..N+1 against these functions. *)
From Mokaverif Require Import Model.Base Model.Merge Proofs.MergeP.
From Coq Require Import Permutation Sorted.
Open Scope Z_scope.

(* ---------- the row-dict merge (utils.merge_sort / get_next_row) ---------- *)

(* every input row exactly once, unmodified — for any inputs, sorted or not, empty ones included *)
Theorem C14_perm : forall (row : Type) (score : row -> Z) (inputs : list (list row)),
  Permutation (mg_merge_all score inputs) (concat inputs).
Proof. exact mg_merge_all_perm. Qed.
Print Assumptions C14_perm.

(* globally non-increasing score order *)
Theorem C14_sorted : forall (row : Type) (score : row -> Z) (inputs : list (list row)),
  Forall (mg_sorted score true) inputs -> mg_sorted score true (mg_merge_all score inputs).
Proof. exact mg_merge_all_sorted. Qed.
Print Assumptions C14_sorted.

(* the tie rule of the code: rows of equal score come out by input number, then by position
   (for every score s the s-rows of the output are the s-rows of input 1, then of input 2, ...) *)
Theorem C14_ties : forall (row : Type) (score : row -> Z) (inputs : list (list row)),
  Forall (mg_sorted score true) inputs ->
  forall s, mg_at score s (mg_merge_all score inputs) = mg_at score s (concat inputs).
Proof. exact mg_merge_all_ties. Qed.
Print Assumptions C14_ties.

(* C14_sorted + C14_ties determine the output: the specification has exactly one solution *)
Theorem C14_spec_complete : forall (row : Type) (score : row -> Z) (inputs : list (list row)) out,
  Forall (mg_sorted score true) inputs -> mg_sorted score true out ->
  (forall s, mg_at score s out = mg_at score s (concat inputs)) ->
  out = mg_merge_all score inputs.
Proof. exact mg_merge_all_unique. Qed.
Print Assumptions C14_spec_complete.

(* independent of the number of inputs / of how the rows are spread over them: the multiset of rows and
   the sequence of scores.  (The order among equal scores is NOT: C14_ties_depend_on_split below.) *)
Theorem C14_inputs_split : forall (row : Type) (score : row -> Z) (A B : list (list row)),
  Forall (mg_sorted score true) A -> Forall (mg_sorted score true) B ->
  Permutation (concat A) (concat B) ->
  Permutation (mg_merge_all score A) (mg_merge_all score B) /\
  map score (mg_merge_all score A) = map score (mg_merge_all score B).
Proof. exact mg_inputs_split. Qed.
Print Assumptions C14_inputs_split.

(* fuel: the model's truncation branch is unreachable — more fuel changes nothing, nothing is dropped *)
Theorem C14_fuel : forall (row : Type) (score : row -> Z) (inputs : list (list row)) k,
  mg_merge score (length (concat inputs) + k) (mg_init inputs) = mg_merge_all score inputs /\
  length (mg_merge_all score inputs) = length (concat inputs).
Proof. exact mg_merge_all_fuel_spec. Qed.
Print Assumptions C14_fuel.

(* utils.merge_sort as called: IndexError without paths, RuntimeError (StopIteration inside the
   generator) for a file without rows, otherwise the merge above *)
Theorem C14_merge_sort : forall (row : Type) (score : row -> Z) (inputs : list (list row)),
  (inputs = [] -> mg_merge_sort score inputs = Err EIndex) /\
  (inputs <> [] -> Exists (fun l => l = []) inputs -> mg_merge_sort score inputs = Err ERuntime) /\
  (mg_wf inputs -> mg_merge_sort score inputs = Ok (mg_merge_all score inputs)).
Proof. exact mg_merge_sort_spec. Qed.
Print Assumptions C14_merge_sort.

(* ---------- the table merger (streaming.MergedTabularDataReader / merge_readers) ---------- *)

(* it raises ValueError exactly when some input is not sorted as declared: every adjacent pair of every
   input is compared before the merge can end, so an inversion anywhere (also in the last rows of the
   last input) is found *)
Theorem C14_checked_rejects_iff : forall (row : Type) (score : row -> Z) desc (inputs : list (list row)),
  mg_wf inputs ->
  (mg_merge_checked score desc inputs = Err EValue <->
   Exists (fun l => ~ mg_sorted score desc l) inputs).
Proof. exact mg_checked_err_iff. Qed.
Print Assumptions C14_checked_rejects_iff.

(* "not sorted" is the same as "has an adjacent inversion" *)
Theorem C14_sorted_adjacent : forall (row : Type) (score : row -> Z) desc (l : list row),
  mg_sorted score desc l <-> Sorted (mg_dir score desc) l.
Proof. exact mg_sorted_adjacent. Qed.
Print Assumptions C14_sorted_adjacent.

(* a returned table: the call was well formed, all inputs were sorted as declared, every row is there
   exactly once, in the declared global order, ties by input number then position *)
Theorem C14_checked_ok : forall (row : Type) (score : row -> Z) desc (inputs : list (list row)) out,
  mg_merge_checked score desc inputs = Ok out ->
  mg_wf inputs /\ Forall (mg_sorted score desc) inputs /\
  Permutation out (concat inputs) /\ mg_sorted score desc out /\
  (forall s, mg_at score s out = mg_at score s (concat inputs)).
Proof. exact mg_checked_ok. Qed.
Print Assumptions C14_checked_ok.

(* sorted inputs are always accepted, and the table merger then agrees with the row-dict merge
   (run on the negated score for the ascending direction) *)
Theorem C14_checked_accepts : forall (row : Type) (score : row -> Z) desc (inputs : list (list row)),
  mg_wf inputs -> Forall (mg_sorted score desc) inputs ->
  mg_merge_checked score desc inputs = Ok (mg_merge_all (mg_key score desc) inputs).
Proof. exact mg_checked_sorted_inputs. Qed.
Print Assumptions C14_checked_accepts.

(* streaming view (get_row_iterator): whatever the inputs, the rows yielded — also those yielded
   before a ValueError — are in the declared order: never a silently unsorted result *)
Theorem C14_stream_prefix_sorted : forall (row : Type) (score : row -> Z) desc (inputs : list (list row)),
  mg_sorted score desc (fst (mg_merge_stream score desc inputs)).
Proof. exact mg_stream_prefix_sorted. Qed.
Print Assumptions C14_stream_prefix_sorted.

(* outside the quantifier: no readers -> AssertionError; a reader without rows -> RuntimeError *)
Theorem C14_checked_malformed : forall (row : Type) (score : row -> Z) desc (inputs : list (list row)),
  (inputs = [] -> mg_merge_checked score desc inputs = Err EAssertion) /\
  (inputs <> [] -> Exists (fun l => l = []) inputs -> mg_merge_checked score desc inputs = Err ERuntime).
Proof. exact mg_checked_malformed. Qed.
Print Assumptions C14_checked_malformed.

(* the model's own error (out of fuel) never comes out *)
Theorem C14_checked_fuel : forall (row : Type) (score : row -> Z) desc (inputs : list (list row)),
  mg_merge_checked score desc inputs <> Err EFuel /\
  snd (mg_merge_stream score desc inputs) <> Some EFuel.
Proof. exact mg_no_fuel_error. Qed.
Print Assumptions C14_checked_fuel.

(* ---------- non-vacuity and sanity ---------- *)
(* rows are (score, id); three inputs with ties inside and across inputs and a single-row input *)
Definition ex_inputs : list (list mg_zrow) :=
  [[(9,0);(5,1);(5,2)]; [(9,3);(7,4);(5,5)]; [(5,6)]].

Example C14_hyps_satisfiable : mg_wf ex_inputs /\ Forall (mg_sorted mg_zscore true) ex_inputs.
Proof.
  split; [split; [discriminate | repeat constructor; discriminate]|].
  repeat constructor; unfold mg_dir, mg_zscore; cbn; intros H; discriminate H.
Qed.

Example C14_ex_runs :
  mg_merge_all_z ex_inputs = [(9,0);(9,3);(7,4);(5,1);(5,2);(5,5);(5,6)] /\
  mg_merge_checked_z true ex_inputs = Ok [(9,0);(9,3);(7,4);(5,1);(5,2);(5,5);(5,6)] /\
  mg_merge_sort_z ex_inputs = Ok [(9,0);(9,3);(7,4);(5,1);(5,2);(5,5);(5,6)].
Proof. repeat split; vm_compute; reflexivity. Qed.

(* ascending, sorted as declared *)
Example C14_ex_asc :
  Forall (mg_sorted mg_zscore false) [[(1,0);(4,1)];[(1,2);(2,3)]] /\
  mg_merge_checked_z false [[(1,0);(4,1)];[(1,2);(2,3)]] = Ok [(1,0);(1,2);(2,3);(4,1)].
Proof.
  split; [|vm_compute; reflexivity].
  repeat constructor; unfold mg_dir, mg_zscore; cbn; intros H; discriminate H.
Qed.

(* an inversion in the last two rows of the last input is found; the rows yielded before are in order *)
Example C14_ex_rejects :
  ~ mg_sorted mg_zscore true [(3,10);(1,11);(2,12)] /\
  mg_merge_checked_z true [[(9,0);(5,1)];[(3,10);(1,11);(2,12)]] = Err EValue /\
  mg_merge_stream_z true [[(9,0);(5,1)];[(3,10);(1,11);(2,12)]] = ([(9,0);(5,1);(3,10);(1,11)], Some EValue).
Proof.
  split; [|split; vm_compute; reflexivity].
  intros H. apply StronglySorted_inv in H. destruct H as [H _].
  apply StronglySorted_inv in H. destruct H as [_ H]. inversion H as [|? ? H1 _]; subst.
  unfold mg_dir, mg_zscore in H1. cbn in H1. apply H1. reflexivity.
Qed.

(* the order among equal scores does depend on how the rows are spread over the inputs *)
Example C14_ties_depend_on_split :
  Permutation (concat [[(5,0)];[(5,1)]]) (concat [[(5,1)];[(5,0)]]) /\
  mg_merge_all_z [[(5,0)];[(5,1)]] <> mg_merge_all_z [[(5,1)];[(5,0)]].
Proof. split; [cbn; apply perm_swap | vm_compute; discriminate]. Qed.

(* the row-dict merge has no check: an unsorted input gives an unsorted result, silently *)
Example C14_merge_sort_unchecked :
  mg_merge_sort_z [[(1,0);(5,1)];[(3,2)]] = Ok [(3,2);(1,0);(5,1)].
Proof. vm_compute. reflexivity. Qed.
