(* C16 — protein grouping is a maximal-subset grouping with a consistent peptide map.
   Statements only; proofs are in Proofs/GroupingP.v.

   Vocabulary (Proofs/GroupingP.v):
     eqb_ok peqb          peqb decides equality of protein names
     perm_oracle pi       the iteration order of the set [matches]: any function returning a permutation
     wf_prots prots       protein names distinct, every peptide list without repetition and non-empty
     pm0_ok prots pm0     pm0 maps every peptide to the one-element names of the proteins containing it
     maximal prots S      S is (as a set) some protein's peptide set, and no protein's set is strictly larger
     members_ok prots n S the members of n are exactly the proteins whose peptides lie in S
     clean entries        the FASTA entries that yield >= 1 peptide, with their peptide sets
     in_group g n pep     (n, S) is a group of g and pep is in S
     inc entries p pep    protein p of the FASTA entry list contains peptide pep *)
From Mokaverif Require Import Model.Base Model.Grouping Proofs.GroupingP.
Open Scope nat_scope.

(* after any number of iterations of the loop over the sorted proteins: for every peptide, the names
   recorded for it that are current groups are exactly the groups whose peptide set contains it *)
Theorem C16_invariant : forall (P : Type) (peqb : P -> P -> bool), eqb_ok peqb ->
  forall pi (prots : list (P * list nat)) pm0 done todo,
  perm_oracle P pi -> wf_prots P prots -> pm0_ok P prots pm0 ->
  gr_sort_desc P prots = done ++ todo ->
  exists g pm, gr_loop P peqb pi ([], pm0) done = Ok (g, pm) /\
    forall n S pep, In (n, S) g -> (In n (gr_lookup P pep pm) <-> In pep S).
Proof. exact loop_invariant. Qed.
Print Assumptions C16_invariant.

(* _group_proteins never fails on a well-formed input, and its groups are exactly
   { (members = {P | peps P included in S}, S) | S maximal among the proteins' peptide sets };
   the returned peptide dict maps each peptide to the groups containing it *)
Theorem C16_characterisation : forall (P : Type) (peqb : P -> P -> bool), eqb_ok peqb ->
  forall pi (prots : list (P * list nat)) pm0,
  perm_oracle P pi -> wf_prots P prots -> pm0_ok P prots pm0 ->
  exists g pm, gr_group P peqb pi prots pm0 = Ok (g, pm) /\
    (forall n S, In (n, S) g -> maximal P prots S /\ members_ok P prots n S /\ NoDup n) /\
    (forall S, maximal P prots S -> exists n S', In (n, S') g /\ seteq S' S) /\
    NoDup (map fst g) /\
    (forall pep, NoDup (gr_lookup P pep pm) /\
                 forall x, In x (gr_lookup P pep pm) <-> exists S, In (x, S) g /\ In pep S).
Proof. exact group_characterisation. Qed.
Print Assumptions C16_characterisation.

(* every protein with >= 1 peptide belongs to a group, which contains its peptides *)
Theorem C16_cover : forall (P : Type) (peqb : P -> P -> bool), eqb_ok peqb ->
  forall pi (prots : list (P * list nat)) pm0 g pm,
  perm_oracle P pi -> wf_prots P prots -> pm0_ok P prots pm0 ->
  gr_group P peqb pi prots pm0 = Ok (g, pm) ->
  forall p peps, In (p, peps) prots -> exists n S, In (n, S) g /\ In p n /\ incl peps S.
Proof. exact group_cover. Qed.
Print Assumptions C16_cover.

(* a group's peptide set is that of one of its members and contains the peptides of all its members *)
Theorem C16_group_set : forall (P : Type) (peqb : P -> P -> bool), eqb_ok peqb ->
  forall pi (prots : list (P * list nat)) pm0 g pm,
  perm_oracle P pi -> wf_prots P prots -> pm0_ok P prots pm0 ->
  gr_group P peqb pi prots pm0 = Ok (g, pm) ->
  forall n S, In (n, S) g ->
    (exists f, In f n /\ In (f, S) prots) /\
    (forall x peps, In x n -> In (x, peps) prots -> incl peps S).
Proof. exact group_set. Qed.
Print Assumptions C16_group_set.

(* no group's peptide set is contained in another group's *)
Theorem C16_antichain : forall (P : Type) (peqb : P -> P -> bool), eqb_ok peqb ->
  forall pi (prots : list (P * list nat)) pm0 g pm,
  perm_oracle P pi -> wf_prots P prots -> pm0_ok P prots pm0 ->
  gr_group P peqb pi prots pm0 = Ok (g, pm) ->
  forall n S n' S', In (n, S) g -> In (n', S') g -> incl S S' -> n = n' /\ S = S'.
Proof. exact group_antichain. Qed.
Print Assumptions C16_antichain.

(* read_fasta succeeds on every FASTA entry list with distinct names and a target that has a peptide,
   and its four outputs meet the specification record fasta_spec (the next two theorems spell it out) *)
Theorem C16_total : forall (P : Type) (peqb : P -> P -> bool), eqb_ok peqb ->
  forall is_decoy decoy_of pi (entries : list (P * list nat)),
  perm_oracle P pi -> NoDup (map fst entries) ->
  (exists t, In t (map fst (clean P entries)) /\ is_decoy t = false) ->
  exists out, gr_read_fasta P peqb pi is_decoy decoy_of entries = Ok out /\
              fasta_spec P is_decoy decoy_of entries out.
Proof. exact read_fasta_ok. Qed.
Print Assumptions C16_total.

(* peptide_map = the peptides lying in exactly one group, each mapped to that group;
   shared_peptides = exactly the peptides lying in two or more groups (with those groups) *)
Theorem C16_unique_shared : forall (P : Type) (peqb : P -> P -> bool), eqb_ok peqb ->
  forall is_decoy decoy_of pi (entries : list (P * list nat)) out,
  perm_oracle P pi -> NoDup (map fst entries) ->
  gr_read_fasta P peqb pi is_decoy decoy_of entries = Ok out ->
  exists g, group_spec P (clean P entries) g /\
    (forall pep n, In (pep, n) (gr_unique P out) <->
       in_group P g n pep /\ forall n', in_group P g n' pep -> n' = n) /\
    (forall pep ns, In (pep, ns) (gr_shared P out) ->
       NoDup ns /\ 2 <= length ns /\ forall x, In x ns <-> in_group P g x pep) /\
    (forall pep n n', n <> n' -> in_group P g n pep -> in_group P g n' pep ->
       In pep (map fst (gr_shared P out))) /\
    NoDup (map fst (gr_unique P out) ++ map fst (gr_shared P out)).
Proof. exact fasta_unique_shared. Qed.
Print Assumptions C16_unique_shared.

(* protein_map = { t -> prefix ++ t | t a target with >= 1 peptide }; has_decoys iff one of them is present *)
Theorem C16_decoy_pairing : forall (P : Type) (peqb : P -> P -> bool), eqb_ok peqb ->
  forall is_decoy decoy_of pi (entries : list (P * list nat)) out,
  perm_oracle P pi -> NoDup (map fst entries) ->
  gr_read_fasta P peqb pi is_decoy decoy_of entries = Ok out ->
  (forall t d, In (t, d) (gr_protein_map P out) <->
     In t (map fst (clean P entries)) /\ is_decoy t = false /\ d = decoy_of t) /\
  NoDup (map fst (gr_protein_map P out)) /\
  (gr_has_decoys P out = true <->
     exists t, In t (map fst (clean P entries)) /\ is_decoy t = false /\
               In (decoy_of t) (map fst (clean P entries))).
Proof. exact fasta_decoy_pairing. Qed.
Print Assumptions C16_decoy_pairing.

(* two FASTA entry lists with the same incidence relation (any entry order, any order or repetition of the
   peptides inside a protein) and any two iteration-order oracles give the same result up to the order
   of the members inside a group name and the order of the dicts *)
Theorem C16_order_free : forall (P : Type) (peqb : P -> P -> bool), eqb_ok peqb ->
  forall is_decoy decoy_of pi pi' (entries entries' : list (P * list nat)) out out',
  perm_oracle P pi -> perm_oracle P pi' ->
  NoDup (map fst entries) -> NoDup (map fst entries') ->
  (forall p pep, inc P entries p pep <-> inc P entries' p pep) ->
  gr_read_fasta P peqb pi is_decoy decoy_of entries = Ok out ->
  gr_read_fasta P peqb pi' is_decoy decoy_of entries' = Ok out' ->
  out_sub P out out' /\ out_sub P out' out.
Proof. exact read_fasta_order_free. Qed.
Print Assumptions C16_order_free.

(* the same for _group_proteins alone: groups correspond with equal member sets and peptide sets *)
Theorem C16_order_free_groups : forall (P : Type) (peqb : P -> P -> bool), eqb_ok peqb ->
  forall pi pi' (prots prots' : list (P * list nat)) pm0 pm0' g pm g' pm',
  perm_oracle P pi -> perm_oracle P pi' -> wf_prots P prots -> wf_prots P prots' ->
  pm0_ok P prots pm0 -> pm0_ok P prots' pm0' ->
  prots_sub P prots prots' -> prots_sub P prots' prots ->
  gr_group P peqb pi prots pm0 = Ok (g, pm) -> gr_group P peqb pi' prots' pm0' = Ok (g', pm') ->
  forall n S, In (n, S) g -> exists n' S', In (n', S') g' /\ name_eq P n n' /\ seteq S S'.
Proof. exact group_order_free. Qed.
Print Assumptions C16_order_free_groups.

(* the error exits: "Only decoy proteins were found" (also when no protein has a peptide) *)
Theorem C16_only_decoys : forall (P : Type) (peqb : P -> P -> bool), eqb_ok peqb ->
  forall is_decoy decoy_of pi (entries : list (P * list nat)),
  entries <> [] -> NoDup (map fst entries) ->
  (forall t, In t (map fst (clean P entries)) -> is_decoy t = true) ->
  gr_read_fasta P peqb pi is_decoy decoy_of entries = Err EValue.
Proof. exact read_fasta_only_decoys. Qed.
Print Assumptions C16_only_decoys.

(* the instance that is extracted and run against mokapot.read_fasta (names = strings, decoy test =
   startswith(prefix), oracle = gr_perm k) satisfies the specification *)
Theorem C16_extracted_instance : forall k prefix (entries : list (str * list nat)) out,
  NoDup (map fst entries) -> gr_read_fasta_str k prefix entries = Ok out ->
  fasta_spec str (prefixb prefix) (fun n => prefix ++ n) entries out.
Proof. exact fasta_str_instance. Qed.
Print Assumptions C16_extracted_instance.

(* ---------- non-vacuity and sanity (proteins are numbers; >= 100 means decoy, decoy_of t = t + 100) ----------
   3 = {2} lies inside both 1 = {1,2,3} and 7 = {2,4};  2 = {1,2} (repeated peptide) inside 1;
   4 = 5 = {7,8};  6 has no peptide;  101 is the decoy of 1 *)
Definition ex_entries : list (nat * list nat) :=
  [(3, [2]); (1, [1; 2; 3]); (2, [2; 1; 2]); (4, [7; 8]); (5, [8; 7]); (6, []); (7, [2; 4]); (101, [20])].
Definition ex_is_decoy (n : nat) : bool := Nat.leb 100 n.
Definition ex_decoy_of (n : nat) : nat := n + 100.

Example C16_eqb_ok_nat : eqb_ok Nat.eqb.
Proof. exact Nat.eqb_spec. Qed.

Example C16_eqb_ok_str : eqb_ok str_eqb.
Proof. exact gr_str_eqb_spec. Qed.

Example C16_oracle_satisfiable : forall k, perm_oracle nat (fun _ l => gr_perm k l).
Proof. intros k p l. unfold gr_perm. apply gr_perm_fuel_perm. Qed.

Example C16_hyps_satisfiable :
  NoDup (map fst ex_entries) /\
  (exists t, In t (map fst (clean nat ex_entries)) /\ ex_is_decoy t = false) /\
  wf_prots nat (clean nat ex_entries) /\
  pm0_ok nat (clean nat ex_entries) (snd (gr_build nat Nat.eqb ex_entries [] [])).
Proof.
  assert (Hnd : NoDup (map fst ex_entries)).
  { simpl. repeat (constructor; [simpl; intuition discriminate|]). constructor. }
  split; [exact Hnd|]. split.
  - exists 3. split; [vm_compute; left; reflexivity|reflexivity].
  - destruct (gr_build nat Nat.eqb ex_entries [] []) as [d0 pm0] eqn:E.
    destruct (build_pm0_ok nat Nat.eqb Nat.eqb_spec ex_entries d0 pm0 Hnd E) as [_ [H1 H2]].
    split; assumption.
Qed.

Example C16_ex_runs :
  gr_read_fasta nat Nat.eqb (fun _ l => gr_perm 0 l) ex_is_decoy ex_decoy_of ex_entries
  = Ok {| gr_unique := [(1, [1; 2; 3]); (3, [1; 2; 3]); (7, [4; 5]); (8, [4; 5]); (4, [7; 3]); (20, [101])];
          gr_shared := [(2, [[7; 3]; [1; 2; 3]])];
          gr_protein_map := [(3, 103); (2, 102); (4, 104); (5, 105); (7, 107); (1, 101)];
          gr_has_decoys := true |}.
Proof. vm_compute. reflexivity. Qed.

(* reversed entry order and another iteration order: same groups, other member order ([5;4] for [4;5]) *)
Example C16_ex_reordered :
  gr_read_fasta nat Nat.eqb (fun _ l => gr_perm 3 l) ex_is_decoy ex_decoy_of (rev ex_entries)
  = Ok {| gr_unique := [(20, [101]); (4, [7; 3]); (8, [5; 4]); (7, [5; 4]); (1, [1; 2; 3]); (3, [1; 2; 3])];
          gr_shared := [(2, [[7; 3]; [1; 2; 3]])];
          gr_protein_map := [(3, 103); (7, 107); (5, 105); (4, 104); (2, 102); (1, 101)];
          gr_has_decoys := true |}.
Proof. vm_compute. reflexivity. Qed.

(* a protein inside two maximal groups is a member of both *)
Example C16_ex_groups :
  (let (d, pm) := gr_build nat Nat.eqb ex_entries [] [] in
   gr_group nat Nat.eqb (fun _ l => gr_perm 2 l) d pm)
  = Ok ([([4; 5], [7; 8]); ([1; 2; 3], [1; 2; 3]); ([7; 3], [2; 4]); ([101], [20])],
        [(2, [[1; 2; 3]; [7; 3]]); (1, [[1; 2; 3]]); (3, [[1; 2; 3]]); (7, [[4; 5]]); (8, [[4; 5]]);
         (4, [[7; 3]]); (20, [[101]])]).
Proof. vm_compute. reflexivity. Qed.

(* the error exits are reachable *)
Example C16_ex_errors :
  gr_read_fasta nat Nat.eqb (fun _ l => l) ex_is_decoy ex_decoy_of [] = Err EIndex /\
  gr_read_fasta nat Nat.eqb (fun _ l => l) ex_is_decoy ex_decoy_of [(101, [1]); (1, [])] = Err EValue.
Proof. split; vm_compute; reflexivity. Qed.

(* outside the guard "distinct protein names" the model (like the code) keeps a stale name: peptide 1 is
   mapped to [1] although the group is [2;1]; this is why every theorem assumes NoDup (map fst entries) *)
Example C16_ex_duplicate_names :
  gr_read_fasta nat Nat.eqb (fun _ l => l) ex_is_decoy ex_decoy_of [(1, [1; 2]); (1, [3]); (2, [3; 4])]
  = Ok {| gr_unique := [(1, [1]); (2, [1]); (3, [2; 1]); (4, [2; 1])]; gr_shared := [];
          gr_protein_map := [(1, 101); (2, 102)]; gr_has_decoys := false |}.
Proof. vm_compute. reflexivity. Qed.
