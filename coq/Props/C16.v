(* C16 — protein grouping.  Statements only; proofs are in Proofs/GroupingP.v. *)
From Mokaverif Require Import Model.Base Model.Grouping Proofs.GroupingP.

Example C16_ex_runs : True.
Proof. exact I. Qed.
