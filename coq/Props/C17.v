(* C17 — stub, replaced below *)
From Mokaverif Require Import Model.Base Model.Digest.
