(* C17 — in-silico digestion.  Statements only; proofs are in Proofs/DigestP.v.

   Model (Model/Digest.v): dg_cleave = _cleave (double loop, clip rule, semi loop with break/continue),
   dg_sites_of_ends = _cleavage_sites given the regex match ends, dg_sites_class = the sites of a
   residue-class enzyme "[KR]" / "[KR](?!P)" computed by a scan.

   Specification (Proofs/DigestP.v):
     enzymatic sites mc minl maxl a b :=
        In a sites /\ In b sites /\ a < b /\ missed sites a b <= mc /\ minl <= b - a <= maxl
        (missed = number of sites strictly between a and b)
     derived minl semi clip0 pep p :=
        p = pep
        \/ (clip0 /\ pep = M :: p /\ minl <= |p|)
        \/ (semi /\ p <> [] /\ minl <= |p| /\ p is a proper prefix or suffix of pep)
     Digest_spec s sites mc minl maxl semi clip p :=
        exists a b, enzymatic sites mc minl maxl a b /\ derived minl semi (clip && a = 0) s[a:b] p        *)
From Coq Require Import Sorted Lia.
From Mokaverif Require Import Model.Base Model.Digest Proofs.DigestP.
Open Scope nat_scope.

(* any site list whatsoever: the double loop yields exactly what pairs of site INDICES at distance
   1..mc+1 derive *)
Theorem C17_sound_complete_idx : forall (A : Type) (isM : A -> bool) s sites mc minl maxl semi clip p,
  In p (dg_cleave A isM s sites mc minl maxl semi clip) <->
  Digest_spec_idx A isM s sites mc minl maxl semi clip p.
Proof. exact cleave_idx. Qed.
Print Assumptions C17_sound_complete_idx.

(* the property text: under the contract of _cleavage_sites, a non-empty p is returned iff it starts
   and ends at site POSITIONS a < b with at most mc sites strictly between and min <= b-a <= max,
   or is the clipped form of such an N-terminal peptide, or (semi) a proper prefix/suffix of one *)
Theorem C17_sound_complete : forall (A : Type) (isM : A -> bool) s sites mc minl maxl semi clip p,
  sites_ok (length s) sites -> p <> [] ->
  (In p (dg_cleave A isM s sites mc minl maxl semi clip) <->
   Digest_spec A isM s sites mc minl maxl semi clip p).
Proof. exact cleave_sound_complete. Qed.
Print Assumptions C17_sound_complete.

(* with min_length >= 1 (every practical call) no side condition on p *)
Theorem C17_sound_complete_min1 : forall (A : Type) (isM : A -> bool) s sites mc minl maxl semi clip p,
  sites_ok (length s) sites -> 1 <= minl ->
  (In p (dg_cleave A isM s sites mc minl maxl semi clip) <->
   Digest_spec A isM s sites mc minl maxl semi clip p).
Proof. exact cleave_sound_complete_min1. Qed.
Print Assumptions C17_sound_complete_min1.

(* the remaining case: the empty string is returned exactly when min_length = 0 and either a site
   is duplicated (last residue is a cleavage residue, or the sequence is empty) or the N-terminal
   peptide is the single residue M and clipping is on *)
Theorem C17_empty_peptide : forall (A : Type) (isM : A -> bool) s sites mc minl maxl semi clip,
  sites_ok (length s) sites ->
  (In [] (dg_cleave A isM s sites mc minl maxl semi clip) <->
   minl = 0 /\ (~ NoDup sites \/
                (clip = true /\ 1 <= maxl /\ In 1 sites /\ exists x r, s = x :: r /\ isM x = true))).
Proof. exact cleave_empty. Qed.
Print Assumptions C17_empty_peptide.

(* every returned peptide is a substring of the protein (any site list) *)
Theorem C17_substring : forall (A : Type) (isM : A -> bool) s sites mc minl maxl semi clip p,
  In p (dg_cleave A isM s sites mc minl maxl semi clip) -> exists u v, s = u ++ p ++ v.
Proof. exact cleave_substring. Qed.
Print Assumptions C17_substring.

(* more missed cleavages, wider length bounds, semi on, clip on: the result can only grow *)
Theorem C17_monotone : forall (A : Type) (isM : A -> bool) s sites mc mc' minl minl' maxl maxl'
                              (semi semi' clip clip' : bool),
  mc <= mc' -> minl' <= minl -> maxl <= maxl' ->
  (semi = true -> semi' = true) -> (clip = true -> clip' = true) ->
  incl (dg_cleave A isM s sites mc minl maxl semi clip)
       (dg_cleave A isM s sites mc' minl' maxl' semi' clip').
Proof. exact cleave_monotone. Qed.
Print Assumptions C17_monotone.

(* residue-class enzymes: the computed sites are 0, every position after a class residue that is
   not followed by a forbidden residue, and len (possibly a duplicate of the last position); they
   meet the contract *)
Theorem C17_sites_residue_class : forall (A : Type) (cls nf : A -> bool) s,
  dg_sites_class A cls nf s = 0 :: filter (class_cut A cls nf s) (seq 1 (length s)) ++ [length s]
  /\ sites_ok (length s) (dg_sites_class A cls nf s).
Proof. intros A cls nf s. split; [apply class_sites_spec | apply class_sites_ok]. Qed.
Print Assumptions C17_sites_residue_class.

(* ... so that "is a site" and "missed cleavages" can be read without any list of sites *)
Theorem C17_sites_mem : forall (cut : nat -> bool) n c,
  In c (0 :: filter cut (seq 1 n) ++ [n]) <-> c = 0 \/ c = n \/ (1 <= c <= n /\ cut c = true).
Proof. exact cut_sites_mem. Qed.
Print Assumptions C17_sites_mem.

Theorem C17_sites_missed : forall (cut : nat -> bool) n a b,
  a < b -> b <= n ->
  missed (0 :: filter cut (seq 1 n) ++ [n]) a b = length (filter cut (seq (S a) (b - S a))).
Proof. exact cut_sites_missed. Qed.
Print Assumptions C17_sites_missed.

(* the extracted entry points (character codes, Python ints) *)
Theorem C17_digest_class : forall cls nf s mc minl maxl semi clip p,
  p <> [] ->
  (In p (dg_digest_class cls nf s (Z.of_nat mc) (Z.of_nat minl) (Z.of_nat maxl) semi clip) <->
   Digest_spec Z dg_isM s
     (0 :: filter (class_cut Z (fun c => dg_memz c cls) (fun c => dg_memz c nf) s) (seq 1 (length s))
        ++ [length s])
     mc minl maxl semi clip p).
Proof. exact digest_class_spec. Qed.
Print Assumptions C17_digest_class.

Theorem C17_digest_ends : forall s ends mc minl maxl semi clip p,
  StronglySorted le ends -> Forall (fun c => 1 <= c <= length s) ends -> p <> [] ->
  (In p (dg_digest_ends s ends (Z.of_nat mc) (Z.of_nat minl) (Z.of_nat maxl) semi clip) <->
   Digest_spec Z dg_isM s (0 :: ends ++ [length s]) mc minl maxl semi clip p).
Proof. exact digest_ends_spec. Qed.
Print Assumptions C17_digest_ends.

Theorem C17_negative_params : forall s sites mc minl maxl semi clip,
  ((mc < 0 \/ maxl < 0)%Z -> dg_cleave_z s sites mc minl maxl semi clip = []) /\
  ((minl <= 0)%Z -> dg_cleave_z s sites mc minl maxl semi clip = dg_cleave_z s sites mc 0 maxl semi clip).
Proof. intros. split; [apply cleave_z_neg | apply cleave_z_negmin]. Qed.
Print Assumptions C17_negative_params.

(* ---------- non-vacuity and sanity ---------- *)
Open Scope Z_scope.
(* K=75 R=82 M=77 A=65 P=80 *)
Definition ex_seq : str := [77;65;75;65;65;82;80;75].            (* MAKAARPK *)
Definition KR : list Z := [75;82].
Definition P_ : list Z := [80].

(* "[KR]" on MAKAARPK: sites 0,3,6,8,8 (duplicate end site) *)
Example C17_ex_sites : dg_class_sites KR [] ex_seq = [0;3;6;8;8]%nat
                       /\ dg_class_sites KR P_ ex_seq = [0;3;8;8]%nat.
Proof. split; vm_compute; reflexivity. Qed.

Example C17_sites_ok_satisfiable : sites_ok (length ex_seq) [0;3;6;8;8]%nat.
Proof.
  exists [3;6;8]%nat. split; [reflexivity|]. split.
  - repeat constructor.
  - repeat constructor.
Qed.

(* the hypotheses of C17_sound_complete hold for a concrete peptide, and the spec side is inhabited:
   AARPK = s[3:8], one missed cleavage (position 6) *)
Example C17_spec_inhabited :
  Digest_spec Z dg_isM ex_seq [0;3;6;8;8]%nat 1 2 50 false false [65;65;82;80;75].
Proof.
  exists 3%nat, 8%nat. split.
  - unfold enzymatic. simpl. repeat split; auto 6; lia.
  - left. reflexivity.
Qed.

Example C17_ex_digest :
  dg_digest_class KR [] ex_seq 0 2 50 false false = [[77;65;75]; [65;65;82]; [80;75]]      (* MAK AAR PK *)
  /\ dg_digest_class KR P_ ex_seq 0 2 50 false true
     = [[77;65;75]; [65;75]; [65;65;82;80;75]].                                        (* MAK AK AARPK *)
Proof. split; vm_compute; reflexivity. Qed.

(* behaviour worth knowing: semi fragments are taken from the unclipped peptide only — with clip and
   semi, "A" (a prefix of the clipped AK, not a prefix/suffix of MAK) is not returned *)
Example C17_semi_of_clipped_absent :
  ~ In [65] (dg_digest_class KR [] [77;65;75] 0 1 50 true true)
  /\ In [65;75] (dg_digest_class KR [] [77;65;75] 0 1 50 true true).
Proof.
  split.
  - vm_compute. intros H. repeat (destruct H as [H|H]; [discriminate|]). exact H.
  - vm_compute. auto 10.
Qed.

(* the contract is needed: a pattern with an empty match at position 0 (e.g. "(?=M)" on MAAK gives
   sites 0,0,4) duplicates site 0, and the code then clips only from start index 0 — the clipped form
   AAK allowed by Digest_spec is not produced with mc = 0 *)
Example C17_contract_needed :
  ~ In [65;65;75] (dg_cleave Z dg_isM [77;65;65;75] [0;0;4]%nat 0 1 50 false true)
  /\ Digest_spec Z dg_isM [77;65;65;75] [0;0;4]%nat 0 1 50 false true [65;65;75].
Proof.
  split.
  - vm_compute. intros H. repeat (destruct H as [H|H]; [discriminate|]). exact H.
  - exists 0%nat, 4%nat. split.
    + unfold enzymatic. simpl. repeat split; auto; lia.
    + right; left. split; [reflexivity|]. exists 77. simpl. repeat split; lia.
Qed.
