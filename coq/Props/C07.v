(* C07 — best-feature safety net.  Statements only; proofs in Proofs/BrewDecisionP.v. *)
From Coq Require Import Sorted.
From Mokaverif Require Import Model.Base Model.Tdc Model.PinCols Model.BrewDecision Model.Confidence.
From Mokaverif Require Import Proofs.BrewDecisionP.
Open Scope nat_scope.

(* models: (feat_pass, override) per fold model; pt: targets accepted at the evaluation FDR under
   the model scores.  The model scores are kept only if every model is overridden or they accept
   at least as many targets as every fold's best feature did; otherwise brew falls back to the
   best feature of the first fold model with the largest feat_pass *)
Theorem C07_safety_net : forall models pt,
  match bd_decide models pt with
  | None => forallb snd models = true \/ forall j, j < length models -> fst (nth j models (0, false)) <= pt
  | Some i => forallb snd models = false /\ i < length models /\ pt < fst (nth i models (0, false)) /\
              (forall j, j < length models -> fst (nth j models (0, false)) <= fst (nth i models (0, false))) /\
              (forall j, j < i -> fst (nth j models (0, false)) < fst (nth i models (0, false)))
  end.
Proof. exact decide_spec. Qed.
Print Assumptions C07_safety_net.

(* what is counted: exactly the genuine targets whose q-value (C01) is within the threshold *)
Theorem C07_counts_targets : forall desc scores targets thr a,
  bd_accepted desc scores targets thr = Ok a ->
  length scores = length targets /\
  a = length (filter (fun qt => snd qt && Qle_bool (fst qt) thr) (combine (tdc_core desc scores targets) targets)).
Proof. exact accepted_spec. Qed.
Print Assumptions C07_counts_targets.

(* whatever the encoding of the label column, the same target flags are used *)
Theorem C07_encodings : forall ts : list bool,
  pc_convert_targets false (map (fun t : bool => if t then 1 else -1)%Z ts) = Ok ts /\
  pc_convert_targets false (map (fun t : bool => if t then 1 else 0)%Z ts) = Ok ts /\
  pc_convert_targets true (map (fun t : bool => if t then 1 else 0)%Z ts) = Ok ts.
Proof. exact encodings_agree. Qed.
Print Assumptions C07_encodings.

(* the best feature: the largest number of accepted targets over all features and both directions *)
Theorem C07_best_feature : forall features targets thr,
  match bd_best_feature features targets thr with
  | Some (i, c, d) =>
      i < length features /\ 0 < c /\
      nth i (bd_counts d features targets thr) 0 = c /\
      forall d' j, j < length features -> nth j (bd_counts d' features targets thr) 0 <= c
  | None => features = [] \/
            forall d' j, j < length features -> nth j (bd_counts d' features targets thr) 0 = 0
  end.
Proof. exact best_feature_spec. Qed.
Print Assumptions C07_best_feature.

(* confidence assignment for a lower-is-better score: ranked by the negated score, hence the PSM
   kept per spectrum is the one with the LOWEST score and the file lists low values first *)
Theorem C07_direction : forall (row : Type) (s : row -> Z) (lkey : nat -> row -> Z) c n rows,
  (1 <= c)%nat -> NoDup (map s rows) ->
  let out := cf_levels row (fun r => (- s r)%Z) lkey c true true n rows in
  forall r, (0 < n)%nat ->
    (In r (nth 0%nat out []) <->
     In r rows /\ forall r', In r' rows -> lkey 0%nat r' = lkey 0%nat r -> (s r <= s r')%Z) /\
    StronglySorted (fun a b => (s a <= s b)%Z) (nth 0%nat out []).
Proof. exact lower_is_better. Qed.
Print Assumptions C07_direction.

Example C07_example :
  bd_decide [(9, false); (12, false); (12, false)] 10 = Some 1 /\
  bd_decide [(9, false); (12, false)] 12 = None /\
  bd_decide [(9, true); (12, true)] 0 = None /\
  bd_pred_total (1#2)%Q [([5;4;3;2]%Z, [true;true;false;true])] = Ok 2 /\
  bd_best_feature [[1;2;3;4]; [4;3;2;1]]%Z [true;true;false;false] (1#2)%Q = Some (1, 2, true).
Proof. vm_compute. repeat split. Qed.
