(* C07 — best-feature safety net.  Statements only; proofs in Proofs/BrewDecisionP.v. *)
From Coq Require Import Sorted.
From Coq Require Import Permutation.
From Mokaverif Require Import Model.Base Model.Tdc Model.PinCols Model.BrewDecision Model.Confidence Model.Brew.
From Mokaverif Require Import Proofs.BrewDecisionP Proofs.BrewEnsP.
Open Scope nat_scope.

(* models: (feat_pass, override) per fold model; pt: targets accepted at the evaluation FDR under
   the model scores.  The model scores are kept only if every model is overridden or they accept
   at least as many targets as every fold's best feature did; otherwise brew falls back to the
   best feature of the first fold model with the largest feat_pass *)
Theorem C07_safety_net : forall models pt,
  match bd_decide models pt with
  | None => forallb snd models = true \/ forall j, j < length models -> fst (nth j models (0, false)) <= pt
  | Some i => forallb snd models = false /\ i < length models /\ pt < fst (nth i models (0, false)) /\
              (forall j, j < length models -> fst (nth j models (0, false)) <= fst (nth i models (0, false))) /\
              (forall j, j < i -> fst (nth j models (0, false)) < fst (nth i models (0, false)))
  end.
Proof. exact decide_spec. Qed.
Print Assumptions C07_safety_net.

(* what is counted: exactly the genuine targets whose q-value (C01) is within the threshold *)
Theorem C07_counts_targets : forall desc scores targets thr a,
  bd_accepted desc scores targets thr = Ok a ->
  length scores = length targets /\
  a = length (filter (fun qt => snd qt && Qle_bool (fst qt) thr) (combine (tdc_core desc scores targets) targets)).
Proof. exact accepted_spec. Qed.
Print Assumptions C07_counts_targets.

(* whatever the encoding of the label column, the same target flags are used *)
Theorem C07_encodings : forall ts : list bool,
  pc_convert_targets false (map (fun t : bool => if t then 1 else -1)%Z ts) = Ok ts /\
  pc_convert_targets false (map (fun t : bool => if t then 1 else 0)%Z ts) = Ok ts /\
  pc_convert_targets true (map (fun t : bool => if t then 1 else 0)%Z ts) = Ok ts.
Proof. exact encodings_agree. Qed.
Print Assumptions C07_encodings.

(* the best feature: the largest number of accepted targets over all features and both directions *)
Theorem C07_best_feature : forall features targets thr,
  match bd_best_feature features targets thr with
  | Some (i, c, d) =>
      i < length features /\ 0 < c /\
      nth i (bd_counts d features targets thr) 0 = c /\
      forall d' j, j < length features -> nth j (bd_counts d' features targets thr) 0 <= c
  | None => features = [] \/
            forall d' j, j < length features -> nth j (bd_counts d' features targets thr) 0 = 0
  end.
Proof. exact best_feature_spec. Qed.
Print Assumptions C07_best_feature.

(* confidence assignment for a lower-is-better score: ranked by the negated score, hence the PSM
   kept per spectrum is the one with the LOWEST score and the file lists low values first *)
Theorem C07_direction : forall (row : Type) (s : row -> Z) (lkey : nat -> row -> Z) c n rows,
  (1 <= c)%nat -> NoDup (map s rows) ->
  let out := cf_levels row (fun r => (- s r)%Z) lkey c true true n rows in
  forall r, (0 < n)%nat ->
    (In r (nth 0%nat out []) <->
     In r rows /\ forall r', In r' rows -> lkey 0%nat r' = lkey 0%nat r -> (s r <= s r')%Z) /\
    StronglySorted (fun a b => (s a <= s b)%Z) (nth 0%nat out []).
Proof. exact lower_is_better. Qed.
Print Assumptions C07_direction.

(* brew(ensemble=True) (R2.22): the models come back in ascending fold order; pt = the targets the AVERAGED scores
   accept at the evaluation FDR; the decision is the SAME function bd_decide (hence C07_safety_net holds verbatim) of
   the (feat_pass, override) of the models in fold order and pt: either the averaged scores with descs all True, or
   the best feature of the chosen model, with its direction, for every collection *)
Theorem C07_ensemble_decision : forall c k thr fitted files folds scores descs,
  bw_brew_ens c k thr fitted files = Ok (folds, (scores, descs)) ->
  let models := bw_sort_fitted fitted in
  let ms := map (fun m => (bf_feat_pass m, bf_override m)) models in
  folds = map bf_fold models /\ StronglySorted le folds /\ Permutation models fitted /\
  exists sums pt,
    bw_brew_ens_sums c k models files = Ok sums /\
    bd_pred_total thr (combine sums (map bc_targets files)) = Ok pt /\
    match bd_decide ms pt with
    | None =>
        descs = map (fun _ => true) files /\
        scores = map (map (bw_ens_mean (if forallb bf_trained models then length models else 1))) sums
    | Some i =>
        exists m, nth_error models i = Some m /\
          descs = map (fun _ => bf_desc m) files /\
          bw_all_ok (map (fun fl => match nth_error (bc_feats fl) (bf_best m) with
                                    | Some col => Ok (map inject_Z col) | None => Err EKey end) files) = Ok scores
    end.
Proof. exact brew_ens_decision. Qed.
Print Assumptions C07_ensemble_decision.

(* the accepted targets are counted on the integer SUMS of the fold models' values: the mean sum / k ranks (and
   ties) exactly as the sum does *)
Theorem C07_ensemble_mean_order : forall k a b, 1 <= k ->
  ((bw_ens_mean k a < bw_ens_mean k b)%Q <-> (a < b)%Z) /\ ((bw_ens_mean k a == bw_ens_mean k b)%Q <-> a = b).
Proof. intros k a b Hk. split; [exact (ens_mean_order k a b Hk)|exact (ens_mean_eq k a b Hk)]. Qed.
Print Assumptions C07_ensemble_mean_order.

(* fall-back to feature 1 (lower is better) of the first model with the largest feat_pass; kept with override; an
   untrained model: zero scores, which accept nothing *)
Example C07_ensemble_example :
  let keys := [5;3;5;9;3;5;1]%Z in
  let A := [9;8;7;6;5;4;3]%Z in let B := [1;2;3;4;5;6;7]%Z in let C := [2;2;2;2;9;9;9]%Z in
  let fl := Build_bw_coll keys [true;true;false;true;false;true;false] [A; B; C] in
  bw_brew_ens 2 3 (1#2)%Q [Build_bw_fitted 2 true 4 false 1 false [B]; Build_bw_fitted 3 true 4 false 2 true [C];
                            Build_bw_fitted 1 true 1 false 0 true [A]] [fl]
    = Ok ([1; 2; 3], ([[1; 2; 3; 4; 5; 6; 7]%Q], [false])) /\
  bw_brew_ens 2 3 (1#2)%Q [Build_bw_fitted 2 true 4 true 1 false [B]; Build_bw_fitted 3 true 4 true 2 true [C];
                            Build_bw_fitted 1 true 1 true 0 true [A]] [fl]
    = Ok ([1; 2; 3], ([[12#3; 12#3; 12#3; 12#3; 19#3; 19#3; 19#3]%Q], [true])) /\
  bw_brew_ens 2 3 (1#2)%Q [Build_bw_fitted 2 true 0 false 1 false [B]; Build_bw_fitted 3 false 0 false 2 true [C];
                            Build_bw_fitted 1 true 0 false 0 true [A]] [fl]
    = Ok ([1; 2; 3], ([[0; 0; 0; 0; 0; 0; 0]%Q], [true])).
Proof. vm_compute. repeat split. Qed.

Example C07_example :
  bd_decide [(9, false); (12, false); (12, false)] 10 = Some 1 /\
  bd_decide [(9, false); (12, false)] 12 = None /\
  bd_decide [(9, true); (12, true)] 0 = None /\
  bd_pred_total (1#2)%Q [([5;4;3;2]%Z, [true;true;false;true])] = Ok 2 /\
  bd_best_feature [[1;2;3;4]; [4;3;2;1]]%Z [true;true;false;false] (1#2)%Q = Some (1, 2, true).
Proof. vm_compute. repeat split. Qed.
