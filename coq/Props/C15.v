(* C15 — picked protein (statements; proofs in Proofs/StripP.v, Proofs/PickedP.v) *)
From Mokaverif Require Import Model.Base Model.Strip Model.Picked.
Open Scope Z_scope.
Example C15_strip_example : st_strip_all [[65;46;66;46;67]] = [[66]].
Proof. vm_compute. reflexivity. Qed.
