(* C15 — picked protein: one entry per target/decoy protein-group pair, won by its best peptide.
   Statements only; proofs in Proofs/StripP.v and Proofs/PickedP.v.
   Vocabulary
     st_strip_all col              : strip_peptides on a whole column (Model/Strip.v)
     st_annot / st_render / st_pep : a written peptide (flanks, residues, modifications, lower-case marks),
                                     its text, its bare residue sequence (Proofs/StripP.v)
     pk_picked P dm order rows     : picked_protein; P = the Proteins container (data), dm = what match_decoy
                                     returned (target-only FASTA), order = row labels as left by DataFrame.sample;
                                     a row's label is its position in the table (the code relabels its copy 0..n-1),
                                     so no statement below depends on the caller's row labels
     pk_mapped P dm rows i r g     : row i of the table is r and its stripped sequence is a unique peptide of
                                     protein group g (through peptide_map, or the decoy map for a target-only FASTA)
     pk_pair_key P g               : protein_map.get(x, x) of the first member of g — the identity of the pair
     pk_order_ok                   : contract of the sample oracle: every retained row label is drawn
     is_qvalue                     : the C01 specification of a TDC q-value (Proofs/TdcP.v)
     md_match im perm ds ts        : peptides.match_decoy(ds, ts, ignore_mods=im) as the item list of the returned dict
                                     (Model/MatchDecoy.v): targets sorted, shuffled by the recorded positions perm (oracle
                                     for Series.sample; contract: a permutation of 0..n-1), grouped by composition key,
                                     handed out to the decoys in order by list.pop()
     md_steps im perm ds ts        : the same, one step per decoy OCCURRENCE: (decoy, Some target | None)
     md_matched st                 : the (decoy, target) pairs of the steps that found a target
     md_dkey / md_tkey im          : composition key of a decoy / of a target as the code computes them
     md_count key k l              : how many strings of l have composition key k *)
From Coq Require Import Permutation.
From Mokaverif Require Import Model.Base Model.Strip Model.Tdc Model.Picked Model.MatchDecoy
  Proofs.TdcP Proofs.StripP Proofs.PickedP Proofs.MatchDecoyP.
Open Scope Z_scope.

(* ---------- modifications and flanking residues are ignored ---------- *)
(* strip (fl ++ "." ++ with_mods pep ++ "." ++ fr) = pep; fr is arbitrary text *)
Theorem C15_strip : forall fl its fr,
  st_flank_ok fl = true -> Forall st_wf_item its ->
  (exists c, In c (st_pep its) /\ st_is_upper c = true) ->
  st_strip_all [fl ++ [st_DOT] ++ st_render_items its ++ [st_DOT] ++ fr] = [st_pep its].
Proof. exact st_strip_flanked. Qed.
Print Assumptions C15_strip.

Theorem C15_strip_unflanked : forall its,
  Forall st_wf_item its -> (exists c, In c (st_pep its) /\ st_is_upper c = true) ->
  st_strip_all [st_render_items its] = [st_pep its].
Proof. exact st_strip_unflanked. Qed.
Print Assumptions C15_strip_unflanked.

(* whole columns, every mixture of the three notations (no flank / left flank / both flanks) *)
Theorem C15_strip_column : forall col,
  Forall st_wf col ->
  (exists a c, In a col /\ In c (st_pep (st_items a)) /\ st_is_upper c = true) ->
  st_strip_all (map st_render col) = map (fun a => st_pep (st_items a)) col.
Proof. exact st_strip_all_annotated. Qed.
Print Assumptions C15_strip_column.

(* the column-wide lower-case rule: a column written entirely in lower case is upper-cased *)
Theorem C15_strip_lower_column : forall col,
  Forall st_wf col ->
  (forall a, In a col -> st_islower (st_visible (st_items a)) = true) ->
  st_strip_all (map st_render col) = map (fun a => st_upper (st_visible (st_items a))) col.
Proof. exact st_strip_all_lower_column. Qed.
Print Assumptions C15_strip_lower_column.

(* ---------- exactly one entry per pair that has a retained peptide ---------- *)
Theorem C15_one_per_pair : forall P dm order rows out,
  pk_picked P dm order rows = Ok out -> pk_order_ok P dm rows order ->
  NoDup (map (pk_entry_key P) out) /\
  forall k, In k (map (pk_entry_key P) out) <-> exists i r g, pk_mapped P dm rows i r g /\ pk_pair_key P g = k.
Proof. exact pk_one_per_pair. Qed.
Print Assumptions C15_one_per_pair.

(* what "pair" means: a target group led by t and the decoy group led by protein_map[t] share the key *)
Theorem C15_pair_key_paired : forall P t d ts ds,
  pk_no_comma t = true -> pk_no_comma d = true ->
  pk_get t (pk_protmap P) = Some d -> pk_get d (pk_protmap P) = None ->
  pk_pair_key P (pk_join_names (t :: ts)) = d /\ pk_pair_key P (pk_join_names (d :: ds)) = d.
Proof. exact pk_pair_key_paired. Qed.
Print Assumptions C15_pair_key_paired.

(* target-only FASTA: the decoy group of "A, B" is "decoy_A, decoy_B" *)
Theorem C15_target_only_group : forall pre ms,
  ms <> [] -> Forall (fun m => pk_no_comma m = true) ms ->
  pk_prefix_members pre (pk_join_names ms) = pk_join_names (map (fun m => pre ++ m) ms).
Proof. exact pk_prefix_members_join. Qed.
Print Assumptions C15_target_only_group.

(* ---------- the entry is a best-scoring retained peptide of the pair (ties: one of the best), and it
   reports that peptide, its stripped sequence, its score, its target flag and the group that owns it ---------- *)
Theorem C15_best : forall P dm order rows out,
  pk_picked P dm order rows = Ok out -> pk_order_ok P dm rows order ->
  forall e, In e out ->
    exists i r, pk_mapped P dm rows i r (pk_group e) /\ pk_reports rows e i r /\
      forall j r' g', pk_mapped P dm rows j r' g' -> pk_pair_key P g' = pk_entry_key P e ->
                      pk_score r' <= pk_escore e.
Proof. exact pk_best_peptide. Qed.
Print Assumptions C15_best.

(* ---------- shared / unknown peptides never contribute ---------- *)
(* the sequence behind an entry is always one the unique-peptide map (or the decoy map) knows *)
Theorem C15_unmapped_never : forall P dm order rows out,
  pk_picked P dm order rows = Ok out -> pk_order_ok P dm rows order ->
  forall e, In e out -> pk_group_of P (pk_dmap_of P dm) (pk_stripped e) = Some (pk_group e).
Proof. exact pk_unmapped_never. Qed.
Print Assumptions C15_unmapped_never.

Theorem C15_shared_never : forall P dm order rows out,
  pk_picked P dm order rows = Ok out -> pk_order_ok P dm rows order ->
  (forall s, In s (pk_shared P) -> pk_group_of P (pk_dmap_of P dm) s = None) ->
  forall e, In e out -> ~ In (pk_stripped e) (pk_shared P).
Proof. exact pk_shared_never. Qed.
Print Assumptions C15_shared_never.

(* with decoys in the FASTA the premise is just: no shared peptide is a key of peptide_map *)
Theorem C15_shared_premise : forall P dm,
  pk_has_decoys P = true ->
  (forall s, In s (pk_shared P) -> pk_get s (pk_pepmap P) = None) ->
  forall s, In s (pk_shared P) -> pk_group_of P (pk_dmap_of P dm) s = None.
Proof. exact pk_shared_disjoint_has_decoys. Qed.
Print Assumptions C15_shared_premise.

(* rows that are not retained do not influence which pairs are reported, nor their scores *)
Theorem C15_only_retained_matter : forall P dm1 dm2 order1 order2 rows1 rows2 out1 out2,
  pk_picked P dm1 order1 rows1 = Ok out1 -> pk_order_ok P dm1 rows1 order1 ->
  pk_picked P dm2 order2 rows2 = Ok out2 -> pk_order_ok P dm2 rows2 order2 ->
  (forall r g, (exists i, pk_mapped P dm1 rows1 i r g) <-> (exists j, pk_mapped P dm2 rows2 j r g)) ->
  forall e1, In e1 out1 ->
    exists e2, In e2 out2 /\ pk_entry_key P e2 = pk_entry_key P e1 /\ pk_escore e2 = pk_escore e1.
Proof. exact pk_retained_determine. Qed.
Print Assumptions C15_only_retained_matter.

(* ---------- protein q-values: the C01 formula over exactly these entries ---------- *)
Theorem C15_qvalues : forall P dm order rows outq,
  pk_picked_q P dm order rows = Ok outq ->
  pk_picked P dm order rows = Ok (map fst outq) /\
  forall e q, In (e, q) outq -> is_qvalue true (pk_st (map fst outq)) (pk_escore e) q.
Proof. exact pk_qvalues. Qed.
Print Assumptions C15_qvalues.

(* ---------- when the call fails / that it does not fail on clean input ---------- *)
Theorem C15_errors : forall P dm order rows e,
  pk_picked P dm order rows = Err e ->
  let ar := pk_annotate P (pk_dmap_of P dm) rows in
  (e = EKey /\ pk_has_decoys P = false /\ pk_decoy_map P dm = Err EKey) \/
  (e = EValue /\ (pk_check_mapped P ar = true \/ (pk_has_decoys P = true /\ pk_check_decoys P ar = true))) \/
  (e = EKey /\ forall i r g, ~ pk_mapped P dm rows i r g).
Proof. exact pk_picked_errors. Qed.
Print Assumptions C15_errors.

Theorem C15_accepts : forall P dm order rows,
  pk_has_decoys P = true -> rows <> [] ->
  (forall i r, nth_error rows i = Some r -> exists g, pk_mapped P dm rows i r g) ->
  exists out, pk_picked P dm order rows = Ok out.
Proof. exact pk_picked_accepts. Qed.
Print Assumptions C15_accepts.

(* ---------- non-vacuity and sanity ---------- *)
(* tests/unit_tests/test_picked_protein.py: ["A.B.C", "nABCc", "BL[+mod]AH", "A.B[1.1].C"] -> ["B","ABC","BLAH","B"] *)
Example C15_ex_unit_test :
  st_strip_all [[65;46;66;46;67]; [110;65;66;67;99]; [66;76;91;43;109;111;100;93;65;72]; [65;46;66;91;49;46;49;93;46;67]]
  = [[66]; [65;66;67]; [66;76;65;72]] ++ [[66]] /\
  st_strip_all [[97;98;99]] = [[65;66;67]].
Proof. vm_compute. split; reflexivity. Qed.

(* "K.PE[+79.97]Pm.A[" as an annotated peptide: the hypotheses of C15_strip hold for it *)
Definition ex_items : list st_item := [StRes 80; StRes 69; StMod 91 [43;55;57;46;57;55] 93; StRes 80; StLow 109].
Example C15_ex_strip_hyps :
  st_flank_ok [75] = true /\ Forall st_wf_item ex_items /\ (exists c, In c (st_pep ex_items) /\ st_is_upper c = true) /\
  st_strip_all [[75] ++ [st_DOT] ++ st_render_items ex_items ++ [st_DOT] ++ [65;91]] = [[80;69;80]].
Proof.
  split; [reflexivity|]. split.
  - repeat constructor; cbn; try reflexivity; try discriminate.
  - split; [exists 80; split; [left; reflexivity|reflexivity]|]. vm_compute. reflexivity.
Qed.

(* a database with target group "A" (peptide AK), decoy group "decoy_A" (peptide CK), shared peptide DK;
   table: K.AK.C 5 target | CK 7 decoy | DK 9 target (shared) | A[+1]K 3 target *)
Definition ex_A : str := [65].
Definition ex_dA : str := [100;101;99;111;121;95;65].
Definition ex_P : pk_proteins :=
  {| pk_pepmap := [([65;75], ex_A); ([67;75], ex_dA)]; pk_shared := [[68;75]];
     pk_protmap := [(ex_A, ex_dA)]; pk_has_decoys := true; pk_prefix := [100;101;99;111;121;95] |}.
Definition ex_rows : list pk_row :=
  [ {| pk_target := true; pk_pep := [75;46;65;75;46;67]; pk_score := 5 |};
    {| pk_target := false; pk_pep := [67;75]; pk_score := 7 |};
    {| pk_target := true; pk_pep := [68;75]; pk_score := 9 |};
    {| pk_target := true; pk_pep := [65;91;43;49;93;75]; pk_score := 3 |} ].
Definition ex_order : list nat := [3; 0; 1]%nat.

Example C15_ex_picked :
  pk_picked ex_P [] ex_order ex_rows
  = Ok [ {| pk_group := ex_dA; pk_best := [67;75]; pk_stripped := [67;75]; pk_escore := 7; pk_etarget := false |} ].
Proof. vm_compute. reflexivity. Qed.

Example C15_ex_order_ok : pk_order_ok ex_P [] ex_rows ex_order.
Proof.
  intros i r g [Hr Hg]. destruct i as [|[|[|[|i]]]]; cbn; try tauto.
  - vm_compute in Hg. discriminate.
  - destruct i; discriminate.
Qed.

Example C15_ex_qvalues :
  match pk_picked_q ex_P [] ex_order ex_rows with Ok l => map (fun eq => Qred (snd eq)) l | Err _ => [] end = [1%Q].
Proof. vm_compute. reflexivity. Qed.

(* target-only FASTA: the decoy peptide KA... is matched to AK by match_decoy and lands in "decoy_A" *)
Definition ex_P2 : pk_proteins :=
  {| pk_pepmap := [([65;75], [65;44;32;66])]; pk_shared := []; pk_protmap := [(ex_A, ex_dA)];
     pk_has_decoys := false; pk_prefix := [100;101;99;111;121;95] |}.
Example C15_ex_target_only :
  pk_picked ex_P2 [([75;65], [65;75])] [0;1]%nat
    [ {| pk_target := true; pk_pep := [65;75]; pk_score := 2 |}; {| pk_target := false; pk_pep := [75;65]; pk_score := 4 |} ]
  = Ok [ {| pk_group := [100;101;99;111;121;95;65;44;32;100;101;99;111;121;95;66]; pk_best := [75;65];
            pk_stripped := [75;65]; pk_escore := 4; pk_etarget := false |} ].
Proof. vm_compute. reflexivity. Qed.

(* the table of repo_fixes/F30-repro-repeated-row-labels.py: two per-file tables of three rows, concatenated (the caller's
   row labels are 0,1,2,0,1,2 — they do not reach the model: rows are numbered by position, as the code does since
   /repo d0dad84).  Database: P0 = AAAAK CCCCK DDDDK, P1 = EEEEK FFFFK and their decoys; scores in quarters.
   Exactly one entry per pair, each the best peptide of its pair, for this and any other complete sample order *)
Definition ex_P3 : pk_proteins :=
  {| pk_pepmap := [([65;65;65;65;75], [80;48]);
                  ([67;67;67;67;75], [80;48]);
                  ([68;68;68;68;75], [80;48]);
                  ([69;69;69;69;75], [80;49]);
                  ([70;70;70;70;75], [80;49]);
                  ([71;71;71;71;75], [100;101;99;111;121;95;80;48]);
                  ([72;72;72;72;75], [100;101;99;111;121;95;80;48]);
                  ([73;73;73;73;75], [100;101;99;111;121;95;80;48]);
                  ([76;76;76;76;75], [100;101;99;111;121;95;80;49]);
                  ([77;77;77;77;75], [100;101;99;111;121;95;80;49])];
     pk_shared := []; pk_protmap := [([80;48], [100;101;99;111;121;95;80;48]); ([80;49], [100;101;99;111;121;95;80;49])];
     pk_has_decoys := true; pk_prefix := [100;101;99;111;121;95] |}.
Definition ex_rows3 : list pk_row :=
  [ {| pk_target := true; pk_pep := [75;46;65;65;65;65;75;46;67]; pk_score := 4 |};
    {| pk_target := true; pk_pep := [67;67;91;43;49;93;67;67;75]; pk_score := 8 |};
    {| pk_target := true; pk_pep := [69;69;69;69;75]; pk_score := 12 |};
    {| pk_target := false; pk_pep := [71;71;71;71;75]; pk_score := 10 |};
    {| pk_target := false; pk_pep := [76;76;76;76;75]; pk_score := 2 |};
    {| pk_target := true; pk_pep := [70;70;70;70;75]; pk_score := 1 |} ].
Example C15_ex_concatenated_table :
  pk_picked ex_P3 [] [4;1;5;0;3;2]%nat ex_rows3
  = Ok [ {| pk_group := [100;101;99;111;121;95;80;48]; pk_best := [71;71;71;71;75]; pk_stripped := [71;71;71;71;75]; pk_escore := 10; pk_etarget := false |};
         {| pk_group := [80;49]; pk_best := [69;69;69;69;75]; pk_stripped := [69;69;69;69;75]; pk_escore := 12; pk_etarget := true |} ] /\
  pk_picked ex_P3 [] [0;1;2;3;4;5]%nat ex_rows3 = pk_picked ex_P3 [] [4;1;5;0;3;2]%nat ex_rows3.
Proof. vm_compute. split; reflexivity. Qed.

(* the sanity errors and the empty table *)
Example C15_ex_errors :
  pk_picked ex_P [] [] [] = Err EKey /\
  pk_picked ex_P [] [0]%nat [ {| pk_target := true; pk_pep := [81;81]; pk_score := 1 |} ] = Err EValue.
Proof. vm_compute. split; reflexivity. Qed.

(* ---------- target-only FASTA: peptides.match_decoy (the table dm of the theorems above) ---------- *)
(* every decoy is matched to one of the targets, of the same composition *)
Theorem C15_match_decoy_composition : forall im perm ds ts m,
  md_match im perm ds ts = Ok m ->
  forall d t, In (d, t) m -> In d ds /\ In t ts /\ md_dkey d = md_tkey im t.
Proof. exact md_match_composition. Qed.
Print Assumptions C15_match_decoy_composition.

(* what "same composition" means for peptides written in upper-case letters (the only call in mokapot passes
   stripped sequences and ignore_mods=True): the decoy is an anagram of its target *)
Theorem C15_match_decoy_anagram : forall perm ds ts m,
  md_match true perm ds ts = Ok m ->
  forall d t, In (d, t) m -> Forall (fun c => md_is_upper c = true) d -> Permutation d t.
Proof. exact md_match_anagram. Qed.
Print Assumptions C15_match_decoy_anagram.

Theorem C15_match_decoy_keys_agree : forall s,
  Forall (fun c => md_is_upper c = true) s -> md_key_mods s = md_key_plain s.
Proof. exact md_key_mods_upper. Qed.
Print Assumptions C15_match_decoy_keys_agree.

Theorem C15_match_decoy_plain_key : forall a b, md_key_plain a = md_key_plain b <-> Permutation a b.
Proof. exact md_key_plain_anagram. Qed.
Print Assumptions C15_match_decoy_plain_key.

(* no target is handed out twice: the targets of the matched decoy occurrences are a sub-multiset of the targets *)
Theorem C15_match_decoy_injective : forall im perm ds ts st,
  md_steps im perm ds ts = Ok st ->
  exists rest, Permutation (map snd (md_matched st) ++ rest) ts.
Proof. exact md_steps_injective. Qed.
Print Assumptions C15_match_decoy_injective.

(* with distinct targets (keys of peptide_map): distinct decoys get distinct targets *)
Theorem C15_match_decoy_injective_dict : forall im perm ds ts m,
  md_match im perm ds ts = Ok m -> NoDup ts -> NoDup (map fst m) /\ NoDup (map snd m).
Proof. exact md_match_injective. Qed.
Print Assumptions C15_match_decoy_injective_dict.

(* one step per decoy, in order; the i-th decoy goes without a target iff the earlier decoys of its composition
   already took every target of that composition *)
Theorem C15_match_decoy_exhausts : forall im perm ds ts st,
  md_steps im perm ds ts = Ok st ->
  map fst st = ds /\
  forall i d o, nth_error st i = Some (d, o) ->
    (o = None <-> (md_count (md_tkey im) (md_dkey d) ts <= md_count md_dkey (md_dkey d) (firstn i ds))%nat).
Proof. exact md_steps_exhausts. Qed.
Print Assumptions C15_match_decoy_exhausts.

(* ... so per composition min(#decoys, #targets) decoys are matched *)
Theorem C15_match_decoy_count : forall im perm ds ts st,
  md_steps im perm ds ts = Ok st ->
  forall k, md_count md_dkey k (map fst (md_matched st))
            = Nat.min (md_count md_dkey k ds) (md_count (md_tkey im) k ts).
Proof. exact md_steps_count. Qed.
Print Assumptions C15_match_decoy_count.

(* the returned dict against the steps: one entry per matched decoy string, holding the target of its LAST matched
   occurrence; with distinct decoys (picked_protein passes .unique()) the dict IS the list of matched pairs *)
Theorem C15_match_decoy_dict : forall im perm ds ts m st,
  md_match im perm ds ts = Ok m -> md_steps im perm ds ts = Ok st ->
  NoDup (map fst m) /\
  (forall d, In d (map fst m) <-> exists t, In (d, Some t) st) /\
  (forall d t, In (d, t) m <-> md_lookup d (rev (md_matched st)) = Some t) /\
  (NoDup ds -> m = md_matched st).
Proof. exact md_match_dict. Qed.
Print Assumptions C15_match_decoy_dict.

(* the contract of the shuffle oracle is exactly what the model needs: a permutation of the positions *)
Theorem C15_match_decoy_total : forall im perm ds ts,
  Permutation perm (seq 0 (length ts)) <-> exists m, md_match im perm ds ts = Ok m.
Proof. exact md_match_total. Qed.
Print Assumptions C15_match_decoy_total.

(* decoys AB BA AB BA CD Ab, targets BA AB AB(again) DC DDC bA: three targets of composition AB for four decoys (the
   fourth goes without), the repeated decoy AB ends with the target of its second occurrence, "Ab" (key "Ab") does
   not meet "bA" (key "Ab" as a target: sorted characters) *)
Definition ex_md_ds : list str := [[65;66]; [66;65]; [65;66]; [66;65]; [67;68]; [65;98]].
Definition ex_md_ts : list str := [[66;65]; [65;66]; [65;66]; [68;67]; [68;68;67]; [98;65]].
Definition ex_md_perm : list nat := [4; 0; 5; 2; 1; 3]%nat.
Example C15_ex_match_decoy :
  md_steps true ex_md_perm ex_md_ds ex_md_ts
  = Ok [([65;66], Some [65;66]); ([66;65], Some [66;65]); ([65;66], Some [65;66]); ([66;65], None);
        ([67;68], Some [68;67]); ([65;98], Some [98;65])] /\
  md_match true ex_md_perm ex_md_ds ex_md_ts
  = Ok [([65;66], [65;66]); ([66;65], [66;65]); ([67;68], [68;67]); ([65;98], [98;65])] /\
  Permutation ex_md_perm (seq 0 (length ex_md_ts)) /\
  md_match true [0; 0; 1; 2; 3; 4]%nat ex_md_ds ex_md_ts = Err EValue /\
  md_dkey [65;99;66] = [65;99;66] /\ md_tkey true [65;99;66] = [65;66;99].
Proof.
  split; [vm_compute; reflexivity|]. split; [vm_compute; reflexivity|].
  split; [apply (proj1 (md_is_perm_spec _ _)); vm_compute; reflexivity|].
  split; [vm_compute; reflexivity|]. split; vm_compute; reflexivity.
Qed.
