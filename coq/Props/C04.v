(* C04 — end-to-end FDR control.  Statements only.
   The property has a statistical premise (null targets exchangeable with decoys) and an arbitrary
   learner in the middle; what is proved is the chain of facts its own "because" rests on, plus the
   finite-sample theorem for the estimator with the +1:
   (1) the training table of a fold model is unchanged by ANY modification of the held-out fold, so a
       learner of arbitrary capacity cannot have seen a held-out PSM or its decoy competitors
       (with C02_train_disjoint and C02_routing);
   (2) q-values are the C01 formula, with the +1, evaluated after competition on exactly the retained rows;
   (3) for a ranked list in which every position is a correct target or a null whose target/decoy label
       is a fair coin, the false discovery proportion of the TDC accept set, summed over all 2^m
       labellings, is at most alpha * 2^m — for every arrangement, every m and every alpha >= 0. *)
From Mokaverif Require Import Model.Base Model.Tdc Model.Brew Model.Confidence Model.Fdr.
From Mokaverif Require Import Proofs.TdcP Proofs.BrewP Proofs.ConfidenceP Proofs.FdrP.
Open Scope nat_scope.

Theorem C04_noninterference : forall (row : Type) (tbl tbl' : list row) fold,
  length tbl = length tbl' ->
  (forall i, ~ In i fold -> nth_error tbl i = nth_error tbl' i) ->
  map (nth_error tbl) (bw_complement (length tbl) fold)
  = map (nth_error tbl') (bw_complement (length tbl') fold).
Proof. exact @train_noninterference. Qed.
Print Assumptions C04_noninterference.

Theorem C04_competition_first_plus_one : forall c dedup n rows j tg dc,
  nth j (cf_confidence c dedup n rows) ([], []) = (tg, dc) -> (j < n)%nat ->
  let lvl := nth j (cf_levels cf_row cf_score cf_lkey c dedup dedup n rows) [] in
  let rq := combine lvl (cf_qvalues lvl) in
  tg = filter (fun p => cf_target (fst p)) rq /\
  dc = filter (fun p => negb (cf_target (fst p))) rq /\
  length (cf_qvalues lvl) = length lvl /\
  forall i, (i < length lvl)%nat ->
    is_qvalue true (combine (map cf_score lvl) (map cf_target lvl)) (cf_score (nth i lvl (Build_cf_row 0 0 [] false 0)))
              (nth i (cf_qvalues lvl) 1%Q).
Proof. exact confidence_outputs. Qed.
Print Assumptions C04_competition_first_plus_one.

(* E[ V / (1 + D) ] <= 1 at the TDC stopping rule (the supermartingale bound, by classes of labellings
   with v null targets: each class contributes at most C(m, v-1)) *)
Theorem C04_ratio_bound : forall alpha ri,
  (fd_qsum (map (fd_ratio alpha ri) (fd_labs (fd_count_n ri))) <= inject_Z (Z.of_nat (2 ^ fd_count_n ri)))%Q.
Proof. exact ratio_total. Qed.
Print Assumptions C04_ratio_bound.

Theorem C04_class_bound : forall alpha ri v,
  (A alpha ri v <= inject_Z (Z.of_nat (bnd (fd_count_n ri) v)))%Q.
Proof. exact class_bound. Qed.
Print Assumptions C04_class_bound.

(* E[FDP] <= alpha *)
Theorem C04_fdr_control : forall alpha ri, (0 <= alpha)%Q ->
  (fd_qsum (map (fd_fdp alpha ri) (fd_labs (fd_count_n ri))) <= alpha * inject_Z (Z.of_nat (2 ^ fd_count_n ri)))%Q.
Proof. exact fdr_control. Qed.
Print Assumptions C04_fdr_control.

(* the accept set of the theorem is exactly the set of targets whose C01 q-value (tdc_core) is within
   alpha, for every list, labelling and alpha < 1 (for alpha >= 1 the bound FDP <= 1 <= alpha is trivial) *)
Theorem C04_accept_set_is_tdc : forall alpha ri w, (alpha < 1)%Q -> length w = fd_count_n ri ->
  (fdp_via_tdc alpha ri w == fd_fdp alpha ri w)%Q.
Proof. exact via_tdc_is_fdp. Qed.
Print Assumptions C04_accept_set_is_tdc.

(* hence: E[FDP] <= alpha for the FDP of 'targets with C01 q-value <= alpha' *)
Theorem C04_fdr_control_tdc : forall alpha ri, (0 <= alpha)%Q -> (alpha < 1)%Q ->
  (fd_qsum (map (fdp_via_tdc alpha ri) (fd_labs (fd_count_n ri))) <= alpha * inject_Z (Z.of_nat (2 ^ fd_count_n ri)))%Q.
Proof. exact fdr_control_tdc. Qed.
Print Assumptions C04_fdr_control_tdc.

(* the same, re-checked by computation: exhaustive for all arrangements
   of up to 6 positions, all labellings, alpha in {1/100, 1/10, 1/4, 1/3, 1/2, 2/3, 9/10} (bounded: the
   general statement is not proved; the correspondence check repeats it against the real tdc) *)
Theorem C04_accept_set_is_tdc_bounded : bridge_sweep 6 = true.
Proof. exact bridge_bounded. Qed.
Print Assumptions C04_accept_set_is_tdc_bounded.

(* non-vacuity: 3 correct targets, 4 nulls; expected FDP over the 16 labellings at alpha = 1/2 *)
Example C04_example :
  let ri := [FdNull; FdCorrect; FdNull; FdNull; FdCorrect; FdNull; FdCorrect] in
  Qred (fd_qsum (map (fd_fdp (1#2) ri) (fd_labs 4))) = (466 # 105)%Q /\
  (466 # 105 <= (1#2) * 16)%Q /\
  Qred (fd_qsum (map (fd_ratio (1#2) ri) (fd_labs 4))) = 15%Q.
Proof. vm_compute. repeat split; discriminate. Qed.
