(* C04 — end-to-end FDR control.  Statements only.
   The property has a statistical premise (null targets exchangeable with decoys) and an arbitrary
   learner in the middle; what is proved is the chain of facts its own "because" rests on, plus the
   finite-sample theorem for the estimator with the +1:
   (1) the training table of a fold model is unchanged by ANY modification of the held-out fold, so a
       learner of arbitrary capacity cannot have seen a held-out PSM or its decoy competitors
       (with C02_train_disjoint and C02_routing);
   (2) q-values are the C01 formula, with the +1, evaluated after competition on exactly the retained rows;
   (3) for a ranked list in which every position is a correct target or a null whose target/decoy label
       is a fair coin, the false discovery proportion of the TDC accept set, summed over all 2^m
       labellings, is at most alpha * 2^m — for every arrangement, every m and every alpha >= 0. *)
From Mokaverif Require Import Model.Base Model.Tdc Model.Brew Model.Confidence Model.Fdr.
From Coq Require Import Permutation.
From Mokaverif Require Import Proofs.TdcP Proofs.BrewP Proofs.BrewEnsP Proofs.ConfidenceP Proofs.FdrP.
Open Scope nat_scope.

Theorem C04_noninterference : forall (row : Type) (tbl tbl' : list row) fold,
  length tbl = length tbl' ->
  (forall i, ~ In i fold -> nth_error tbl i = nth_error tbl' i) ->
  map (nth_error tbl) (bw_complement (length tbl) fold)
  = map (nth_error tbl') (bw_complement (length tbl') fold).
Proof. exact @train_noninterference. Qed.
Print Assumptions C04_noninterference.

Theorem C04_competition_first_plus_one : forall c dedup n rows j tg dc,
  nth j (cf_confidence c dedup n rows) ([], []) = (tg, dc) -> (j < n)%nat ->
  let lvl := nth j (cf_levels cf_row cf_score cf_lkey c dedup dedup n rows) [] in
  let rq := combine lvl (cf_qvalues lvl) in
  tg = filter (fun p => cf_target (fst p)) rq /\
  dc = filter (fun p => negb (cf_target (fst p))) rq /\
  length (cf_qvalues lvl) = length lvl /\
  forall i, (i < length lvl)%nat ->
    is_qvalue true (combine (map cf_score lvl) (map cf_target lvl)) (cf_score (nth i lvl (Build_cf_row 0 0 [] false 0)))
              (nth i (cf_qvalues lvl) 1%Q).
Proof. exact confidence_outputs. Qed.
Print Assumptions C04_competition_first_plus_one.

(* E[ V / (1 + D) ] <= 1 at the TDC stopping rule (the supermartingale bound, by classes of labellings
   with v null targets: each class contributes at most C(m, v-1)) *)
Theorem C04_ratio_bound : forall alpha ri,
  (fd_qsum (map (fd_ratio alpha ri) (fd_labs (fd_count_n ri))) <= inject_Z (Z.of_nat (2 ^ fd_count_n ri)))%Q.
Proof. exact ratio_total. Qed.
Print Assumptions C04_ratio_bound.

Theorem C04_class_bound : forall alpha ri v,
  (A alpha ri v <= inject_Z (Z.of_nat (bnd (fd_count_n ri) v)))%Q.
Proof. exact class_bound. Qed.
Print Assumptions C04_class_bound.

(* E[FDP] <= alpha *)
Theorem C04_fdr_control : forall alpha ri, (0 <= alpha)%Q ->
  (fd_qsum (map (fd_fdp alpha ri) (fd_labs (fd_count_n ri))) <= alpha * inject_Z (Z.of_nat (2 ^ fd_count_n ri)))%Q.
Proof. exact fdr_control. Qed.
Print Assumptions C04_fdr_control.

(* the accept set of the theorem is exactly the set of targets whose C01 q-value (tdc_core) is within
   alpha, for every list, labelling and alpha < 1 (for alpha >= 1 the bound FDP <= 1 <= alpha is trivial) *)
Theorem C04_accept_set_is_tdc : forall alpha ri w, (alpha < 1)%Q -> length w = fd_count_n ri ->
  (fdp_via_tdc alpha ri w == fd_fdp alpha ri w)%Q.
Proof. exact via_tdc_is_fdp. Qed.
Print Assumptions C04_accept_set_is_tdc.

(* hence: E[FDP] <= alpha for the FDP of 'targets with C01 q-value <= alpha' *)
Theorem C04_fdr_control_tdc : forall alpha ri, (0 <= alpha)%Q -> (alpha < 1)%Q ->
  (fd_qsum (map (fdp_via_tdc alpha ri) (fd_labs (fd_count_n ri))) <= alpha * inject_Z (Z.of_nat (2 ^ fd_count_n ri)))%Q.
Proof. exact fdr_control_tdc. Qed.
Print Assumptions C04_fdr_control_tdc.

(* the same, re-checked by computation: exhaustive for all arrangements
   of up to 6 positions, all labellings, alpha in {1/100, 1/10, 1/4, 1/3, 1/2, 2/3, 9/10} (bounded: the
   general statement is not proved; the correspondence check repeats it against the real tdc) *)
Theorem C04_accept_set_is_tdc_bounded : bridge_sweep 6 = true.
Proof. exact bridge_bounded. Qed.
Print Assumptions C04_accept_set_is_tdc_bounded.

(* ---- the known finding brew:ensemble-scores-training-rows, formally (R2.22).  The chain above rests on (1): a PSM is
   only ever scored by a model that has not seen it.  With ensemble=True that premise is FALSE: for k >= 2 folds every
   PSM r has a fold g, and each of the k - 1 models f <> g
   (i) was fitted on r and on every PSM of r's spectrum (no training cap: the training rows of fold f are the whole
       complement of fold f; with a cap, whenever the sub-sample kept them), and
   (ii) enters r's final score with weight 1 / k — (value of model f + values of the others) / k — whatever order
       the fitted models (fold number f + 1, decision values) were delivered in.
   The statistical consequence (FDP above alpha with a memorising learner) is the known finding of the harness; this
   is its mechanism. *)
Theorem C04_ensemble_leak : forall keys k folds r, 2 <= k -> bw_split keys k = Ok folds -> r < length keys ->
  exists g, g < k /\ fold_index folds r g /\
    length (filter (fun f => negb (Nat.eqb f g)) (seq 0 k)) = k - 1 /\
    forall f, f < k -> f <> g ->
      (forall r', r' < length keys -> nth r' keys 0%Z = nth r keys 0%Z ->
         In r' (nth f (bw_train_sets folds (length keys)) [])) /\
      (forall c fitted out raw_f, 1 <= c -> bw_brew_scores_ens c k keys fitted = Ok out ->
         In (S f, raw_f) fitted ->
         exists others, Permutation (raw_f :: others) (map snd fitted) /\
           (nth r out 0 == (inject_Z (nth r raw_f 0%Z) + inject_Z (ens_zsum (map (fun rm => nth r rm 0%Z) others)))
                           / inject_Z (Z.of_nat (length fitted)))%Q).
Proof. exact ensemble_leak. Qed.
Print Assumptions C04_ensemble_leak.

(* dependence, not just occurrence: if one model changes its mind about row r by d, the final score of r moves by
   d / k; in particular it moves whenever d <> 0 *)
Theorem C04_ensemble_score_depends : forall c k keys pre post f raw_f raw_f' out out' r,
  1 <= c -> r < length keys ->
  bw_brew_scores_ens c k keys (pre ++ (f, raw_f) :: post) = Ok out ->
  bw_brew_scores_ens c k keys (pre ++ (f, raw_f') :: post) = Ok out' ->
  (nth r out' 0 - nth r out 0 ==
   (inject_Z (nth r raw_f' 0%Z) - inject_Z (nth r raw_f 0%Z)) / inject_Z (Z.of_nat (length pre + S (length post))))%Q
  /\ (nth r raw_f' 0%Z <> nth r raw_f 0%Z -> ~ (nth r out' 0 == nth r out 0)%Q).
Proof. exact ens_score_depends. Qed.
Print Assumptions C04_ensemble_score_depends.

(* the negation of the held-out guarantee (C02_heldout_per_fold is the positive statement for the per-fold mode) *)
Theorem C04_ensemble_heldout_refuted : forall keys k folds, 2 <= k -> 1 <= length keys -> bw_split keys k = Ok folds ->
  ~ heldout_ok (length keys) k (fun _ _ => true) (bw_train_sets folds (length keys)).
Proof. exact ens_heldout_refuted. Qed.
Print Assumptions C04_ensemble_heldout_refuted.

(* the explicit witness: 7 PSMs, 4 spectra, 3 folds; PSM 3 lies in fold 2 (0-based); the models of folds 0 and 1 were
   fitted on it; when the model of fold 0 changes its value on PSM 3 from 6 to 60 (it has seen the label), the
   ensemble score of PSM 3 moves from 12/3 to 66/3 — while the per-fold scores (uncalibrated) do not move at all *)
Example C04_ensemble_leak_refuted :
  let keys := [5;3;5;9;3;5;1]%Z in
  let tg := [true;true;false;true;false;true;false] in
  let A := [9;8;7;6;5;4;3]%Z in let A' := [9;8;7;60;5;4;3]%Z in
  let B := [1;2;3;4;5;6;7]%Z in let C := [2;2;2;2;9;9;9]%Z in
  bw_split keys 3 = Ok [[6;1;4]; [0;2;5]; [3]] /\
  nth 3 (bw_fold_of [[6;1;4]; [0;2;5]; [3]] 7) 0 = 2 /\
  In 3 (nth 0 (bw_train_sets [[6;1;4]; [0;2;5]; [3]] 7) []) /\ In 3 (nth 1 (bw_train_sets [[6;1;4]; [0;2;5]; [3]] 7) []) /\
  bw_brew_scores_ens 2 3 keys [(1, A); (2, B); (3, C)] = Ok [12#3; 12#3; 12#3; 12#3; 19#3; 19#3; 19#3]%Q /\
  bw_brew_scores_ens 2 3 keys [(1, A'); (2, B); (3, C)] = Ok [12#3; 12#3; 12#3; 66#3; 19#3; 19#3; 19#3]%Q /\
  bw_brew_scores false 2 3 (1#2)%Q keys tg [A; B; C] = bw_brew_scores false 2 3 (1#2)%Q keys tg [A'; B; C] /\
  ~ (forall r f, r < 7 -> f < 3 -> ~ In r (nth f (bw_train_sets [[6;1;4]; [0;2;5]; [3]] 7) [])).
Proof.
  vm_compute. repeat split; try (left; reflexivity); try (right; left; reflexivity); try (right; right; left; reflexivity).
  intros H. apply (H 3 0); [repeat constructor|repeat constructor|]. right. right. left. reflexivity.
Qed.

(* non-vacuity: 3 correct targets, 4 nulls; expected FDP over the 16 labellings at alpha = 1/2 *)
Example C04_example :
  let ri := [FdNull; FdCorrect; FdNull; FdNull; FdCorrect; FdNull; FdCorrect] in
  Qred (fd_qsum (map (fd_fdp (1#2) ri) (fd_labs 4))) = (466 # 105)%Q /\
  (466 # 105 <= (1#2) * 16)%Q /\
  Qred (fd_qsum (map (fd_ratio (1#2) ri) (fd_labs 4))) = 15%Q.
Proof. vm_compute. repeat split; discriminate. Qed.
