(* C10 — PIN / Parquet parsing.  Statements only; proofs in Proofs/PinColsP.v. *)
From Mokaverif Require Import Model.Base Model.PinCols Proofs.PinColsP.
Open Scope nat_scope.

(* whatever the number of features and the column-scan chunk size, the identifier columns
   (spectrum key + label) end up together at the end of one chunk, every feature in exactly
   one chunk, order preserved *)
Theorem C10_ids_together : forall (A : Type) (data ids : list A) c, 1 <= c -> ids <> [] ->
  exists sls s0, pc_chunks_with_ids data ids c = sls ++ [s0 ++ ids] /\ concat sls ++ s0 = data.
Proof. exact @chunks_ids_together. Qed.
Print Assumptions C10_ids_together.

(* parsing does not depend on the column-scan chunk size: it equals a chunk-free specification *)
Theorem C10_chunk_free : forall cs columns o lb rows nan, 1 <= cs ->
  pc_read cs columns o lb rows nan = pc_read_spec columns o lb rows nan.
Proof. exact read_chunk_free. Qed.
Print Assumptions C10_chunk_free.

(* features = exactly the non-reserved columns without a missing value, in file order *)
Theorem C10_features : forall cs columns o lb rows nan d, 1 <= cs ->
  pc_read cs columns o lb rows nan = Ok d ->
  d_features d = filter (fun c => negb (mem_str c (d_metadata d)) && negb (mem_str c nan)) columns.
Proof. exact read_features. Qed.
Print Assumptions C10_features.

(* spectrum key = scan number plus the available file / retention-time / mass columns *)
Theorem C10_spectrum : forall cs columns o lb rows nan d, 1 <= cs ->
  pc_read cs columns o lb rows nan = Ok d ->
  d_spectrum d = pc_somes [d_filename d; Some (d_scan d); d_rt d; d_expmass d].
Proof. exact read_spectrum. Qed.
Print Assumptions C10_spectrum.

(* one entry per input row in file order; targets exactly the rows labelled 1 / true; no row dropped *)
Theorem C10_rows : forall cs columns o lb rows nan d, 1 <= cs ->
  pc_read cs columns o lb rows nan = Ok d ->
  d_spectra_rows d = map (fun r => map (pc_cell columns r) (d_spectrum d)) rows /\
  d_targets d = map (fun r => let v := pc_cell columns r (d_target d) in
                              if lb then negb (v =? 0)%Z else (v =? 1)%Z) rows /\
  length (d_targets d) = length rows.
Proof. exact read_rows. Qed.
Print Assumptions C10_rows.

(* a reserved column is the unique case-insensitive match; otherwise ValueError *)
Theorem C10_required : forall col columns,
  match pc_find_required col columns with
  | Ok c => filter (fun x => str_eqb (pc_lower x) (pc_lower col)) columns = [c]
  | Err e => e = EValue /\ length (filter (fun x => str_eqb (pc_lower x) (pc_lower col)) columns) <> 1
  end.
Proof. exact find_required_spec. Qed.
Print Assumptions C10_required.

Theorem C10_case : forall col columns columns',
  map pc_lower columns = map pc_lower columns' ->
  match pc_find_required col columns, pc_find_required col columns' with
  | Ok c, Ok c' => pc_lower c = pc_lower c'
  | Err _, Err _ => True
  | _, _ => False
  end.
Proof. exact find_required_case. Qed.
Print Assumptions C10_case.

(* out-of-range labels are rejected, and only those *)
Theorem C10_label_error : forall labels,
  pc_convert_targets false labels = Err EValue <-> exists v, In v labels /\ (v < -1 \/ 1 < v)%Z.
Proof. exact convert_targets_err. Qed.
Print Assumptions C10_label_error.

(* well-formed input parses *)
Theorem C10_success : forall cs columns o lb rows nan k targets, 1 <= cs ->
  pc_classify columns o = Ok k ->
  pc_convert_targets lb (map (fun r => pc_cell columns r (k_label k)) rows) = Ok targets ->
  exists d, pc_read cs columns o lb rows nan = Ok d.
Proof. exact read_success. Qed.
Print Assumptions C10_success.

(* non-vacuity: 18 features + 3 identifier columns at chunk size 19 (the case that used to fail),
   a NaN feature is dropped, -1 labels are decoys *)
Definition s (l : list Z) : str := l.
Definition ex_cols : list str :=
  [ [83;112;101;99;73;100]; [76;97;98;101;108]; [83;99;97;110;78;114]; [69;120;112;77;97;115;115];
    [102;49]; [102;50]; [80;101;112;116;105;100;101]; [80;114;111;116;101;105;110;115] ]%Z.
Definition ex_opts := {| o_filename := None; o_calcmass := None; o_expmass := None; o_rt := None; o_charge := None |}.
Example C10_example :
  match pc_read 3 ex_cols ex_opts false [[1;1;7;9;0;0;5;6];[2;-1;8;9;0;0;5;6]]%Z [[102;50]%Z] with
  | Ok d => d_features d = [[102;49]%Z] /\ d_targets d = [true; false] /\
            d_spectra_rows d = [[7;9];[8;9]]%Z /\ d_spectrum d = [[83;99;97;110;78;114];[69;120;112;77;97;115;115]]%Z
  | Err _ => False
  end.
Proof. vm_compute. repeat split. Qed.
Example C10_example_ids_together :
  pc_chunks_with_ids (seq 0 18) [100;101;102] 19 = [seq 0 18; [100;101;102]] /\
  pc_chunks_with_ids (seq 0 4) [100;101;102] 2 = [[0;1];[2;3];[100;101;102]].
Proof. vm_compute. split; reflexivity. Qed.
