(* C10 — PIN / Parquet parsing.  Statements only; proofs in Proofs/PinColsP.v. *)
From Mokaverif Require Import Model.Base Model.PinCols Proofs.PinColsP.
Open Scope nat_scope.

(* whatever the number of features and the column-scan chunk size, the identifier columns
   (spectrum key + label) end up together at the end of one chunk, every feature in exactly
   one chunk, order preserved *)
Theorem C10_ids_together : forall (A : Type) (data ids : list A) c, 1 <= c -> ids <> [] ->
  exists sls s0, pc_chunks_with_ids data ids c = sls ++ [s0 ++ ids] /\ concat sls ++ s0 = data.
Proof. exact @chunks_ids_together. Qed.
Print Assumptions C10_ids_together.

(* parsing does not depend on the column-scan chunk size: it equals a chunk-free specification *)
Theorem C10_chunk_free : forall cs columns o lb rows nan, 1 <= cs ->
  pc_read cs columns o lb rows nan = pc_read_spec columns o lb rows nan.
Proof. exact read_chunk_free. Qed.
Print Assumptions C10_chunk_free.

(* features = exactly the non-reserved columns without a missing value, in file order *)
Theorem C10_features : forall cs columns o lb rows nan d, 1 <= cs ->
  pc_read cs columns o lb rows nan = Ok d ->
  d_features d = filter (fun c => negb (mem_str c (d_metadata d)) && negb (mem_str c nan)) columns.
Proof. exact read_features. Qed.
Print Assumptions C10_features.

(* spectrum key = scan number plus the available file / retention-time / mass columns *)
Theorem C10_spectrum : forall cs columns o lb rows nan d, 1 <= cs ->
  pc_read cs columns o lb rows nan = Ok d ->
  d_spectrum d = pc_somes [d_filename d; Some (d_scan d); d_rt d; d_expmass d].
Proof. exact read_spectrum. Qed.
Print Assumptions C10_spectrum.

(* one entry per input row in file order; targets exactly the rows labelled 1 / true; no row dropped *)
Theorem C10_rows : forall cs columns o lb rows nan d, 1 <= cs ->
  pc_read cs columns o lb rows nan = Ok d ->
  d_spectra_rows d = map (fun r => map (pc_cell columns r) (d_spectrum d)) rows /\
  d_targets d = map (fun r => let v := pc_cell columns r (d_target d) in
                              if lb then negb (v =? 0)%Z else (v =? 1)%Z) rows /\
  length (d_targets d) = length rows.
Proof. exact read_rows. Qed.
Print Assumptions C10_rows.

(* a reserved column is the unique case-insensitive match; otherwise ValueError *)
Theorem C10_required : forall col columns,
  match pc_find_required col columns with
  | Ok c => filter (fun x => str_eqb (pc_lower x) (pc_lower col)) columns = [c]
  | Err e => e = EValue /\ length (filter (fun x => str_eqb (pc_lower x) (pc_lower col)) columns) <> 1
  end.
Proof. exact find_required_spec. Qed.
Print Assumptions C10_required.

Theorem C10_case : forall col columns columns',
  map pc_lower columns = map pc_lower columns' ->
  match pc_find_required col columns, pc_find_required col columns' with
  | Ok c, Ok c' => pc_lower c = pc_lower c'
  | Err _, Err _ => True
  | _, _ => False
  end.
Proof. exact find_required_case. Qed.
Print Assumptions C10_case.

(* out-of-range labels are rejected, and only those *)
Theorem C10_label_error : forall labels,
  pc_convert_targets false labels = Err EValue <-> exists v, In v labels /\ (v < -1 \/ 1 < v)%Z.
Proof. exact convert_targets_err. Qed.
Print Assumptions C10_label_error.

(* well-formed input parses *)
Theorem C10_success : forall cs columns o lb rows nan k targets, 1 <= cs ->
  pc_classify columns o = Ok k ->
  pc_convert_targets lb (map (fun r => pc_cell columns r (k_label k)) rows) = Ok targets ->
  exists d, pc_read cs columns o lb rows nan = Ok d.
Proof. exact read_success. Qed.
Print Assumptions C10_success.

(* ---- the row chunks of the missing-value scan (R2.19): cells carry a missingness bit, the model
   [pc_read_rc empty_chunk chunk_rows chunk_cols] reads every column slice row chunk by row chunk ---- *)

(* the two interfaces of the model agree: [nan_cols] is the view "columns with a missing cell" *)
Theorem C10_nan_cols_view : forall columns rowsm c,
  In c (pc_nan_cols columns rowsm) <-> exists rm, In rm rowsm /\ pc_miss columns rm c = true.
Proof. exact nan_cols_spec. Qed.
Print Assumptions C10_nan_cols_view.

Theorem C10_rc_as_read : forall ec cr cc columns o lb rowsm,
  1 <= cr -> rowsm <> [] \/ ec = true ->
  pc_read_rc ec cr cc columns o lb rowsm
  = pc_read cc columns o lb (map fst rowsm) (pc_nan_cols columns rowsm).
Proof. exact read_rc_as_read. Qed.
Print Assumptions C10_rc_as_read.

(* C10_chunk_free for both chunk sizes: parsing depends neither on the row-chunk nor on the column-chunk
   size of the missing-value scan (a table without rows: provided the reader yields an empty chunk) *)
Theorem C10_rc_chunk_free : forall ec cr cc columns o lb rowsm,
  1 <= cr -> 1 <= cc -> rowsm <> [] \/ ec = true ->
  pc_read_rc ec cr cc columns o lb rowsm
  = pc_read_spec columns o lb (map fst rowsm) (pc_nan_cols columns rowsm).
Proof. exact read_rc_chunk_free. Qed.
Print Assumptions C10_rc_chunk_free.

(* the same for ANY partition of the rows into at least one row batch (batches of unequal or zero length) *)
Theorem C10_rc_any_partition : forall cc k columns lb chunks,
  1 <= cc -> class_ok k -> chunks <> [] ->
  pc_scan_with (pc_slice_rc columns k) cc k columns lb chunks
  = pc_scan_spec k columns lb (map fst (concat chunks)) (pc_nan_cols columns (concat chunks)).
Proof. exact scan_parts_chunk_free. Qed.
Print Assumptions C10_rc_any_partition.

(* what the chunk-free result is, cell by cell: dropped = exactly the non-reserved columns with a missing
   cell anywhere in the file; one spectra entry per input row, in file order, with that row's identifier
   cells; targets = the converted labels of all rows *)
Theorem C10_rc_result : forall ec cr cc columns o lb rowsm d,
  1 <= cr -> 1 <= cc -> rowsm <> [] \/ ec = true ->
  pc_read_rc ec cr cc columns o lb rowsm = Ok d ->
  d_features d = filter (fun c => negb (mem_str c (d_metadata d)) &&
                                  negb (existsb (fun rm => pc_miss columns rm c) rowsm)) columns /\
  d_spectra_rows d = map (fun rm => map (pc_cell columns (fst rm)) (d_spectrum d)) rowsm /\
  d_targets d = map (fun rm => let v := pc_cell columns (fst rm) (d_target d) in
                               if lb then negb (v =? 0)%Z else (v =? 1)%Z) rowsm /\
  length (d_spectra_rows d) = length rowsm /\ length (d_targets d) = length rowsm.
Proof. exact read_rc_result. Qed.
Print Assumptions C10_rc_result.

Theorem C10_rc_success : forall ec cr cc columns o lb rowsm k targets,
  1 <= cr -> 1 <= cc -> rowsm <> [] \/ ec = true ->
  pc_classify columns o = Ok k ->
  pc_convert_targets lb (map (fun rm => pc_cell columns (fst rm) (k_label k)) rowsm) = Ok targets ->
  exists d, pc_read_rc ec cr cc columns o lb rowsm = Ok d.
Proof. exact read_rc_success. Qed.
Print Assumptions C10_rc_success.

(* the premise "at least one row chunk" cannot be dropped: a table without rows read by a reader that
   yields no chunk (Parquet) is rejected (known finding read_pin:parquet-zero-rows), with the single
   empty chunk of the text readers it parses into a dataset without entries *)
Theorem C10_rc_no_chunk : forall cr cc columns o lb k,
  pc_classify columns o = Ok k -> pc_read_rc false cr cc columns o lb [] = Err EValue.
Proof. exact read_rc_no_chunk. Qed.
Print Assumptions C10_rc_no_chunk.

Theorem C10_rc_empty_chunk : forall cr cc columns o lb k,
  1 <= cr -> 1 <= cc -> pc_classify columns o = Ok k ->
  exists d, pc_read_rc true cr cc columns o lb [] = Ok d /\ d_spectra_rows d = [] /\ d_targets d = [].
Proof. exact read_rc_empty_chunk. Qed.
Print Assumptions C10_rc_empty_chunk.

(* row-chunk size 0 is an error (pandas / pyarrow: ValueError) *)
Theorem C10_rc_zero : forall ec cc k columns lb rowsm, pc_scan_rc ec 0 cc k columns lb rowsm = Err EValue.
Proof. exact scan_rc_zero. Qed.
Print Assumptions C10_rc_zero.

(* row-chunk sizes that reach the end of the table are interchangeable (the harness caps 2000000) *)
Theorem C10_rc_large : forall (A : Type) ec c1 c2 (rows : list A),
  1 <= c1 -> 1 <= c2 -> length rows <= c1 -> length rows <= c2 ->
  pc_row_chunks ec c1 rows = pc_row_chunks ec c2 rows.
Proof. exact @row_chunks_large. Qed.
Print Assumptions C10_rc_large.

(* the early exit of seeded/C10-4 (leave the row-chunk loop once every column of the slice is known to be
   incomplete) is NOT chunk-independent: a table with three rows whose spectra table has one entry when
   read in three row chunks and three entries when read in one, whereas the model of the code agrees *)
Theorem C10_rc_early_exit_refuted :
  exists columns o lb rowsm cc d1 d3,
    pc_read_early true 1 cc columns o lb rowsm = Ok d1 /\
    pc_read_early true 3 cc columns o lb rowsm = Ok d3 /\
    length (d_spectra_rows d1) = 1 /\ length (d_spectra_rows d3) = 3 /\ length rowsm = 3 /\
    pc_read_rc true 1 cc columns o lb rowsm = pc_read_rc true 3 cc columns o lb rowsm.
Proof. exact early_exit_refuted. Qed.
Print Assumptions C10_rc_early_exit_refuted.

(* non-vacuity: 18 features + 3 identifier columns at chunk size 19 (the case that used to fail),
   a NaN feature is dropped, -1 labels are decoys *)
Definition s (l : list Z) : str := l.
Definition ex_cols : list str :=
  [ [83;112;101;99;73;100]; [76;97;98;101;108]; [83;99;97;110;78;114]; [69;120;112;77;97;115;115];
    [102;49]; [102;50]; [80;101;112;116;105;100;101]; [80;114;111;116;101;105;110;115] ]%Z.
Definition ex_opts := {| o_filename := None; o_calcmass := None; o_expmass := None; o_rt := None; o_charge := None |}.
Example C10_example :
  match pc_read 3 ex_cols ex_opts false [[1;1;7;9;0;0;5;6];[2;-1;8;9;0;0;5;6]]%Z [[102;50]%Z] with
  | Ok d => d_features d = [[102;49]%Z] /\ d_targets d = [true; false] /\
            d_spectra_rows d = [[7;9];[8;9]]%Z /\ d_spectrum d = [[83;99;97;110;78;114];[69;120;112;77;97;115;115]]%Z
  | Err _ => False
  end.
Proof. vm_compute. repeat split. Qed.
Example C10_example_ids_together :
  pc_chunks_with_ids (seq 0 18) [100;101;102] 19 = [seq 0 18; [100;101;102]] /\
  pc_chunks_with_ids (seq 0 4) [100;101;102] 2 = [[0;1];[2;3];[100;101;102]].
Proof. vm_compute. split; reflexivity. Qed.

(* the trigger shape of seeded/C10-4: 2 features + 3 identifier columns at column-chunk size 2 give the
   slices [f1;f2] and [ScanNr;ExpMass;Label] (identifier columns only); three rows read in three row
   chunks (chunk_rows = 1); f2 is missing in the second row chunk only.  All three rows are kept, f2 is
   dropped; every row-chunk size gives the same dataset, and it is the one of the [nan_cols] interface. *)
Example C10_example_rc_slices :
  pc_chunks_with_ids [[102;49];[102;50]]%Z [[83;99;97;110;78;114];[69;120;112;77;97;115;115];[76;97;98;101;108]]%Z 2
  = [[[102;49];[102;50]]; [[83;99;97;110;78;114];[69;120;112;77;97;115;115];[76;97;98;101;108]]]%Z /\
  pc_row_chunks true 1 rc_ex_rows = map (fun r => [r]) rc_ex_rows /\ length (pc_row_chunks true 1 rc_ex_rows) = 3.
Proof. vm_compute. repeat split. Qed.
Example C10_example_rc :
  match pc_read_rc true 1 2 rc_ex_cols rc_ex_opts false rc_ex_rows with
  | Ok d => d_features d = [[102;49]%Z] /\ d_targets d = [true; false; true] /\
            d_spectra_rows d = [[7;9];[8;9];[6;4]]%Z /\
            d_spectrum d = [[83;99;97;110;78;114];[69;120;112;77;97;115;115]]%Z /\
            pc_read_rc true 2 2 rc_ex_cols rc_ex_opts false rc_ex_rows = Ok d /\
            pc_read_rc true 3 2 rc_ex_cols rc_ex_opts false rc_ex_rows = Ok d /\
            pc_read_rc true 1 19 rc_ex_cols rc_ex_opts false rc_ex_rows = Ok d /\
            pc_read_rc false 7 1 rc_ex_cols rc_ex_opts false rc_ex_rows = Ok d /\
            pc_read 2 rc_ex_cols rc_ex_opts false (map fst rc_ex_rows) (pc_nan_cols rc_ex_cols rc_ex_rows) = Ok d /\
            pc_nan_cols rc_ex_cols rc_ex_rows = [[102;50]%Z]
  | Err _ => False
  end.
Proof. vm_compute. repeat split. Qed.
(* the premises of C10_rc_chunk_free / C10_rc_result hold for it *)
Example C10_example_rc_premises : 1 <= 1 /\ 1 <= 2 /\ (rc_ex_rows <> [] \/ true = true).
Proof. split; [|split]; [apply le_n|apply le_S, le_n|right; reflexivity]. Qed.
(* the early-exit variant on the same table: the identifier-only slice stops after the first row chunk *)
Example C10_example_rc_early :
  match pc_read_early true 1 2 rc_ex_cols rc_ex_opts false rc_ex_rows with
  | Ok d => d_spectra_rows d = [[7;9]]%Z /\ d_targets d = [true]
  | Err _ => False
  end.
Proof. vm_compute. repeat split. Qed.
(* chunk sizes 0 *)
Example C10_example_rc_zero :
  pc_read_rc true 0 2 rc_ex_cols rc_ex_opts false rc_ex_rows = Err EValue /\
  pc_read_rc true 1 0 rc_ex_cols rc_ex_opts false rc_ex_rows = Err EValue.
Proof. vm_compute. split; reflexivity. Qed.
