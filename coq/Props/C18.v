(* C18 — decoy generation and FASTA round trip.  Statements only; proofs are in Proofs/. *)
From Mokaverif Require Import Model.Base Model.Fasta Model.Decoys.
