(* C18 — generated decoys preserve length, composition and cleavage structure; the written FASTA
   file is read back unchanged.  Statements only; proofs are in Proofs/DecoysP.v and Proofs/FastaP.v.

   Vocabulary (Proofs/DecoysP.v, Proofs/FastaP.v):
   - [dc_perm_contract draw]   every value of the permutation oracle (np.random.permutation) for
                               arange(k) is a permutation of 0..k-1;
   - [dc_sites_ok ss s]        the site list starts with 0, ends with len(s) and never decreases
                               (what _cleavage_sites returns for any regex; computed sites of a residue
                               class meet it: C18_class_sites_ok);
   - [dc_consecutive ss x y]   x, y are neighbours in the site list, i.e. s[x:y] is an enzymatic peptide;
   - [dc_prots_ok prots]       every (name, sequence, sites) triple has [dc_sites_ok] sites;
   - [fa_wrap_contract wrapf]  the lines textwrap returns for a blank-free sequence concatenate to it;
   - [fa_name_ok], [fa_seq_ok] no space / line boundary in names; no blank, line boundary, '>' in sequences. *)
From Coq Require Import Permutation.
From Mokaverif Require Import Model.Base Model.Fasta Model.Decoys Proofs.FastaP Proofs.DecoysP.
Local Open Scope nat_scope.

(* ---------- _shuffle_proteins: every decoy, any enzyme, shuffle or reverse, any RNG ---------- *)

(* name = prefix + target name; same length; same residue composition *)
Theorem C18_name_len_comp : forall draw, dc_perm_contract draw ->
  forall rv prefix prots decoys, dc_prots_ok prots ->
  dc_shuffle_proteins draw rv prefix prots = Ok decoys ->
  Forall2 (fun pr dc => fst dc = prefix ++ dc_name_of pr /\
                        length (snd dc) = length (dc_seq_of pr) /\
                        Permutation (snd dc) (dc_seq_of pr)) prots decoys.
Proof. exact dc_lift_name_len_comp. Qed.
Print Assumptions C18_name_len_comp.

(* the first and the last residue of every enzymatic peptide stay in place *)
Theorem C18_termini_fixed : forall draw, dc_perm_contract draw ->
  forall rv prefix prots decoys, dc_prots_ok prots ->
  dc_shuffle_proteins draw rv prefix prots = Ok decoys ->
  Forall2 (fun pr dc => forall x y, dc_consecutive (dc_sites_of pr) x y -> x < y ->
             nth_error (snd dc) x = nth_error (dc_seq_of pr) x /\
             nth_error (snd dc) (y - 1) = nth_error (dc_seq_of pr) (y - 1)) prots decoys.
Proof. exact dc_lift_termini. Qed.
Print Assumptions C18_termini_fixed.

(* every enzymatic peptide keeps its own composition (residues never cross a cleavage site) *)
Theorem C18_peptide_composition : forall draw, dc_perm_contract draw ->
  forall rv prefix prots decoys, dc_prots_ok prots ->
  dc_shuffle_proteins draw rv prefix prots = Ok decoys ->
  Forall2 (fun pr dc => forall x y, dc_consecutive (dc_sites_of pr) x y ->
             Permutation (pyslice (snd dc) x y) (pyslice (dc_seq_of pr) x y)) prots decoys.
Proof. exact dc_lift_peptides. Qed.
Print Assumptions C18_peptide_composition.

(* the cleavage sites of a residue-class enzyme are identical in target and decoy *)
Theorem C18_sites_same : forall draw, dc_perm_contract draw ->
  forall rv prefix prots decoys cls, dc_prots_ok prots ->
  dc_shuffle_proteins draw rv prefix prots = Ok decoys ->
  Forall (fun pr => dc_sites_of pr = dc_sites cls (dc_seq_of pr)) prots ->
  Forall2 (fun pr dc => dc_sites cls (snd dc) = dc_sites cls (dc_seq_of pr)) prots decoys.
Proof. intros draw Hd rv prefix prots decoys cls Hok Hrun. exact (dc_lift_sites_same draw Hd rv prefix prots decoys Hok Hrun cls). Qed.
Print Assumptions C18_sites_same.

(* with the reversal option the interior of every peptide is exactly reversed *)
Theorem C18_reverse : forall draw, dc_perm_contract draw ->
  forall prefix prots decoys, dc_prots_ok prots ->
  dc_shuffle_proteins draw true prefix prots = Ok decoys ->
  Forall2 (fun pr dc => forall x y, dc_consecutive (dc_sites_of pr) x y ->
             pyslice (snd dc) (S x) (y - 1) = rev (pyslice (dc_seq_of pr) (S x) (y - 1))) prots decoys.
Proof. intros draw Hd prefix prots decoys Hok Hrun. exact (dc_lift_reverse draw Hd true prefix prots decoys Hok Hrun eq_refl). Qed.
Print Assumptions C18_reverse.

(* the sites computed for a residue class meet the contract assumed above *)
Theorem C18_class_sites_ok : forall cls s, dc_sites_ok (dc_sites cls s) s.
Proof. exact dc_sites_sites_ok. Qed.
Print Assumptions C18_class_sites_ok.

(* _shuffle_proteins never fails when the oracles keep their contracts *)
Theorem C18_shuffle_total : forall draw, dc_perm_contract draw ->
  forall rv prefix prots, dc_prots_ok prots ->
  exists decoys, dc_shuffle_proteins draw rv prefix prots = Ok decoys /\ length decoys = length prots.
Proof.
  intros draw Hd rv prefix prots Hok.
  destruct (dc_shuffle_proteins_spec draw Hd rv prefix prots Hok) as (decoys & Hrun & HF).
  exists decoys. split; [exact Hrun|]. symmetry. exact (dc_Forall2_length _ _ _ HF).
Qed.
Print Assumptions C18_shuffle_total.

(* ---------- make_decoys ---------- *)

(* what is written: with concatenate all target entries, unchanged and in order, ahead of the decoys
   (one per target, produced by _shuffle_proteins on the parsed targets); otherwise the decoys alone *)
Theorem C18_concat : forall draw, dc_perm_contract draw ->
  forall rv files prefix cls conc entries,
  dc_entries draw files prefix (DcClass cls) rv conc = Ok entries ->
  exists targets decoys,
    fa_parse_files files = Ok targets /\
    dc_shuffle_proteins draw rv prefix (map (fun e => (e, dc_sites cls (snd e))) targets) = Ok decoys /\
    length decoys = length targets /\
    entries = (if conc then targets ++ decoys else decoys).
Proof. intros draw Hd rv. exact (dc_entries_class draw rv Hd). Qed.
Print Assumptions C18_concat.

(* ... and the (name, sequence, sites) triples handed to _shuffle_proteins meet C18_*'s hypotheses *)
Theorem C18_concat_prots_ok : forall cls targets,
  dc_prots_ok (map (fun e => (e, dc_sites cls (snd e))) targets) /\
  Forall (fun pr => dc_sites_of pr = dc_sites cls (dc_seq_of pr)) (map (fun e => (e, dc_sites cls (snd e))) targets).
Proof. exact dc_class_prots_ok. Qed.
Print Assumptions C18_concat_prots_ok.

(* once the input files parse, make_decoys cannot fail *)
Theorem C18_total : forall draw, dc_perm_contract draw ->
  forall rv files prefix cls conc targets, fa_parse_files files = Ok targets ->
  exists entries, dc_entries draw files prefix (DcClass cls) rv conc = Ok entries.
Proof. intros draw Hd rv. exact (dc_entries_total draw rv Hd). Qed.
Print Assumptions C18_total.

(* writer then reader is the identity on well-formed entries, for every wrapping oracle *)
Theorem C18_roundtrip : forall wrapf, fa_wrap_contract wrapf ->
  forall entries, entries <> [] -> Forall fa_entry_ok entries ->
  fa_parse_files [fa_write wrapf entries] = Ok entries.
Proof. exact fa_roundtrip. Qed.
Print Assumptions C18_roundtrip.

(* re-reading the file make_decoys wrote recovers every name and sequence that was written (any
   enzyme).  Names produced by the reader are always well-formed (C18_parsed_names_ok); sequences are
   required to be free of blanks and '>' *)
Theorem C18_roundtrip_make_decoys : forall draw wrapf, dc_perm_contract draw -> fa_wrap_contract wrapf ->
  forall rv files prefix enz conc text,
  dc_make_decoys draw wrapf files prefix enz rv conc = Ok text ->
  (forall targets, fa_parse_files files = Ok targets ->
     dc_given_ok enz targets /\ Forall (fun e => fa_seq_ok (snd e)) targets) ->
  fa_name_ok prefix ->
  fa_parse_files [text] = dc_entries draw files prefix enz rv conc.
Proof. intros draw wrapf Hd Hw rv. exact (dc_make_decoys_roundtrip draw wrapf rv Hd Hw). Qed.
Print Assumptions C18_roundtrip_make_decoys.

Theorem C18_parsed_names_ok : forall files targets, fa_parse_files files = Ok targets ->
  targets <> [] /\ Forall (fun e => fa_name_ok (fst e)) targets.
Proof. exact fa_parse_files_spec. Qed.
Print Assumptions C18_parsed_names_ok.

(* the 70-column chunking is a wrapping oracle that meets the contract: lines of 1..70 residues, all
   but the last exactly 70, concatenating to the sequence *)
Theorem C18_wrap70 : forall s,
  concat (fa_wrap70 s) = s /\
  Forall (fun l => 1 <= length l <= 70) (fa_wrap70 s) /\
  Forall (fun l => length l = 70) (removelast (fa_wrap70 s)).
Proof. exact fa_wrap70_ok. Qed.
Print Assumptions C18_wrap70.

(* ---------- non-vacuity ---------- *)
Local Open Scope Z_scope.

(* an oracle meeting the permutation contract, and one meeting the wrap contract *)
Example C18_draw_contract_satisfiable : dc_perm_contract dc_rot_draw.
Proof. exact dc_rot_draw_contract. Qed.
Example C18_wrap_contract_satisfiable : fa_wrap_contract fa_wrap70.
Proof. exact fa_wrap70_contract. Qed.

(* ">p1 x\nAKCDEFK\nGH\n>p2\n" and "\r\n>p3\r\nMCDEK": multi-line record, description, empty sequence,
   second file with CRLF *)
Definition ex_files : list str :=
  [ [62;112;49;32;120;10; 65;75;67;68;69;70;75;10; 71;72;10; 62;112;50;10];
    [13;10;62;112;51;13;10;77;67;68;69;75] ].
Definition ex_prefix : str := [100;95].                       (* "d_" *)
Definition ex_K : list Z := [75].

Example C18_ex_parse :
  fa_parse_files ex_files
  = Ok [ ([112;49], [65;75;67;68;69;70;75;71;72]); ([112;50], []); ([112;51], [77;67;68;69;75]) ].
Proof. vm_compute. reflexivity. Qed.

(* shuffle (rotation oracle): AK|CDEFK|GH -> AK|CEFDK|GH ; MCDEK -> MDECK ; targets first *)
Example C18_ex_run :
  dc_entries dc_rot_draw ex_files ex_prefix (DcClass ex_K) false true
  = Ok [ ([112;49], [65;75;67;68;69;70;75;71;72]); ([112;50], []); ([112;51], [77;67;68;69;75]);
         ([100;95;112;49], [65;75;67;69;70;68;75;71;72]); ([100;95;112;50], []);
         ([100;95;112;51], [77;68;69;67;75]) ].
Proof. vm_compute. reflexivity. Qed.

(* reverse: CDEFK -> CFEDK, MCDEK -> MEDCK *)
Example C18_ex_reverse :
  dc_entries dc_rot_draw ex_files ex_prefix (DcClass ex_K) true false
  = Ok [ ([100;95;112;49], [65;75;67;70;69;68;75;71;72]); ([100;95;112;50], []);
         ([100;95;112;51], [77;69;68;67;75]) ].
Proof. vm_compute. reflexivity. Qed.

(* the hypotheses of C18_roundtrip_make_decoys hold for this input, and the conclusion is not vacuous *)
Example C18_ex_roundtrip :
  exists text, dc_make_decoys dc_rot_draw fa_wrap70 ex_files ex_prefix (DcClass ex_K) false true = Ok text /\
               fa_parse_files [text] = dc_entries dc_rot_draw ex_files ex_prefix (DcClass ex_K) false true /\
               fa_name_ok ex_prefix /\
               (forall targets, fa_parse_files ex_files = Ok targets ->
                  Forall (fun e => fa_seq_ok (snd e)) targets).
Proof.
  eexists. split; [vm_compute; reflexivity|]. split; [vm_compute; reflexivity|]. split.
  - repeat constructor; discriminate.
  - intros targets H. rewrite C18_ex_parse in H. inversion H; subst.
    repeat constructor; discriminate.
Qed.

(* a name with a space does not survive (hypothesis fa_name_ok is needed) *)
Example C18_ex_name_space_refuted :
  fa_parse_files [fa_write fa_wrap70 [([97;32;98], [65])]] = Ok [([97], [65])].
Proof. vm_compute. reflexivity. Qed.

(* a sequence with '>' at a line start does not survive (hypothesis fa_seq_ok is needed) *)
Example C18_ex_seq_gt_refuted :
  fa_parse_files [fa_write fa_wrap70 [([97], [62;65])]] = Ok [([97], []); ([65], [])].
Proof. vm_compute. reflexivity. Qed.

(* an empty file list / empty file makes the parser fail with IndexError (model of entry[0]) *)
Example C18_ex_empty_file : fa_parse_files [[]] = Err EIndex.
Proof. vm_compute. reflexivity. Qed.

(* the guard fa_seq_ok of the round trip is needed: the wrap contract says nothing about sequences
   with blanks, and textwrap drops a blank at the end of a line.  An oracle that keeps the contract
   and does so loses the trailing blank of "A " (the real code does the same, see the harness' stream
   blank-in-sequence) *)
Definition ex_wrap_drop (s : str) : list str :=
  if existsb (Z.eqb 32) s then [removelast s] else fa_wrap70 s.

Example C18_blank_refuted :
  fa_wrap_contract ex_wrap_drop /\
  fa_parse_files [fa_write ex_wrap_drop [([112], [65;32])]] = Ok [([112], [65])].
Proof.
  split; [|vm_compute; reflexivity].
  intros s Hs. unfold ex_wrap_drop. destruct (existsb (Z.eqb 32) s) eqn:E.
  - apply existsb_exists in E. destruct E as (c & Hin & Hc). apply Z.eqb_eq in Hc. subst c.
    unfold fa_seq_ok in Hs. rewrite Forall_forall in Hs. destruct (Hs _ Hin) as (_ & _ & Hsp & _).
    exfalso. apply Hsp. reflexivity.
  - apply fa_wrap70_ok.
Qed.
