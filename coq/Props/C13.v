(* C13 — placeholder while the proofs are being written *)
From Mokaverif Require Import Model.Base Model.Chunks.
Theorem C13_placeholder : ch_chunks 2 [1;2;3] = [[1;2];[3]].
Proof. reflexivity. Qed.
Print Assumptions C13_placeholder.
