(* C13 — chunked table reading equals whole reading; writers lose and reorder nothing.
   Statements only; proofs are in Proofs/ChunksP.v, Proofs/ReadersP.v, Proofs/BufferedP.v. *)
From Coq Require Import Lia.
From Mokaverif Require Import Model.Base Model.Chunks Model.Readers Model.Buffered
     Proofs.ChunksP Proofs.ReadersP Proofs.BufferedP.
Open Scope nat_scope.

(* ======================= chunking ======================= *)
(* for every chunk size >= 1: nothing lost or reordered, every chunk but the last is full, none is
   empty or longer than c *)
Theorem C13_chunks_concat : forall (A : Type) (c : nat) (l : list A), 0 < c ->
  concat (ch_chunks c l) = l
  /\ (forall i x, nth_error (ch_chunks c l) i = Some x -> S i < length (ch_chunks c l) -> length x = c)
  /\ Forall (fun x => x <> [] /\ length x <= c) (ch_chunks c l).
Proof. exact @ch_chunks_spec. Qed.
Print Assumptions C13_chunks_concat.

(* closed form: the i-th chunk is l[i*c : i*c+c], and there is no chunk beyond the rows *)
Theorem C13_chunks_nth : forall (A : Type) (c : nat) (l : list A) (i : nat), 0 < c ->
  nth_error (ch_chunks c l) i =
  if Nat.ltb (i * c) (length l) then Some (firstn c (skipn (i * c) l)) else None.
Proof. exact @ch_chunks_nth. Qed.
Print Assumptions C13_chunks_nth.

(* the i-th chunk carries the row index i*c, i*c+1, ...; the indices of all chunks are 0..n-1 *)
Theorem C13_index : forall (A : Type) (c : nat) (l : list A), 0 < c ->
  (forall i, nth_error (ch_ranges c l) i =
             if Nat.ltb (i * c) (length l)
             then Some (seq (i * c) (length (firstn c (skipn (i * c) l)))) else None)
  /\ concat (ch_ranges c l) = seq 0 (length l)
  /\ map (@length nat) (ch_ranges c l) = map (@length A) (ch_chunks c l).
Proof. exact @ch_index_spec. Qed.
Print Assumptions C13_index.

(* the loop `for pos in range(0, n, c)` never needs more than n iterations *)
Theorem C13_chunks_fuel : forall (A : Type) (c : nat), 0 < c -> forall fuel pos (l : list A),
  length l <= fuel -> ch_chunks_at fuel c pos l = ch_chunks_at (length l) c pos l.
Proof. exact @ch_chunks_at_fuel. Qed.
Print Assumptions C13_chunks_fuel.

(* df[cols] under distinct column names: output cell j is the cell under the column named cols[j] *)
Theorem C13_select_spec : forall (A : Type) (names cs : list nat) (row : list A),
  NoDup names -> length row = length names -> incl cs names ->
  length (ch_select_row names cs row) = length cs
  /\ forall j c i, nth_error cs j = Some c -> nth_error names i = Some c ->
     nth_error (ch_select_row names cs row) j = nth_error row i.
Proof.
  intros A names cs row Hn Hl Hi. split;
    [exact (ch_select_row_length names cs row Hn Hl Hi) | exact (ch_select_row_spec names cs row Hn Hl Hi)].
Qed.
Print Assumptions C13_select_spec.

(* ======================= readers ======================= *)
(* [tr_chunked c N R chs]: chs concatenates to the frame (names N, rows R, index 0..n-1), every
   chunk has the columns N, chunk i carries the index i*c.., all chunks but the last have c rows,
   and for a non-empty table the chunks are exactly the c-chunks of R.
   Requests: every duplicate-free list of known columns, THE EMPTY LIST INCLUDED (all rows, no column) — after the
   repair of the CSV / Parquet leaf readers (/repo 37b7b88, 79a1472) the former guard "every file leaf is asked for at
   least one of its columns" (tr_req, cs <> []) is gone from every statement below. *)

Theorem C13_reader_frame : forall c t cs, 0 < c -> tb_wf t -> NoDup cs -> incl cs (tb_names t) ->
  exists chs, tr_chunks (TrFrame t) c (Some cs) = Ok chs
    /\ tr_read (TrFrame t) (Some cs) = Ok (ch_whole cs (map (ch_select_row (tb_names t) cs) (tb_rows t)))
    /\ tr_chunked c cs (map (ch_select_row (tb_names t) cs) (tb_rows t)) chs.
Proof. exact tr_reader_frame. Qed.
Print Assumptions C13_reader_frame.

Theorem C13_reader_csv : forall c t cs, 0 < c -> tb_wf t -> NoDup cs -> incl cs (tb_names t) ->
  exists chs, tr_chunks (TrCsv t) c (Some cs) = Ok chs
    /\ tr_read (TrCsv t) (Some cs) = Ok (ch_whole cs (map (ch_select_row (tb_names t) cs) (tb_rows t)))
    /\ tr_chunked c cs (map (ch_select_row (tb_names t) cs) (tb_rows t)) chs.
Proof. exact tr_reader_csv. Qed.
Print Assumptions C13_reader_csv.

(* for EVERY record-batch oracle that keeps the contract (all batches but the last have c rows) for non-empty
   projections; the file has at least one column (for columns=[] the reader projects the first one and drops it;
   formerly implied by cs <> []) *)
Theorem C13_reader_parquet : forall c t bl bl0 cs, 0 < c -> tb_wf t -> tb_names t <> [] ->
  ch_batches_ok c (length (tb_rows t)) bl -> NoDup cs -> incl cs (tb_names t) ->
  exists chs, tr_chunks (TrParquet t bl bl0) c (Some cs) = Ok chs
    /\ tr_read (TrParquet t bl bl0) (Some cs) = Ok (ch_whole cs (map (ch_select_row (tb_names t) cs) (tb_rows t)))
    /\ tr_chunked c cs (map (ch_select_row (tb_names t) cs) (tb_rows t)) chs.
Proof. exact tr_reader_parquet. Qed.
Print Assumptions C13_reader_parquet.

(* what the running offset buys: WITHOUT the batch contract — for ANY batch lengths that sum to the number of rows (short
   batches in the middle, empty batches) — the chunks concatenate to the whole read (rows, order, index 0..n-1), carry the
   requested columns, every chunk's index starts at the number of rows delivered before it, and the chunks are as long as
   the batches.  Only "all chunks but the last have c rows" (in tr_chunked above) needs the contract. *)
Theorem C13_reader_parquet_any_batches : forall c t bl bl0 cs, 0 < c -> tb_wf t -> tb_names t <> [] ->
  fold_right Nat.add 0 bl = length (tb_rows t) -> NoDup cs -> incl cs (tb_names t) ->
  exists chs, tr_chunks (TrParquet t bl bl0) c (Some cs) = Ok chs
    /\ tr_read (TrParquet t bl bl0) (Some cs) = Ok (ch_whole cs (map (ch_select_row (tb_names t) cs) (tb_rows t)))
    /\ ch_concat cs chs = ch_whole cs (map (ch_select_row (tb_names t) cs) (tb_rows t))
    /\ Forall (fun f => ch_names f = cs) chs
    /\ (forall i f, nth_error chs i = Some f ->
          ch_index f = seq (length (flat_map ch_rows (firstn i chs))) (length (ch_rows f)))
    /\ map (fun f => length (ch_rows f)) chs = bl.
Proof. exact tr_reader_parquet_any_batches. Qed.
Print Assumptions C13_reader_parquet_any_batches.

Theorem C13_reader_parquet_any_batches_none : forall c t bl bl0, 0 < c ->
  fold_right Nat.add 0 bl = length (tb_rows t) ->
  exists chs, tr_chunks (TrParquet t bl bl0) c None = Ok chs
    /\ tr_read (TrParquet t bl bl0) None = Ok (ch_whole (tb_names t) (tb_rows t))
    /\ ch_concat (tb_names t) chs = ch_whole (tb_names t) (tb_rows t)
    /\ Forall (fun f => ch_names f = tb_names t) chs
    /\ (forall i f, nth_error chs i = Some f ->
          ch_index f = seq (length (flat_map ch_rows (firstn i chs))) (length (ch_rows f)))
    /\ map (fun f => length (ch_rows f)) chs = bl.
Proof. exact tr_reader_parquet_any_batches_none. Qed.
Print Assumptions C13_reader_parquet_any_batches_none.

Theorem C13_reader_mapped : forall c r m cs, 0 < c -> tr_wf c r -> NoDup (map (tr_rename m) (tr_names r)) ->
  NoDup cs -> incl cs (map (tr_rename m) (tr_names r)) ->
  exists ocs, tr_orig_cols (combine (map (tr_rename m) (tr_names r)) (tr_names r)) cs = Some ocs
    /\ map (tr_rename m) ocs = cs
    /\ (tr_req_inv r ocs ->
        exists chs, tr_chunks (TrMapped r m) c (Some cs) = Ok chs
          /\ tr_read (TrMapped r m) (Some cs) = Ok (ch_whole cs (tr_select r ocs))
          /\ tr_chunked c cs (tr_select r ocs) chs).
Proof. exact tr_reader_mapped. Qed.
Print Assumptions C13_reader_mapped.

Theorem C13_reader_joined : forall c rs cs, 0 < c -> tr_wf c (TrJoined rs) -> NoDup cs ->
  incl cs (flat_map tr_names rs) ->
  (forall r, In r rs -> tr_req_inv r (tr_sub (tr_names r) cs)) ->
  exists chs, tr_chunks (TrJoined rs) c (Some cs) = Ok chs
    /\ tr_read (TrJoined rs) (Some cs)
       = Ok (ch_whole cs (map (ch_select_row (flat_map tr_names rs) cs) (tr_hzip_all (map tr_drows rs))))
    /\ tr_chunked c cs (map (ch_select_row (flat_map tr_names rs) cs) (tr_hzip_all (map tr_drows rs))) chs.
Proof. exact tr_reader_joined. Qed.
Print Assumptions C13_reader_joined.

(* for EVERY func that works row by row (g) and does not look at columns that were not requested *)
Theorem C13_reader_computed : forall c r k f g cs, 0 < c -> tr_wf c r -> ~ In k (tr_names r) ->
  (forall names rows, f names rows = Ok (map (g names) rows)) ->
  NoDup cs -> incl cs (tr_names r ++ [k]) ->
  tr_req_inv r (tr_without k cs) ->
  f (tr_without k cs) (map (ch_select_row (tr_names r) (tr_without k cs)) (tr_drows r)) = f (tr_names r) (tr_drows r) ->
  exists chs, tr_chunks (TrComputed r k f) c (Some cs) = Ok chs
    /\ tr_read (TrComputed r k f) (Some cs)
       = Ok (ch_whole cs (map (ch_select_row (tr_names r ++ [k]) cs)
                              (map (fun row => row ++ [g (tr_names r) row]) (tr_drows r))))
    /\ tr_chunked c cs (map (ch_select_row (tr_names r ++ [k]) cs)
                            (map (fun row => row ++ [g (tr_names r) row]) (tr_drows r))) chs.
Proof. exact tr_reader_computed. Qed.
Print Assumptions C13_reader_computed.

(* a computed column that is not requested (after the repair of /repo func is then not called): for ANY func, row-wise or
   not, failing or not, the read through the computed reader is the read of the inner reader, whole and chunked *)
Theorem C13_reader_computed_skip : forall c r k f cs, 0 < c -> tr_wf c r -> NoDup cs -> incl cs (tr_names r) ->
  ~ In k cs ->
  tr_read (TrComputed r k f) (Some cs) = tr_read r (Some cs)
  /\ tr_stream (TrComputed r k f) c (Some cs) = tr_stream r c (Some cs).
Proof. exact tr_computed_skip. Qed.
Print Assumptions C13_reader_computed_skip.

(* any tree of readers: chunked read = chunked delivery of the whole read = requested columns, in
   the requested order, of the table the tree stands for (tr_names / tr_drows).
   tr_req_inv is the one remaining hypothesis on the request, and it only concerns computed readers whose column is
   requested: their function sees the requested columns only (the inner reader is read with the request minus k), so
   its values must not depend on the others.  It is trivial for leaves, passes through renamings and joins, and asks
   nothing when the computed column is not requested. *)
Theorem C13_reader_tree : forall c r cs, 0 < c -> tr_wf c r -> NoDup cs -> incl cs (tr_names r) ->
  tr_req_inv r cs ->
  exists chs, tr_chunks r c (Some cs) = Ok chs
    /\ tr_read r (Some cs) = Ok (ch_whole cs (tr_select r cs))
    /\ tr_chunked c cs (tr_select r cs) chs
    /\ length (tr_select r cs) = tr_nrows r.
Proof. exact tr_reader_ok. Qed.
Print Assumptions C13_reader_tree.

(* chunked = whole for EVERY well-formed tree and EVERY duplicate-free request of known columns: no assumption on
   which columns computed functions look at, none on which leaves the request reaches *)
Theorem C13_reader_chunks_eq_read : forall c r cs, 0 < c -> tr_wf c r -> NoDup cs -> incl cs (tr_names r) ->
  exists chs whole, tr_chunks r c (Some cs) = Ok chs /\ tr_read r (Some cs) = Ok whole
    /\ ch_names whole = cs /\ ch_index whole = seq 0 (tr_nrows r) /\ length (ch_rows whole) = tr_nrows r
    /\ tr_chunked c cs (ch_rows whole) chs.
Proof. exact tr_reader_chunks_eq_read. Qed.
Print Assumptions C13_reader_chunks_eq_read.

(* columns=None on ANY well-formed reader tree, computed readers included wherever they sit in the tree (computed
   over mapped over joined over computed ...): all columns, in table order; the chunked read is a chunked delivery
   of the whole read.  (tr_wf asks of a computed reader only that its column name is new and func works row by row.) *)
Theorem C13_reader_none : forall c r, 0 < c -> tr_wf c r ->
  exists chs, tr_chunks r c None = Ok chs
    /\ tr_read r None = Ok (ch_whole (tr_names r) (tr_drows r))
    /\ tr_chunked c (tr_names r) (tr_drows r) chs.
Proof. exact tr_reader_none. Qed.
Print Assumptions C13_reader_none.

(* the computed reader spelled out (fixed finding computed-reader:columns=None — after the repair of /repo the inner
   reader is read with columns=None and the computed column is added): all columns of the inner table, then func
   row by row as the last column, whole and chunked *)
Theorem C13_reader_computed_none : forall c r k f g, 0 < c -> tr_wf c r -> ~ In k (tr_names r) ->
  (forall names rows, f names rows = Ok (map (g names) rows)) ->
  exists chs, tr_chunks (TrComputed r k f) c None = Ok chs
    /\ tr_read (TrComputed r k f) None
       = Ok (ch_whole (tr_names r ++ [k]) (map (fun row => row ++ [g (tr_names r) row]) (tr_drows r)))
    /\ tr_chunked c (tr_names r ++ [k]) (map (fun row => row ++ [g (tr_names r) row]) (tr_drows r)) chs.
Proof. exact tr_reader_computed_none. Qed.
Print Assumptions C13_reader_computed_none.

(* cell-level reading of tr_select: requested columns, requested order, unchanged cells *)
Theorem C13_reader_cells : forall c r cs, tr_wf c r -> incl cs (tr_names r) ->
  forall i row, nth_error (tr_drows r) i = Some row ->
  exists srow, nth_error (tr_select r cs) i = Some srow /\ length srow = length cs
    /\ forall j cn p, nth_error cs j = Some cn -> nth_error (tr_names r) p = Some cn ->
       nth_error srow j = nth_error row p.
Proof. exact tr_select_cell. Qed.
Print Assumptions C13_reader_cells.

(* ======================= buffered writer ======================= *)
(* for every buffer size >= 1 (from_suffix only builds a BufferedWriter for b >= 2), every buffer
   kind and every accepted append sequence: nothing lost or reordered, every emitted batch but the
   last has b rows, none is empty, the buffer is emptied *)
Theorem C13_buffered : forall (A : Type) b k (ds : list (list A)), 0 < b ->
  Forall (fun d => bw_accepts k d = true) ds ->
  exists s, bw_run b k ds = Ok s
    /\ concat (bw_emitted s) = concat ds
    /\ (forall i x, nth_error (bw_emitted s) i = Some x -> S i < length (bw_emitted s) -> length x = b)
    /\ Forall (fun x => x <> [] /\ length x <= b) (bw_emitted s)
    /\ bw_pending s = [].
Proof. exact @bw_run_spec. Qed.
Print Assumptions C13_buffered.

(* stronger: the emitted batches are exactly the b-chunks of everything appended *)
Theorem C13_buffered_chunks : forall (A : Type) b k (ds : list (list A)), 0 < b ->
  Forall (fun d => bw_accepts k d = true) ds ->
  exists s, bw_run b k ds = Ok s /\ bw_emitted s = ch_chunks b (concat ds) /\ bw_pending s = [].
Proof. exact @bw_run_ok. Qed.
Print Assumptions C13_buffered_chunks.

(* the invariant after every prefix of the append sequence: emitted ++ pending = appended so far,
   every emitted batch is full, fewer than b rows are pending *)
Theorem C13_buffered_inv : forall (A : Type) b k (ds1 ds2 : list (list A)), 0 < b ->
  Forall (fun d => bw_accepts k d = true) (ds1 ++ ds2) ->
  exists s, bw_appends b k bw_init ds1 = Ok s
    /\ concat (bw_emitted s) ++ bw_pending s = concat ds1
    /\ Forall (fun x => length x = b) (bw_emitted s)
    /\ length (bw_pending s) < b.
Proof. exact @bw_prefix_inv. Qed.
Print Assumptions C13_buffered_inv.

Theorem C13_buffered_inv_step : forall (A : Type) b k (s : bw_state A) appended d, 0 < b ->
  bw_accepts k d = true -> bw_inv b appended s ->
  exists s', bw_append b k s d = Ok s' /\ bw_inv b (appended ++ d) s' /\ bw_buffer s' <> None.
Proof. exact @bw_append_inv. Qed.
Print Assumptions C13_buffered_inv_step.

(* the flush loop never runs out of fuel for b >= 1 *)
Theorem C13_flush_fuel : forall (A : Type) b (buf : list A) em, 0 < b ->
  bw_flush (S (length buf)) b buf em <> Err EFuel.
Proof. exact @bw_flush_never_out_of_fuel. Qed.
Print Assumptions C13_flush_fuel.

(* TabularDataWriter.from_suffix with any buffer size: the file holds exactly the appended rows *)
Theorem C13_writer : forall (A : Type) b k (ds : list (list A)),
  (1 < b /\ Forall (fun d => bw_accepts k d = true) ds) \/ (b <= 1 /\ k = BwFrame) ->
  exists batches, bw_from_suffix b k ds = Ok (batches, 0)
    /\ bw_file batches = concat ds
    /\ (1 < b -> batches = ch_chunks b (concat ds)).
Proof. exact @bw_from_suffix_ok. Qed.
Print Assumptions C13_writer.

(* ======================= examples: hypotheses are satisfiable ======================= *)
Open Scope Z_scope.
Definition ex_ta : tr_table := {| tb_names := [0;1]%nat; tb_rows := [[10;11];[20;21];[30;31]] |}.
Definition ex_tb : tr_table := {| tb_names := [2;3]%nat; tb_rows := [[12;13];[22;23];[32;33]] |}.
(* joined( computed(frame a, column 9 := 7), mapped(parquet b in batches [2;1], 2 -> 5) ) *)
Definition ex_reader : tr_reader :=
  TrJoined [TrComputed (TrFrame ex_ta) 9%nat (tr_fn_const 7);
            TrMapped (TrParquet ex_tb [2;1]%nat [1;1;1]%nat) [(2,5)]%nat].
Definition ex_cols : list nat := [5;9;0]%nat.
Close Scope Z_scope.

Example C13_ex_table_wf : tb_wf ex_ta /\ tb_wf ex_tb.
Proof.
  unfold tb_wf, ex_ta, ex_tb; simpl. repeat split; repeat constructor; simpl; intuition discriminate.
Qed.

Example C13_ex_wf : tr_wf 2 ex_reader.
Proof.
  destruct C13_ex_table_wf as [Ha Hb].
  unfold ex_reader. apply wf_joined.
  - discriminate.
  - apply Forall_cons; [|apply Forall_cons; [|apply Forall_nil]].
    + apply wf_computed with (g := fun _ _ => 7%Z).
      * apply wf_frame. exact Ha.
      * simpl. intuition discriminate.
      * reflexivity.
    + apply wf_mapped.
      * apply wf_parquet; [exact Hb | discriminate |]. simpl. repeat split; first [lia | intros; congruence].
      * simpl. repeat constructor; simpl; intuition discriminate.
  - intros r [<-|[<-|[]]]; reflexivity.
  - simpl. repeat constructor; simpl; intuition discriminate.
Qed.

Example C13_ex_req : NoDup ex_cols /\ incl ex_cols (tr_names ex_reader) /\ tr_req_inv ex_reader ex_cols.
Proof.
  split; [|split].
  - unfold ex_cols. repeat constructor; simpl; intuition discriminate.
  - intros x Hx. unfold ex_cols in Hx. simpl in *. intuition.
  - apply ri_joined. intros r [<-|[<-|[]]].
    + apply ri_computed; [intros _; reflexivity | apply ri_frame].
    + apply ri_mapped with (ocs := [2]); [reflexivity|]. apply ri_parquet.
Qed.

Example C13_ex_runs :
  tr_chunks ex_reader 2 (Some ex_cols)
  = Ok [ {| ch_index := [0;1]; ch_names := [5;9;0]; ch_rows := [[12;7;10];[22;7;20]]%Z |};
         {| ch_index := [2];   ch_names := [5;9;0]; ch_rows := [[32;7;30]]%Z |} ]
  /\ tr_read ex_reader (Some ex_cols)
     = Ok {| ch_index := [0;1;2]; ch_names := [5;9;0]; ch_rows := [[12;7;10];[22;7;20];[32;7;30]]%Z |}.
Proof. split; vm_compute; reflexivity. Qed.

Example C13_ex_none :
  let r := TrJoined [TrCsv ex_ta; TrMapped (TrParquet ex_tb [2;1]%nat [1;1;1]%nat) [(2,5)]%nat] in
  tr_wf 2 r
  /\ tr_read r None = Ok (ch_whole [0;1;5;3] [[10;11;12;13];[20;21;22;23];[30;31;32;33]]%Z).
Proof.
  destruct C13_ex_table_wf as [Ha Hb]. cbv zeta. split.
  - apply wf_joined.
    + discriminate.
    + apply Forall_cons; [apply wf_csv; exact Ha|]. apply Forall_cons; [|apply Forall_nil].
      apply wf_mapped.
      * apply wf_parquet; [exact Hb | discriminate |]. simpl. repeat split; first [lia | intros; congruence].
      * simpl. repeat constructor; simpl; intuition discriminate.
    + intros r [<-|[<-|[]]]; reflexivity.
    + simpl. repeat constructor; simpl; intuition discriminate.
  - vm_compute. reflexivity.
Qed.

(* columns=None with computed readers inside and on top of the tree:
   computed( mapped( ex_reader = joined(computed(frame), mapped(parquet)), 9 -> 4 ), column 8 := 6 ) *)
Example C13_ex_none_computed :
  let r := TrComputed (TrMapped ex_reader [(9,4)]%nat) 8%nat (tr_fn_const 6%Z) in
  tr_wf 2 r
  /\ tr_read r None
     = Ok (ch_whole [0;1;4;5;3;8] [[10;11;7;12;13;6];[20;21;7;22;23;6];[30;31;7;32;33;6]]%Z)
  /\ tr_chunks r 2 None
     = Ok [ {| ch_index := [0;1]; ch_names := [0;1;4;5;3;8];
               ch_rows := [[10;11;7;12;13;6];[20;21;7;22;23;6]]%Z |};
            {| ch_index := [2]; ch_names := [0;1;4;5;3;8]; ch_rows := [[30;31;7;32;33;6]]%Z |} ].
Proof.
  cbv zeta. split; [|split].
  - apply wf_computed with (g := fun _ _ => 6%Z).
    + apply wf_mapped; [exact C13_ex_wf|]. simpl. repeat constructor; simpl; intuition discriminate.
    + simpl. intuition discriminate.
    + reflexivity.
  - vm_compute. reflexivity.
  - vm_compute. reflexivity.
Qed.

(* a func returning the wrong number of values (ValueError when called) does no harm while its column is not requested *)
Example C13_ex_skip :
  let r := TrComputed (TrFrame ex_ta) 9%nat (tr_fn_short 5%Z) in
  tr_read r (Some [1;0]) = Ok (ch_whole [1;0] [[11;10];[21;20];[31;30]]%Z)
  /\ tr_chunks r 2 (Some [1;0]) = tr_chunks (TrFrame ex_ta) 2 (Some [1;0])
  /\ tr_read r (Some [1;9]) = Err EValue.
Proof. cbv zeta. split; [|split]; vm_compute; reflexivity. Qed.

Example C13_ex_buffered :
  bw_run 2 BwDicts [[1;2;3];[];[4];[5;6]]
  = Ok {| bw_buffer := Some []; bw_emitted := [[1;2];[3;4];[5;6]] |}
  /\ bw_run 3 BwFrame [[1;2];[3;4;5;6;7]]
  = Ok {| bw_buffer := None; bw_emitted := [[1;2;3];[4;5;6];[7]] |}
  /\ Forall (fun d => bw_accepts BwRecords d = true) [[1];[2];[3]].
Proof. split; [|split]; [vm_compute; reflexivity | vm_compute; reflexivity | repeat constructor]. Qed.

(* ======================= the repaired leaf readers: former counterexamples now satisfy the property ======================= *)
(* fixed finding csv-reader:columns=[] — only the computed column requested from a CSV-backed reader (the CSV leaf is
   asked for columns=[]): the reader and request that used to return no row now satisfy every hypothesis of
   C13_reader_tree, and the read returns the 3 rows of the table, whole and chunked *)
Example C13_csv_empty_request_ok :
  let r := TrComputed (TrCsv ex_ta) 9 (tr_fn_const 7%Z) in
  tr_wf 2 r /\ NoDup [9] /\ incl [9] (tr_names r) /\ tr_req_inv r [9]
  /\ tr_select r [9] = [[7];[7];[7]]%Z
  /\ tr_read r (Some [9]) = Ok (ch_whole [9] [[7];[7];[7]]%Z)
  /\ tr_chunks r 2 (Some [9])
     = Ok [ {| ch_index := [0;1]; ch_names := [9]; ch_rows := [[7];[7]]%Z |};
            {| ch_index := [2]; ch_names := [9]; ch_rows := [[7]]%Z |} ]
  /\ tr_read (TrCsv ex_ta) (Some []) = Ok (ch_whole [] [[];[];[]])
  /\ tr_chunks (TrCsv {| tb_names := [0;1]; tb_rows := [] |}) 2 (Some []) = Ok [ch_whole [] []].
Proof.
  destruct C13_ex_table_wf as [Ha _]. cbv zeta. split; [|split; [|split; [|split; [|split; [|split; [|split; [|split]]]]]]].
  - apply wf_computed with (g := fun _ _ => 7%Z); [apply wf_csv; exact Ha | simpl; intuition discriminate | reflexivity].
  - repeat constructor. simpl. intuition.
  - intros x [<-|[]]. simpl. intuition.
  - apply ri_computed; [intros _; reflexivity | apply ri_csv].
  - vm_compute. reflexivity.
  - vm_compute. reflexivity.
  - vm_compute. reflexivity.
  - vm_compute. reflexivity.
  - vm_compute. reflexivity.
Qed.

(* fixed finding parquet-reader:columns=[] — the Parquet leaf is asked for columns=[]: it now projects its first column,
   so the batches are those of a non-empty projection (bl = 2,1 for c = 2; bl0 = 1,1,1 is no longer consulted), and the
   index is a running offset: the chunks are the 2-chunks, index 0,1 | 2 *)
Example C13_parquet_empty_request_ok :
  let r := TrComputed (TrParquet ex_tb [2;1] [1;1;1]) 9 (tr_fn_const 7%Z) in
  tr_wf 2 r /\ NoDup [9] /\ incl [9] (tr_names r) /\ tr_req_inv r [9]
  /\ tr_read r (Some [9]) = Ok (ch_whole [9] [[7];[7];[7]]%Z)
  /\ tr_chunks r 2 (Some [9])
     = Ok [ {| ch_index := [0;1]; ch_names := [9]; ch_rows := [[7];[7]]%Z |};
            {| ch_index := [2]; ch_names := [9]; ch_rows := [[7]]%Z |} ].
Proof.
  destruct C13_ex_table_wf as [_ Hb]. cbv zeta. split; [|split; [|split; [|split; [|split]]]].
  - apply wf_computed with (g := fun _ _ => 7%Z); [|simpl; intuition discriminate | reflexivity].
    apply wf_parquet; [exact Hb | discriminate |]. simpl. repeat split; first [lia | intros; congruence].
  - repeat constructor. simpl. intuition.
  - intros x [<-|[]]. simpl. intuition.
  - apply ri_computed; [intros _; reflexivity | apply ri_parquet].
  - vm_compute. reflexivity.
  - vm_compute. reflexivity.
Qed.

(* a joined reader with a member none of whose columns is requested (CSV and Parquet members asked for columns=[]) *)
Example C13_joined_unrequested_member_ok :
  let r := TrJoined [TrCsv ex_ta; TrParquet ex_tb [2;1] [1;1;1]; TrFrame {| tb_names := [7]; tb_rows := [[1];[2];[3]]%Z |}] in
  tr_chunks r 2 (Some [7])
  = Ok [ {| ch_index := [0;1]; ch_names := [7]; ch_rows := [[1];[2]]%Z |};
         {| ch_index := [2]; ch_names := [7]; ch_rows := [[3]]%Z |} ]
  /\ tr_read r (Some [7]) = Ok (ch_whole [7] [[1];[2];[3]]%Z).
Proof. cbv zeta. split; vm_compute; reflexivity. Qed.

(* ======================= the remaining guards are necessary (witnesses) ======================= *)
(* the batch-length contract of the Parquet oracle: with the running offset a short batch in the middle no longer breaks
   the index (0 | 1,2: C13_reader_parquet_any_batches applies, the lengths 1,2 sum to 3), but the chunks are then not
   the c-chunks: the first has 1 row instead of c = 2 — the contract is needed exactly for the chunk sizes *)
Example C13_parquet_contract_needed :
  exists chs, tr_chunks (TrParquet ex_tb [1;2] []) 2 (Some [2;3]) = Ok chs
    /\ map ch_index chs = [[0];[1;2]]
    /\ ch_concat [2;3]%nat chs = ch_whole [2;3]%nat (tb_rows ex_tb)
    /\ map ch_rows chs <> ch_chunks 2 (tb_rows ex_tb).
Proof. eexists. split; [|split; [|split]]; try (vm_compute; reflexivity). vm_compute. discriminate. Qed.

(* a NON-empty list of unknown names only (outside the property's domain) is passed to pyarrow as it is: an empty
   projection after all, batches as the row groups lie (bl0 = 1,1,1); the running offset still numbers the rows 0,1,2 *)
Example C13_parquet_unknown_names_only :
  tr_chunks (TrParquet ex_tb [2;1] [1;1;1]) 2 (Some [8]) = Ok [ {| ch_index := [0]; ch_names := []; ch_rows := [[]] |};
                                                               {| ch_index := [1]; ch_names := []; ch_rows := [[]] |};
                                                               {| ch_index := [2]; ch_names := []; ch_rows := [[]] |} ].
Proof. vm_compute. reflexivity. Qed.

(* the function of a computed column must work row by row: len(df) differs between chunks *)
Example C13_rowwise_needed :
  let r := TrComputed (TrFrame ex_ta) 9 tr_fn_len in
  tr_read r (Some [9]) = Ok (ch_whole [9] [[3];[3];[3]]%Z)
  /\ tr_chunks r 2 (Some [9])
     = Ok [ {| ch_index := [0;1]; ch_names := [9]; ch_rows := [[2];[2]]%Z |};
            {| ch_index := [2]; ch_names := [9]; ch_rows := [[1]]%Z |} ].
Proof. cbv zeta. split; vm_compute; reflexivity. Qed.

(* buffer_size 0 on a BufferedWriter: `while len(buffer) >= 0` never ends — the model runs out of fuel *)
Example C13_buffer_size_zero_loops : bw_run 0 BwFrame [[1;2]] = Err EFuel.
Proof. vm_compute. reflexivity. Qed.
