(* C19 — PIN -> rectangular TSV conversion.  Statements only; proofs are in Proofs/PinTsvP.v. *)
From Mokaverif Require Import Model.Base Model.PinTsv Proofs.PinTsvP.
Open Scope Z_scope.

(* every non-protein field unchanged, proteins joined, wherever the protein column stands *)
Theorem C19_line : forall (pre prots post : list str) idx ncol,
  Forall (fun f => ~ In TAB f) (pre ++ prots ++ post) ->
  length pre = idx -> prots <> [] -> ncol = (idx + 1 + length post)%nat ->
  convert_line (join TAB (pre ++ prots ++ post)) idx ncol
  = join TAB (pre ++ [join COLON prots] ++ post).
Proof. exact convert_line_ok. Qed.
Print Assumptions C19_line.

(* same header, one line per PSM in order, DefaultDirection dropped, final newline immaterial *)
Theorem C19_file : forall final_nl p, wf p ->
  convert_file (render_pin final_nl p) = Ok (render_tsv p).
Proof. exact convert_file_ok. Qed.
Print Assumptions C19_file.

Theorem C19_valid_out : forall p, wf p -> is_valid (render_tsv p) = Ok true.
Proof. exact valid_output. Qed.
Print Assumptions C19_valid_out.

Theorem C19_idempotent : forall p, wf p -> convert_file (render_tsv p) = Ok (render_tsv p).
Proof. exact convert_idempotent. Qed.
Print Assumptions C19_idempotent.

Theorem C19_valid_iff : forall txt,
  is_valid txt = Ok true <->
  exists h l2 more, lines_of txt = h :: l2 :: more /\
    prefixb DEFAULTDIRECTION l2 = false /\
    Forall (fun l => zcount TAB l = zcount TAB h) (l2 :: more).
Proof. exact is_valid_iff. Qed.
Print Assumptions C19_valid_iff.

(* non-vacuity: a PIN with the protein column in the middle, a DefaultDirection line,
   rows with 2 and 1 proteins satisfies wf *)
Definition ex_pin : pin :=
  {| hdr_pre := [[105;100]]; hdr_post := [[120]];
     dd := Some (DEFAULTDIRECTION ++ [9;45;9;45]);
     rows := [ {| pre := [[97]]; prots := [[80;49];[80;50]]; post := [[49]] |};
               {| pre := [[98]]; prots := [[80;51]]; post := [[50]] |} ] |}.

Example C19_wf_satisfiable : wf ex_pin.
Proof.
  unfold wf, ex_pin, hdr, wf_row, field_ok, first_ok, last_ok; simpl.
  repeat match goal with
  | |- _ /\ _ => split
  | |- Forall _ _ => constructor
  | |- ~ _ => let H := fresh in intros H; simpl in H; intuition discriminate
  | |- _ <> _ => discriminate
  | |- _ = _ => reflexivity
  end.
  all: try (eexists _, _; split; [reflexivity|reflexivity]).
  all: try (eexists _, []; split; [reflexivity|reflexivity]).
  all: try (eexists _, [_;_;_;_;_;_;_;_;_;_;_;_;_;_;_;_;_;_;_]; split; [reflexivity|reflexivity]).
  all: try (eexists _, [_]; split; [reflexivity|reflexivity]).
  all: try (eexists _, [_;_;_;_;_;_;_]; split; [reflexivity|reflexivity]).
Qed.

Example C19_ex_runs :
  convert_file (render_pin false ex_pin) = Ok (render_tsv ex_pin) /\
  render_tsv ex_pin <> render_pin true ex_pin.
Proof. split; [vm_compute; reflexivity | vm_compute; discriminate]. Qed.
