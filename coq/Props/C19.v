(* C19 — PIN -> rectangular TSV conversion.  Statements only; proofs are in Proofs/PinTsvP.v.

   Every theorem is stated for an arbitrary column separator [sepc] (sep_column, one character)
   and an arbitrary protein separator [sepp] (sep_protein, a string: several characters or none;
   [joins sepp l] is Python's sepp.join(l)).  Side conditions:
     - the fields contain neither sepc nor NL (part of [wf sepc p]); file theorems need sepc <> NL;
     - the first/last character of each line survives strip() (part of [wf]);
     - the first PSM line, if there is one, does not start with "DefaultDirection" (part of [wf],
       stated on the line);
     - for the OUTPUT to be valid / a fixed point additionally [out_ok sepc sepp p]: sepp contains
       neither sepc nor NL and the converted first PSM line does not start with "DefaultDirection".
   The number of PSMs is NOT restricted: [wf] holds for a PIN that is only its header, or header +
   DefaultDirection line ([rows p = []]; /repo acb0557 made is_valid_tsv / pin_to_valid_tsv accept
   these), and every theorem below covers them: the conversion is the header line, it is valid, and
   converting it again changes nothing.
   Nothing is left for the default separators only; the default instances (convert_file, is_valid of
   Model/Fs.v) are corollaries at the end. *)
From Mokaverif Require Import Model.Base Model.PinTsv Model.PinVerify Proofs.PinTsvP Proofs.PinVerifyP.
Open Scope Z_scope.

(* every non-protein field unchanged, proteins joined by the requested separator, wherever the
   protein column stands *)
Theorem C19_line : forall sepc sepp (pre prots post : list str) idx ncol,
  Forall (fun f => ~ In sepc f) (pre ++ prots ++ post) ->
  length pre = idx -> prots <> [] -> ncol = (idx + 1 + length post)%nat ->
  convert_line_sep sepc sepp (join sepc (pre ++ prots ++ post)) idx ncol
  = join sepc (pre ++ [joins sepp prots] ++ post).
Proof. exact convert_line_ok. Qed.
Print Assumptions C19_line.

(* same header, one line per PSM in order (the first one included; none for a PIN without PSMs),
   DefaultDirection dropped, final newline immaterial *)
Theorem C19_file : forall sepc sepp final_nl p, sepc <> NL -> wf sepc p ->
  convert_file_sep sepc sepp (render_pin sepc final_nl p) = Ok (render_tsv sepc sepp p).
Proof. exact convert_file_ok. Qed.
Print Assumptions C19_file.

Theorem C19_valid_out : forall sepc sepp p, sepc <> NL -> wf sepc p -> out_ok sepc sepp p ->
  is_valid_sep sepc (render_tsv sepc sepp p) = Ok true.
Proof. exact valid_output. Qed.
Print Assumptions C19_valid_out.

Theorem C19_idempotent : forall sepc sepp p, sepc <> NL -> wf sepc p -> out_ok sepc sepp p ->
  convert_file_sep sepc sepp (render_tsv sepc sepp p) = Ok (render_tsv sepc sepp p).
Proof. exact convert_idempotent. Qed.
Print Assumptions C19_idempotent.

(* reported valid exactly when: there is a header line, the line after it (if any) is no
   DefaultDirection line, every line after the header has the header's number of separators
   (a text that is only its header is valid) *)
Theorem C19_valid_iff : forall sepc txt,
  is_valid_sep sepc txt = Ok true <->
  exists h rest, lines_of txt = h :: rest /\
    match rest with l2 :: _ => prefixb DEFAULTDIRECTION l2 = false | [] => True end /\
    Forall (fun l => zcount sepc l = zcount sepc h) rest.
Proof. exact is_valid_iff. Qed.
Print Assumptions C19_valid_iff.

(* is_valid_tsv answers on every text but the empty one (next(f_in) on a stream without lines) *)
Theorem C19_valid_decided : forall sepc txt,
  (txt <> [] -> exists b, is_valid_sep sepc txt = Ok b) /\
  (txt = [] -> is_valid_sep sepc txt = Err EStopIteration).
Proof. exact is_valid_decided. Qed.
Print Assumptions C19_valid_decided.

(* field-level sufficient conditions for the two "DefaultDirection" clauses of wf / out_ok *)
Theorem C19_dd_clause_line : forall sepc r,
  ~ In sepc DEFAULTDIRECTION -> prots r <> [] ->
  prefixb DEFAULTDIRECTION (hd [] (pre r ++ prots r)) = false ->
  prefixb DEFAULTDIRECTION (row_line sepc r) = false.
Proof. exact dd_clause_line. Qed.
Print Assumptions C19_dd_clause_line.

Theorem C19_dd_clause_tsv : forall sepc sepp r,
  ~ In sepc DEFAULTDIRECTION -> prots r <> [] ->
  prefixb DEFAULTDIRECTION (hd [] (pre r ++ prots r)) = false ->
  (pre r <> [] \/ length (prots r) = 1%nat \/ exists c s, sepp = c :: s /\ ~ In c DEFAULTDIRECTION) ->
  prefixb DEFAULTDIRECTION (row_tsv sepc sepp r) = false.
Proof. exact dd_clause_tsv. Qed.
Print Assumptions C19_dd_clause_tsv.

(* the default arguments: one-character protein separator = the old [join COLON] *)
Theorem C19_joins_single : forall c fs, joins [c] fs = join c fs.
Proof. exact joins_single. Qed.
Print Assumptions C19_joins_single.

Theorem C19_file_default : forall final_nl p, wf TAB p ->
  convert_file (render_pin TAB final_nl p) = Ok (render_tsv TAB [COLON] p).
Proof. exact convert_file_default_ok. Qed.
Print Assumptions C19_file_default.

Theorem C19_valid_iff_default : forall txt,
  is_valid txt = Ok true <->
  exists h rest, lines_of txt = h :: rest /\
    match rest with l2 :: _ => prefixb DEFAULTDIRECTION l2 = false | [] => True end /\
    Forall (fun l => zcount TAB l = zcount TAB h) rest.
Proof. exact is_valid_default_iff. Qed.
Print Assumptions C19_valid_iff_default.

Theorem C19_out_ok_default : forall p, wf TAB p ->
  match rows p with
  | r :: _ => prefixb DEFAULTDIRECTION (hd [] (pre r ++ prots r)) = false
  | [] => True
  end -> out_ok TAB [COLON] p.
Proof. exact default_out_ok. Qed.
Print Assumptions C19_out_ok_default.

(* the CLI's verify step on one well-formed PIN file -- with or without PSMs -- (Model/PinVerify.v:
   is_valid_tsv, then pin_to_valid_tsv unless it said "valid", both with the default separators): it
   does not raise;
   the file is either left as it was (it was valid) or replaced by the rectangular table; what it
   holds afterwards is valid, and running the step again changes nothing *)
Theorem C19_verify_step : forall final_nl p, wf TAB p -> out_ok TAB [COLON] p ->
  exists t, pin_verify_text (render_pin TAB final_nl p) = Ok t /\
    ((t = render_pin TAB final_nl p /\ is_valid (render_pin TAB final_nl p) = Ok true)
     \/ (t = render_tsv TAB [COLON] p /\ is_valid (render_pin TAB final_nl p) = Ok false)) /\
    is_valid t = Ok true /\ pin_verify_text t = Ok t.
Proof. exact pin_verify_ok. Qed.
Print Assumptions C19_verify_step.

Theorem C19_verify_valid_untouched : forall txt, is_valid txt = Ok true -> pin_verify_text txt = Ok txt.
Proof. exact pin_verify_valid_untouched. Qed.
Print Assumptions C19_verify_valid_untouched.

(* non-vacuity: a PIN with the protein column in the middle, a DefaultDirection line,
   rows with 2 and 1 proteins satisfies wf — with TAB and with "," as column separator;
   the FIRST PSM has several proteins *)
Definition ex_pin_of (sepc : Z) : pin :=
  {| hdr_pre := [[105;100]]; hdr_post := [[120]];
     dd := Some (DEFAULTDIRECTION ++ [sepc;45;sepc;45]);
     rows := [ {| pre := [[97]]; prots := [[80;49];[80;50]]; post := [[49]] |};
               {| pre := [[98]]; prots := [[80;51]]; post := [[50]] |} ] |}.
Definition ex_pin : pin := ex_pin_of TAB.
Definition COMMA : Z := 44.
Definition BARS : str := [124;124;124].      (* "|||" *)

Ltac c19_wf :=
  unfold wf, ex_pin, ex_pin_of, hdr, wf_row, field_ok, first_ok, last_ok; simpl;
  repeat match goal with
  | |- _ /\ _ => split
  | |- Forall _ _ => constructor
  | |- ~ _ => let H := fresh in intros H; simpl in H; intuition discriminate
  | |- _ <> _ => discriminate
  | |- _ = _ => reflexivity
  end;
  try (eexists _, _; split; [reflexivity|reflexivity]);
  try (eexists _, []; split; [reflexivity|reflexivity]);
  try (eexists _, [_;_;_;_;_;_;_;_;_;_;_;_;_;_;_;_;_;_;_]; split; [reflexivity|reflexivity]);
  try (eexists _, [_]; split; [reflexivity|reflexivity]);
  try (eexists _, [_;_;_;_;_;_;_]; split; [reflexivity|reflexivity]).

Example C19_wf_satisfiable : wf TAB ex_pin.
Proof. c19_wf. Qed.

Example C19_wf_satisfiable_comma : wf COMMA (ex_pin_of COMMA).
Proof. c19_wf. Qed.

Example C19_out_ok_satisfiable : out_ok TAB [COLON] ex_pin /\ out_ok COMMA BARS (ex_pin_of COMMA)
  /\ out_ok COMMA [] (ex_pin_of COMMA).
Proof.
  unfold out_ok. simpl.
  repeat match goal with
  | |- _ /\ _ => split
  | |- ~ _ => let H := fresh in intros H; simpl in H; intuition discriminate
  | |- _ = _ => reflexivity
  end.
Qed.

Example C19_ex_runs :
  convert_file (render_pin TAB false ex_pin) = Ok (render_tsv TAB [COLON] ex_pin) /\
  render_tsv TAB [COLON] ex_pin <> render_pin TAB true ex_pin.
Proof. split; [vm_compute; reflexivity | vm_compute; discriminate]. Qed.

(* non-default separators: "," between columns, "|||" between proteins; the result differs from
   what the default protein separator gives, already on the first PSM line *)
Example C19_ex_runs_sep :
  convert_file_sep COMMA BARS (render_pin COMMA false (ex_pin_of COMMA))
    = Ok (render_tsv COMMA BARS (ex_pin_of COMMA)) /\
  render_tsv COMMA BARS (ex_pin_of COMMA)
    = [105;100;44;80;114;111;116;101;105;110;115;44;120;10;
       97;44;80;49;124;124;124;80;50;44;49;10;
       98;44;80;51;44;50;10] /\
  render_tsv COMMA BARS (ex_pin_of COMMA) <> render_tsv COMMA [COLON] (ex_pin_of COMMA) /\
  is_valid_sep COMMA (render_tsv COMMA BARS (ex_pin_of COMMA)) = Ok true /\
  is_valid_sep COMMA (render_pin COMMA true (ex_pin_of COMMA)) = Ok false.
Proof. repeat split; try (vm_compute; reflexivity); vm_compute; discriminate. Qed.

(* the verify step on the example: the ragged PIN is replaced by the table, the table is left alone *)
Example C19_ex_verify :
  pin_verify_text (render_pin TAB false ex_pin) = Ok (render_tsv TAB [COLON] ex_pin) /\
  pin_verify_text (render_tsv TAB [COLON] ex_pin) = Ok (render_tsv TAB [COLON] ex_pin).
Proof. split; vm_compute; reflexivity. Qed.

(* ---------- PINs without any PSM (rows = []) ---------- *)
(* header only, and header + DefaultDirection line; both are well-formed, for every separator pair
   the output condition holds, and the theorems above apply to them *)
Definition ex_hdr_only (sepc : Z) : pin :=
  {| hdr_pre := [[105;100]]; hdr_post := [[120]]; dd := None; rows := [] |}.
Definition ex_hdr_dd (sepc : Z) : pin :=
  {| hdr_pre := [[105;100]]; hdr_post := [[120]];
     dd := Some (DEFAULTDIRECTION ++ [sepc;45;sepc;45]); rows := [] |}.

Ltac c19_wf0 :=
  unfold wf, ex_hdr_only, ex_hdr_dd, hdr, wf_row, field_ok, first_ok, last_ok; simpl;
  repeat match goal with
  | |- _ /\ _ => split
  | |- Forall _ _ => constructor
  | |- ~ _ => let H := fresh in intros H; simpl in H; intuition discriminate
  | |- _ <> _ => discriminate
  | |- True => exact I
  | |- _ = _ => reflexivity
  end;
  try (eexists _, [_]; split; [reflexivity|reflexivity]);
  try (eexists _, []; split; [reflexivity|reflexivity]);
  try (eexists _, [_;_;_;_;_;_;_;_;_;_;_;_;_;_;_;_;_;_;_]; split; [reflexivity|reflexivity]).

Example C19_wf_header_only : wf TAB (ex_hdr_only TAB) /\ wf COMMA (ex_hdr_only COMMA).
Proof. split; c19_wf0. Qed.

Example C19_wf_header_dd : wf TAB (ex_hdr_dd TAB) /\ wf COMMA (ex_hdr_dd COMMA).
Proof. split; c19_wf0. Qed.

Example C19_out_ok_zero_psm :
  out_ok TAB [COLON] (ex_hdr_only TAB) /\ out_ok TAB [COLON] (ex_hdr_dd TAB) /\
  out_ok COMMA BARS (ex_hdr_only COMMA) /\ out_ok COMMA BARS (ex_hdr_dd COMMA).
Proof.
  unfold out_ok. simpl.
  repeat match goal with
  | |- _ /\ _ => split
  | |- ~ _ => let H := fresh in intros H; simpl in H; intuition discriminate
  | |- True => exact I
  end.
Qed.

(* "id\tProteins\tx" with and without final newline: valid as it is, converted to header + NL, the
   verify step leaves it alone *)
Example C19_ex_header_only_runs :
  render_pin TAB true (ex_hdr_only TAB) = [105;100;9;80;114;111;116;101;105;110;115;9;120;10] /\
  is_valid (render_pin TAB true (ex_hdr_only TAB)) = Ok true /\
  is_valid (render_pin TAB false (ex_hdr_only TAB)) = Ok true /\
  convert_file (render_pin TAB true (ex_hdr_only TAB)) = Ok (render_pin TAB true (ex_hdr_only TAB)) /\
  convert_file (render_pin TAB false (ex_hdr_only TAB)) = Ok (render_pin TAB true (ex_hdr_only TAB)) /\
  render_tsv TAB [COLON] (ex_hdr_only TAB) = render_pin TAB true (ex_hdr_only TAB) /\
  pin_verify_text (render_pin TAB false (ex_hdr_only TAB)) = Ok (render_pin TAB false (ex_hdr_only TAB)) /\
  is_valid [] = Err EStopIteration /\ convert_file [] = Err EStopIteration.
Proof. repeat split; vm_compute; reflexivity. Qed.

(* header + DefaultDirection line: not valid, converted to the header line, which is valid and a
   fixed point; the verify step replaces the file by the header line and then leaves it alone *)
Example C19_ex_header_dd_runs :
  is_valid (render_pin TAB true (ex_hdr_dd TAB)) = Ok false /\
  is_valid (render_pin TAB false (ex_hdr_dd TAB)) = Ok false /\
  convert_file (render_pin TAB false (ex_hdr_dd TAB)) = Ok (render_tsv TAB [COLON] (ex_hdr_dd TAB)) /\
  render_tsv TAB [COLON] (ex_hdr_dd TAB) = [105;100;9;80;114;111;116;101;105;110;115;9;120;10] /\
  is_valid (render_tsv TAB [COLON] (ex_hdr_dd TAB)) = Ok true /\
  convert_file (render_tsv TAB [COLON] (ex_hdr_dd TAB)) = Ok (render_tsv TAB [COLON] (ex_hdr_dd TAB)) /\
  pin_verify_text (render_pin TAB true (ex_hdr_dd TAB)) = Ok (render_tsv TAB [COLON] (ex_hdr_dd TAB)) /\
  pin_verify_text (render_tsv TAB [COLON] (ex_hdr_dd TAB)) = Ok (render_tsv TAB [COLON] (ex_hdr_dd TAB)) /\
  is_valid_sep COMMA (render_tsv COMMA BARS (ex_hdr_dd COMMA)) = Ok true.
Proof. repeat split; vm_compute; reflexivity. Qed.
