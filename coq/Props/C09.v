(* C09 — a run's results depend only on its inputs, not on leftovers of earlier runs; no intermediate
   file remains.  Statements only; proofs are in Proofs/FsP.v and Proofs/FsValP.v.

   A directory is any association list of file names and contents ([fs]); nothing is assumed about how
   it came about, so every state an earlier run can leave behind — completed, failed, killed between
   any two file operations, with other inputs, chunk sizes or prefixes, torn appends included — is
   covered by the quantification over all directories. *)
From Mokaverif Require Import Model.Base Model.Confidence Model.PinTsv Model.Fs Proofs.FsP Proofs.FsValP Proofs.FsAppendP.
Open Scope Z_scope.

(* ---- generic: any run, as a list of file operations ---- *)

(* if every operation only reads files that were declared inputs (W) or that the run has created
   itself, then from two directories that agree on the inputs the run either stops at the same
   operation or ends in directories that agree on every file the run owns at the end *)
Theorem C09_independent_generic :
  forall (content fn : Type) (apply : fn -> list content -> option content) (cat : content -> content -> content)
         (ops : list (op fn)) (W : list fname) (a b : fs content),
  agree_on content W a b -> wf_ops fn W ops = true ->
  same_outcome content (owned_after fn W ops) (exec content fn apply cat ops a) (exec content fn apply cat ops b).
Proof. exact fs_independent. Qed.
Print Assumptions C09_independent_generic.

(* every file the run wrote, appended to, renamed or removed and does not own at the end is gone *)
Theorem C09_no_intermediates_generic :
  forall (content fn : Type) (apply : fn -> list content -> option content) (cat : content -> content -> content)
         (ops : list (op fn)) (W : list fname) (s s' : fs content),
  wf_ops fn W ops = true -> exec content fn apply cat ops s = Some s' ->
  forall n, fs_mem n (touched fn ops) = true -> fs_mem n (owned_after fn W ops) = false ->
  fs_get content s' n = None.
Proof. exact fs_no_intermediates. Qed.
Print Assumptions C09_no_intermediates_generic.

(* files the run never names keep their content *)
Theorem C09_untouched_generic :
  forall (content fn : Type) (apply : fn -> list content -> option content) (cat : content -> content -> content)
         (ops : list (op fn)) (W : list fname) (s s' : fs content),
  wf_ops fn W ops = true -> exec content fn apply cat ops s = Some s' ->
  forall n, fs_mem n (touched fn ops) = false -> fs_get content s' n = fs_get content s n.
Proof. exact fs_untouched. Qed.
Print Assumptions C09_untouched_generic.

(* a run with that discipline never stops for a missing file *)
Theorem C09_no_missing_file_generic :
  forall (content fn : Type) (apply : fn -> list content -> option content) (cat : content -> content -> content)
         (ops : list (op fn)) (W : list fname) (s : fs content),
  present content W s -> wf_ops fn W ops = true -> (forall f cs, apply f cs <> None) ->
  exec content fn apply cat ops s <> None.
Proof. exact fs_wf_no_missing_file. Qed.
Print Assumptions C09_no_missing_file_generic.

(* ---- assign_confidence ---- *)

(* the operation list of assign_confidence (chunk files addressed by the names the run wrote) has the
   discipline, for every table, chunk size, level count, file format, prefix layout and option set.
   [run_okp g]: chunk files not found by glob, results not appended to files of earlier runs, and — when a protein level
   is requested — there is a peptide level to read from and the picked-protein oracle is given; [run_ok g] (no protein
   level) implies it *)
Theorem C09_run_ok_okp : forall g, run_ok g -> run_okp g.
Proof. exact run_ok_okp. Qed.
Print Assumptions C09_run_ok_okp.

Theorem C09_run_reads_only_its_own_files : forall g, run_okp g -> wf_ops cfn [] (fs_run_ops g) = true.
Proof. exact run_ops_wf. Qed.
Print Assumptions C09_run_reads_only_its_own_files.

(* the result files are the same from any two directories whatsoever (in particular: from a
   directory full of leftovers and from an empty one), and the run succeeds in one iff in the other *)
Theorem C09_independent : forall g sA sB, run_okp g ->
  match fs_run g None sA, fs_run g None sB with
  | Some a, Some b => forall n, In n (fs_result_names g) -> fs_get ccontent a n = fs_get ccontent b n
  | None, None => True
  | _, _ => False
  end.
Proof. exact run_independent. Qed.
Print Assumptions C09_independent.

(* after a successful run none of the chunk files and level files it used exists *)
Theorem C09_no_intermediates : forall g s s', run_okp g -> fs_run g None s = Some s' ->
  forall n, fs_mem n (touched cfn (fs_run_ops g)) = true -> is_result n = false ->
  fs_get ccontent s' n = None.
Proof. exact run_no_intermediates. Qed.
Print Assumptions C09_no_intermediates.

(* the run only ever writes, appends to or removes its own chunk, level and result files: the user's
   input files and unrelated files in the directory keep their content *)
Theorem C09_touches_own_files : forall g, fg_glob g = false -> fg_proteins g = false ->
  forallb run_file (touched cfn (fs_run_ops g)) = true.
Proof. exact run_touches_own_files. Qed.
Print Assumptions C09_touches_own_files.

Theorem C09_untouched : forall g s s', run_okp g -> fs_run g None s = Some s' ->
  forall n, fs_mem n (touched cfn (fs_run_ops g)) = false -> fs_get ccontent s' n = fs_get ccontent s n.
Proof. exact run_untouched. Qed.
Print Assumptions C09_untouched.

(* ---- refinement to the abstract effect ---- *)

(* executing the run operation by operation on ANY directory always succeeds and ends in the directory given by
   [run_effect]: per collection, the run's chunk and level files are absent, each result file holds (after what it
   held before, for the later ones of several un-prefixed collections) the target resp. decoy rows of that level
   with their q-values, every other file is as it was *)
Theorem C09_run_refines_effect : forall g s, run_ok g -> (0 < fg_c g)%nat ->
  exists s', fs_run g None s = Some s' /\
    forall n, fs_get ccontent s' n = run_effect g false (fg_colls g) (fs_get ccontent s) n.
Proof. exact run_exec. Qed.
Print Assumptions C09_run_refines_effect.

(* for one collection the result files are exactly the outputs of the C03 model (cf_confidence): what C03 proves
   about them (best row per entity, order, q-values) holds of the files a run leaves in any directory *)
Theorem C09_results_are_C03 : forall g cl s, run_ok g -> (0 < fg_c g)%nat -> fg_colls g = [cl] ->
  exists s', fs_run g None s = Some s' /\
    forall lv, (lv < fg_nlevels g)%nat ->
      fs_get ccontent s' (NResult (fc_pfx cl) false lv)
        = Some (fst (nth lv (cf_confidence (fg_c g) (fg_dedup g) (fg_nlevels g) (fc_rows cl)) ([], []))) /\
      (fg_decoys g = true ->
       fs_get ccontent s' (NResult (fc_pfx cl) true lv)
        = Some (snd (nth lv (cf_confidence (fg_c g) (fg_dedup g) (fg_nlevels g) (fc_rows cl)) ([], [])))).
Proof. exact run_single_results. Qed.
Print Assumptions C09_results_are_C03.

(* ---- the refinement with the protein level ----
   The picked-protein step is an oracle (C15 covers the computation): a collection carries the value recorded for it,
   [fc_prot cl = Some (ids, prows)] — the PSM ids of the peptide-level file the step read, and the rows it wrote to the
   protein-level file <file_root>proteins = [NLevel (fg_nlevels g) (fg_ext g)].  The model uses the recorded rows only if
   the peptide-level file THIS run has just written has exactly these PSM ids; otherwise the step raises.
   [prot_key_ok g cl] is that condition: *)
Theorem C09_oracle_key : forall g cl, prot_key_ok g cl = true <->
  (fg_proteins g = true -> forall ids prows, fc_prot cl = Some (ids, prows) -> ids = coll_pep_ids g cl).
Proof. exact prot_key_ok_iff. Qed.
Print Assumptions C09_oracle_key.

(* [run_effect_p]: as [run_effect], for [fs_nres g] levels (the rollup levels, plus the protein level when requested): per
   collection the chunk files and ALL level files — the protein-level file included — are absent, every result file
   holds (after what it held before, for the later ones of several un-prefixed collections) the target resp. decoy rows
   of its level with their q-values, the rows of the protein level being the oracle's; every other file is as it was.
   Executing the run operation by operation on ANY directory ends in that directory if every recorded oracle value
   belongs to this run, and fails (at the picked-protein step) otherwise *)
Theorem C09_run_refines_effect_proteins : forall g s, run_okp g -> (0 < fg_c g)%nat ->
  if forallb (prot_key_ok g) (fg_colls g)
  then exists s', fs_run g None s = Some s' /\
         forall n, fs_get ccontent s' n = run_effect_p g false (fg_colls g) (fs_get ccontent s) n
  else fs_run g None s = None.
Proof. exact run_exec_p. Qed.
Print Assumptions C09_run_refines_effect_proteins.

Theorem C09_run_refines_effect_proteins_ok : forall g s, run_okp g -> (0 < fg_c g)%nat ->
  (forall cl, In cl (fg_colls g) -> prot_key_ok g cl = true) ->
  exists s', fs_run g None s = Some s' /\
    forall n, fs_get ccontent s' n = run_effect_p g false (fg_colls g) (fs_get ccontent s) n.
Proof. exact run_exec_keys. Qed.
Print Assumptions C09_run_refines_effect_proteins_ok.

Theorem C09_oracle_key_mismatch_fails : forall g s cl, run_okp g -> (0 < fg_c g)%nat ->
  In cl (fg_colls g) -> prot_key_ok g cl = false -> fs_run g None s = None.
Proof. exact run_key_mismatch. Qed.
Print Assumptions C09_oracle_key_mismatch_fails.

(* without protein level the two effects are the same function: C09_run_refines_effect is the instance
   [fg_proteins g = false] of C09_run_refines_effect_proteins *)
Theorem C09_effect_without_proteins : forall g, fg_proteins g = false ->
  forall cls seen v n, run_effect_p g seen cls v n = run_effect g seen cls v n.
Proof. exact run_effect_p_noprot. Qed.
Print Assumptions C09_effect_without_proteins.

(* one collection with protein level, from any directory: the protein-level result files hold exactly the rows the oracle
   returned for this run's peptide level, targets and decoys apart, each row with its q-value
   ([side d rows] = the rows of [combine rows (cf_qvalues rows)] whose target flag is [negb d]); the protein-level file
   is gone; the result files of the other levels are the outputs of the C03 model, as without proteins *)
Theorem C09_protein_results : forall g cl ids prows s, run_okp g -> (0 < fg_c g)%nat -> fg_colls g = [cl] ->
  fg_proteins g = true -> fc_prot cl = Some (ids, prows) -> ids = coll_pep_ids g cl ->
  exists s', fs_run g None s = Some s' /\
    fs_get ccontent s' (NResult (fc_pfx cl) false (fg_nlevels g)) = Some (side false prows) /\
    (fg_decoys g = true -> fs_get ccontent s' (NResult (fc_pfx cl) true (fg_nlevels g)) = Some (side true prows)) /\
    fs_get ccontent s' (NLevel (fg_nlevels g) (fg_ext g)) = None /\
    forall lv, (lv < fg_nlevels g)%nat ->
      fs_get ccontent s' (NResult (fc_pfx cl) false lv)
        = Some (fst (nth lv (cf_confidence (fg_c g) (fg_dedup g) (fg_nlevels g) (fc_rows cl)) ([], []))) /\
      (fg_decoys g = true ->
       fs_get ccontent s' (NResult (fc_pfx cl) true lv)
        = Some (snd (nth lv (cf_confidence (fg_c g) (fg_dedup g) (fg_nlevels g) (fc_rows cl)) ([], [])))).
Proof. exact run_single_results_p. Qed.
Print Assumptions C09_protein_results.

(* the run with protein level and the same run without it ([fs_noprot g]: the same configuration, proteins off), started
   in the same arbitrary directory, end in directories that differ at most in the protein-level file and the
   protein-level result files ([prot_name]): the PSM, peptide and other rollup-level result files are identical, for any
   number of collections and any prefix layout *)
Theorem C09_proteins_do_not_change_other_levels : forall g s, run_okp g -> (0 < fg_c g)%nat ->
  (forall cl, In cl (fg_colls g) -> prot_key_ok g cl = true) ->
  exists s' s0, fs_run g None s = Some s' /\ fs_run (fs_noprot g) None s = Some s0 /\
    forall n, prot_name g n = false -> fs_get ccontent s' n = fs_get ccontent s0 n.
Proof. exact run_proteins_other_files. Qed.
Print Assumptions C09_proteins_do_not_change_other_levels.

(* with or without protein level the run only ever names its own chunk, level and result files *)
Theorem C09_touches_own_files_proteins : forall g, fg_glob g = false ->
  forallb run_file (touched cfn (fs_run_ops g)) = true.
Proof. exact run_touches_own_files_g. Qed.
Print Assumptions C09_touches_own_files_proteins.

(* ---- append_to_output_file=True ([fg_append g = true]) ----
   The result files are not created afresh: the rows are appended to whatever is under these names (documented behaviour;
   the command line uses it for several PIN files that share result files).  The result files of the run
   ([fs_result_names g]) are then INPUTS: the results depend on the starting directory through them, and — this is what the
   theorems say — through nothing else, and in exactly one way: old content first, then the rows of the run.
   [run_oka g] is [run_okp g] with the flag the other way round: chunk files not found by glob, fg_append g = true, and — when
   a protein level is requested — a peptide level to read from and the recorded oracle value. *)

(* with its result files counted as declared inputs the append-mode run has the discipline of C09_independent_generic *)
Theorem C09_append_reads_only_result_files_and_its_own : forall g, run_oka g ->
  wf_ops cfn (fs_result_names g) (fs_run_ops g) = true.
Proof. exact run_ops_wf_append. Qed.
Print Assumptions C09_append_reads_only_result_files_and_its_own.

(* independence from every file EXCEPT the own result files: two directories that agree on these — and differ in anything
   else: stale chunk and level files, result files of other prefixes / levels, ... — give the same result files, and the run
   succeeds in one iff in the other *)
Theorem C09_append_depends_only_on_result_files : forall g sA sB, run_oka g ->
  (forall n, In n (fs_result_names g) -> fs_get ccontent sA n = fs_get ccontent sB n) ->
  match fs_run g None sA, fs_run g None sB with
  | Some a, Some b => forall n, In n (fs_result_names g) -> fs_get ccontent a n = fs_get ccontent b n
  | None, None => True
  | _, _ => False
  end.
Proof. exact run_append_independent. Qed.
Print Assumptions C09_append_depends_only_on_result_files.

(* no chunk file, level file or protein-level file the run used is left *)
Theorem C09_append_no_intermediates : forall g s s', run_oka g -> fs_run g None s = Some s' ->
  forall n, fs_mem n (touched cfn (fs_run_ops g)) = true -> is_result n = false ->
  fs_get ccontent s' n = None.
Proof. exact run_append_no_intermediates. Qed.
Print Assumptions C09_append_no_intermediates.

(* footprint: files the run does not name keep their content (C09_touches_own_files_proteins, which does not mention
   fg_append, says that the names are chunk, level and result names) — and the only result files it names are its own *)
Theorem C09_append_untouched : forall g s s', run_oka g -> fs_run g None s = Some s' ->
  forall n, fs_mem n (touched cfn (fs_run_ops g)) = false -> fs_get ccontent s' n = fs_get ccontent s n.
Proof. exact run_append_untouched. Qed.
Print Assumptions C09_append_untouched.

Theorem C09_append_touches_own_result_files_only : forall g, run_oka g ->
  forall n, is_result n = true -> fs_mem n (touched cfn (fs_run_ops g)) = true -> In n (fs_result_names g).
Proof. exact run_append_touches_own_results. Qed.
Print Assumptions C09_append_touches_own_result_files_only.

(* refinement from ANY directory, for either value of fg_append, without any hypothesis on result files: [run_effect_a] is
   [run_effect_p] except that a result file a collection appends to and that is ABSENT is created by the first append —
   rows only, the header that [initialize] would have written is not in the model's contents — and stays absent when the
   levels behind it have no row (nothing is appended then).  In particular a missing result file is never an error *)
Theorem C09_run_refines_effect_any_directory : forall g s, fg_glob g = false ->
  (forall cl, In cl (fg_colls g) -> prot_ok g cl) -> (0 < fg_c g)%nat ->
  if forallb (prot_key_ok g) (fg_colls g)
  then exists s', fs_run g None s = Some s' /\
         forall n, fs_get ccontent s' n = run_effect_a g false (fg_colls g) (fs_get ccontent s) n
  else fs_run g None s = None.
Proof. exact run_exec_any. Qed.
Print Assumptions C09_run_refines_effect_any_directory.

Theorem C09_append_succeeds_from_any_directory : forall g s, run_oka g -> (0 < fg_c g)%nat ->
  (fs_run g None s <> None <-> forallb (prot_key_ok g) (fg_colls g) = true).
Proof. exact run_append_succeeds. Qed.
Print Assumptions C09_append_succeeds_from_any_directory.

(* where the result files a collection appends to are present, the two effects coincide *)
Theorem C09_effect_with_result_files_present : forall g cls seen v,
  (forall cl n, In cl cls -> own_result_p g cl n = true -> v n <> None) ->
  forall n, run_effect_a g seen cls v n = run_effect_p g seen cls v n.
Proof. exact run_effect_a_present. Qed.
Print Assumptions C09_effect_with_result_files_present.

(* hence, started with its result files present ([results_present g s]) in an otherwise arbitrary directory, the
   append-mode run ends in the directory given by the abstract effect of C09_run_refines_effect(_proteins): with
   fg_append g = true every collection's clause is [coll_effect(_p) g true]: chunk and level files absent, result file =
   what it held ++ the target resp. decoy rows of its level with their q-values, every other name as it was *)
Theorem C09_append_refines_effect_proteins : forall g s, run_oka g -> (0 < fg_c g)%nat -> results_present g s ->
  if forallb (prot_key_ok g) (fg_colls g)
  then exists s', fs_run g None s = Some s' /\
         forall n, fs_get ccontent s' n = run_effect_p g false (fg_colls g) (fs_get ccontent s) n
  else fs_run g None s = None.
Proof. exact run_exec_append_p. Qed.
Print Assumptions C09_append_refines_effect_proteins.

Theorem C09_append_refines_effect : forall g s, fg_glob g = false -> fg_append g = true -> fg_proteins g = false ->
  (0 < fg_c g)%nat -> results_present g s ->
  exists s', fs_run g None s = Some s' /\
    forall n, fs_get ccontent s' n = run_effect g false (fg_colls g) (fs_get ccontent s) n.
Proof. exact run_exec_append. Qed.
Print Assumptions C09_append_refines_effect.

(* file by file, from EVERY directory: [own_rows g cls n] = the rows the collections writing to [n] add, in the order of
   the call (per collection: [side d] of the file's level — the rows of that level with target flag [negb d], each with
   its q-value); [file_after old lrows rows] = [old ++ rows] for a file that was there, and for an absent one: created
   holding [rows], unless the levels behind it ([own_lrows]) have no row at all *)
Theorem C09_append_files : forall g s, run_oka g -> (0 < fg_c g)%nat ->
  (forall cl, In cl (fg_colls g) -> prot_key_ok g cl = true) ->
  exists s', fs_run g None s = Some s' /\
    forall n, In n (fs_result_names g) ->
      fs_get ccontent s' n = file_after (fs_get ccontent s n) (own_lrows g (fg_colls g) n) (own_rows g (fg_colls g) n).
Proof. exact run_append_files. Qed.
Print Assumptions C09_append_files.

(* [own_rows] is what the run WITHOUT appending leaves in its result files, from any directory — provided no prefix other
   than "none" is used by two collections ([pfx_distinct]: a collection with a prefix creates its result files afresh, so
   the second one of the same prefix truncates what the first one wrote) *)
Theorem C09_clean_run_rows : forall g s, run_okp g -> (0 < fg_c g)%nat ->
  (forall cl, In cl (fg_colls g) -> prot_key_ok g cl = true) -> pfx_distinct (fg_colls g) = true ->
  exists c', fs_run g None s = Some c' /\
    forall n, In n (fs_result_names g) -> fs_get ccontent c' n = Some (own_rows g (fg_colls g) n).
Proof. exact run_clean_rows. Qed.
Print Assumptions C09_clean_run_rows.

(* the dependence on what was there is exactly a prefix: afterwards each own result file holds its previous content
   followed by what the clean run — same configuration with fg_append = false ([fs_noappend g]), empty directory — writes *)
Theorem C09_append_prefix : forall g s, run_oka g -> (0 < fg_c g)%nat ->
  (forall cl, In cl (fg_colls g) -> prot_key_ok g cl = true) -> pfx_distinct (fg_colls g) = true ->
  results_present g s ->
  exists s' c', fs_run g None s = Some s' /\ fs_run (fs_noappend g) None [] = Some c' /\
    forall n, In n (fs_result_names g) ->
      exists old new, fs_get ccontent s n = Some old /\ fs_get ccontent c' n = Some new /\
                      fs_get ccontent s' n = Some (old ++ new).
Proof. exact run_append_prefix. Qed.
Print Assumptions C09_append_prefix.

(* result files present but empty (header only): the results are the clean run's *)
Theorem C09_append_from_empty_result_files : forall g s, run_oka g -> (0 < fg_c g)%nat ->
  (forall cl, In cl (fg_colls g) -> prot_key_ok g cl = true) -> pfx_distinct (fg_colls g) = true ->
  (forall n, In n (fs_result_names g) -> fs_get ccontent s n = Some []) ->
  exists s' c', fs_run g None s = Some s' /\ fs_run (fs_noappend g) None [] = Some c' /\
    forall n, In n (fs_result_names g) -> fs_get ccontent s' n = fs_get ccontent c' n.
Proof. exact run_append_from_empty_files. Qed.
Print Assumptions C09_append_from_empty_result_files.

(* [pfx_distinct] cannot be dropped from the last three statements: with one prefix used twice the append-mode run keeps
   the rows of both collections, the clean run only those of the second (C09_append_files holds regardless) *)
Theorem C09_append_duplicate_prefix :
  exists g s n, run_oka g /\ pfx_distinct (fg_colls g) = false /\ In n (fs_result_names g) /\ fs_get ccontent s n = Some [] /\
    match fs_run g None s, fs_run (fs_noappend g) None [] with
    | Some s', Some c' => fs_get ccontent s' n <> fs_get ccontent c' n
    | _, _ => False
    end.
Proof. exact run_append_duplicate_prefix. Qed.
Print Assumptions C09_append_duplicate_prefix.

(* the appends to the file of level j happen batch 0, 1, 2, ... in order, the last one being the final flush —
   however the batches of different levels interleave *)
Theorem C09_level_appends_in_order : forall c, (0 < c)%nat -> forall dedup nl stream j, (j < nl)%nat ->
  ev_of j (fs_level_events c dedup nl stream)
  = map (pair j) (seq 0 (S (length (nth j (cf_levels_run cf_row cf_lkey dedup nl stream) []) / c))).
Proof. exact level_events_of_level. Qed.
Print Assumptions C09_level_appends_in_order.

(* the code before the repair found its chunk files by glob: one stale chunk file of a killed
   earlier run changes the results *)
Theorem C09_glob_refuted :
  exists g sA sB n, fg_glob g = true /\ In n (fs_result_names g) /\
    match fs_run g None sA, fs_run g None sB with
    | Some a, Some b => fs_get ccontent a n <> fs_get ccontent b n
    | _, _ => False
    end.
Proof. exact run_glob_refuted. Qed.
Print Assumptions C09_glob_refuted.

(* ---- the CLI's PIN verify step ---- *)

(* the user's PIN after the step depends on the user's PIN only, whatever <pin>.tsv held before *)
Theorem C09_pin_not_mixed : forall p sA sB,
  fs_get str sA (NPin p) = fs_get str sB (NPin p) ->
  match fs_verify false p sA, fs_verify false p sB with
  | Some a, Some b => fs_get str a (NPin p) = fs_get str b (NPin p)
  | None, None => True
  | _, _ => False
  end.
Proof. exact verify_independent. Qed.
Print Assumptions C09_pin_not_mixed.

Theorem C09_pin_tmp_removed : forall p s s' txt,
  fs_get str s (NPin p) = Some txt -> is_valid txt = Ok false ->
  fs_verify false p s = Some s' -> fs_get str s' (NTmpTsv p) = None.
Proof. exact verify_no_tmp. Qed.
Print Assumptions C09_pin_tmp_removed.

(* the code before the repair opened <pin>.tsv in append mode *)
Theorem C09_pin_append_refuted :
  exists p sA sB, fs_get str sA (NPin p) = fs_get str sB (NPin p) /\
    match fs_verify true p sA, fs_verify true p sB with
    | Some a, Some b => fs_get str a (NPin p) <> fs_get str b (NPin p)
    | _, _ => False
    end.
Proof. exact verify_append_refuted. Qed.
Print Assumptions C09_pin_append_refuted.

(* ---- non-vacuity ---- *)
Definition ex_rows : list cf_row :=
  [ {| cf_id := 1; cf_spec := 1; cf_keys := [1]; cf_target := true;  cf_score := 9 |};
    {| cf_id := 2; cf_spec := 1; cf_keys := [2]; cf_target := false; cf_score := 7 |};
    {| cf_id := 3; cf_spec := 2; cf_keys := [1]; cf_target := true;  cf_score := 5 |};
    {| cf_id := 4; cf_spec := 3; cf_keys := [3]; cf_target := false; cf_score := 4 |};
    {| cf_id := 5; cf_spec := 4; cf_keys := [3]; cf_target := true;  cf_score := 2 |} ].
Definition ex_cfg : fs_cfg :=
  {| fg_ext := false; fg_c := 2; fg_dedup := true; fg_nlevels := 2; fg_decoys := true; fg_append := false;
     fg_glob := false; fg_proteins := false;
     fg_colls := [ {| fc_pfx := 0; fc_rows := ex_rows; fc_prot := None |}; {| fc_pfx := 0; fc_rows := ex_rows; fc_prot := None |};
                   {| fc_pfx := 3; fc_rows := ex_rows; fc_prot := None |} ] |}.
(* leftovers: a stale chunk file with the run's own prefix, a stale level file, an old result file *)
Definition ex_dirty : cfs :=
  [ (NChunk 0 7 false, fs_plain ex_rows); (NLevel 1 false, fs_plain ex_rows);
    (NResult 0 false 0, fs_plain ex_rows); (NResult 3 false 0, fs_plain ex_rows); (NOther 5, []) ].

Example C09_run_ok_satisfiable : run_ok ex_cfg.
Proof. repeat split. Qed.

(* the run succeeds from the dirty directory, gives the results of the clean directory, removes its
   intermediates and leaves the foreign stale chunk file and the unrelated file alone *)
Example C09_example_run :
  match fs_run ex_cfg None ex_dirty, fs_run ex_cfg None [] with
  | Some a, Some b =>
      map (fs_get ccontent a) (fs_result_names ex_cfg) = map (fs_get ccontent b) (fs_result_names ex_cfg) /\
      map (fun c => map (fun r => cf_id (fst r)) c) (match fs_get ccontent a (NResult 0 false 0) with Some c => [c] | None => [] end)
        = [[1; 3; 5; 1; 3; 5]] /\
      map (fun c => map (fun r => cf_id (fst r)) c) (match fs_get ccontent a (NResult 3 false 0) with Some c => [c] | None => [] end)
        = [[1; 3; 5]] /\
      fs_get ccontent a (NLevel 1 false) = None /\ fs_get ccontent a (NChunk 0 0 false) = None /\
      fs_get ccontent a (NChunk 0 7 false) = Some (fs_plain ex_rows) /\ fs_get ccontent a (NOther 5) = Some []
  | _, _ => False
  end.
Proof. vm_compute. repeat split. Qed.

(* with a protein level: the picked-protein step (an oracle keyed by the PSM ids of the peptide-level file) reads level 1
   and writes the protein-level file, which is consumed and removed like every other level file *)
Definition ex_prot_rows : list cf_row :=
  [ {| cf_id := 901; cf_spec := 0; cf_keys := []; cf_target := true;  cf_score := 9 |};
    {| cf_id := 902; cf_spec := 0; cf_keys := []; cf_target := false; cf_score := 4 |} ].
Definition ex_cfg_prot : fs_cfg :=
  {| fg_ext := false; fg_c := 2; fg_dedup := true; fg_nlevels := 2; fg_decoys := true; fg_append := false;
     fg_glob := false; fg_proteins := true;
     fg_colls := [ {| fc_pfx := 0; fc_rows := ex_rows; fc_prot := Some ([1; 4], ex_prot_rows) |} ] |}.
Example C09_run_okp_proteins_satisfiable : run_okp ex_cfg_prot.
Proof.
  split; [reflexivity|]. split; [reflexivity|]. intros cl [<-|[]] _. split; [cbn; auto with arith | discriminate].
Qed.

Example C09_example_proteins :
  match fs_run ex_cfg_prot None ex_dirty with
  | Some a =>
      map (fun c => map (fun r => cf_id (fst r)) c) (match fs_get ccontent a (NResult 0 false 2) with Some c => [c] | None => [] end)
        = [[901]] /\
      map (fun c => map (fun r => cf_id (fst r)) c) (match fs_get ccontent a (NResult 0 true 2) with Some c => [c] | None => [] end)
        = [[902]] /\
      fs_get ccontent a (NLevel 2 false) = None /\ fs_get ccontent a (NLevel 1 false) = None
  | None => False
  end.
Proof. vm_compute. repeat split. Qed.

(* the refinement with protein level on a non-trivial configuration: three collections (two share the un-prefixed result
   files, one has its own), each with its recorded oracle value, started in a directory that holds leftovers under the very
   names the run uses — a stale protein-level file and stale protein-level result files among them *)
Definition ex_rows2 : list cf_row :=
  [ {| cf_id := 11; cf_spec := 1; cf_keys := [7]; cf_target := false; cf_score := 8 |};
    {| cf_id := 12; cf_spec := 2; cf_keys := [8]; cf_target := true;  cf_score := 6 |};
    {| cf_id := 13; cf_spec := 3; cf_keys := [8]; cf_target := true;  cf_score := 6 |};
    {| cf_id := 14; cf_spec := 4; cf_keys := [9]; cf_target := true;  cf_score := 1 |} ].
Definition ex_prot_rows2 : list cf_row :=
  [ {| cf_id := 911; cf_spec := 0; cf_keys := []; cf_target := true;  cf_score := 8 |};
    {| cf_id := 912; cf_spec := 0; cf_keys := []; cf_target := false; cf_score := 6 |};
    {| cf_id := 913; cf_spec := 0; cf_keys := []; cf_target := true;  cf_score := 3 |} ].
Definition ex_cfg_prot3 : fs_cfg :=
  {| fg_ext := false; fg_c := 2; fg_dedup := true; fg_nlevels := 2; fg_decoys := true; fg_append := false;
     fg_glob := false; fg_proteins := true;
     fg_colls := [ {| fc_pfx := 0; fc_rows := ex_rows;  fc_prot := Some ([1; 4], ex_prot_rows) |};
                   {| fc_pfx := 0; fc_rows := ex_rows2; fc_prot := Some ([11; 12; 14], ex_prot_rows2) |};
                   {| fc_pfx := 3; fc_rows := ex_rows;  fc_prot := Some ([1; 4], ex_prot_rows) |} ] |}.
Definition ex_dirty_prot : cfs :=
  ex_dirty ++ [ (NLevel 2 false, fs_plain ex_rows); (NResult 0 false 2, fs_plain ex_rows); (NResult 3 true 2, fs_plain ex_rows2);
                (NLevel 2 true, fs_plain ex_rows); (NResult 0 false 3, fs_plain ex_rows) ].

Example C09_run_okp_proteins3_satisfiable :
  run_okp ex_cfg_prot3 /\ (0 < fg_c ex_cfg_prot3)%nat /\
  (forall cl, In cl (fg_colls ex_cfg_prot3) -> prot_key_ok ex_cfg_prot3 cl = true).
Proof.
  split; [|split].
  - split; [reflexivity|]. split; [reflexivity|].
    intros cl [<-|[<-|[<-|[]]]] _; (split; [cbn; auto with arith | discriminate]).
  - cbn; auto with arith.
  - intros cl [<-|[<-|[<-|[]]]]; vm_compute; reflexivity.
Qed.

(* what [fs_run] computes on the dirty directory is the right-hand side of C09_run_refines_effect_proteins, on every name
   the run's operations mention, every result name and every name present before *)
Definition ex_names_prot : list fname :=
  fs_result_names ex_cfg_prot3 ++ map snd (fs_run_trace ex_cfg_prot3) ++ map fst ex_dirty_prot.
Example C09_example_effect_proteins :
  match fs_run ex_cfg_prot3 None ex_dirty_prot with
  | Some a =>
      map (fs_get ccontent a) ex_names_prot
        = map (run_effect_p ex_cfg_prot3 false (fg_colls ex_cfg_prot3) (fs_get ccontent ex_dirty_prot)) ex_names_prot /\
      (* the un-prefixed protein-level files: the oracle rows of collection 1, then those of collection 2, with q-values *)
      map (fun c => map (fun r => (cf_id (fst r), snd r)) c) (match fs_get ccontent a (NResult 0 false 2) with Some c => [c] | None => [] end)
        = [[(901, 1 # 1); (911, 1 # 1); (913, 2 # 2)]] /\
      map (fun c => map (fun r => cf_id (fst r)) c) (match fs_get ccontent a (NResult 0 true 2) with Some c => [c] | None => [] end)
        = [[902; 912]] /\
      map (fun c => map (fun r => cf_id (fst r)) c) (match fs_get ccontent a (NResult 3 true 2) with Some c => [c] | None => [] end)
        = [[902]] /\
      fs_get ccontent a (NLevel 2 false) = None /\
      (* not the run's: the Parquet-named level file, a result file of a level the run does not have *)
      fs_get ccontent a (NLevel 2 true) = Some (fs_plain ex_rows) /\ fs_get ccontent a (NResult 0 false 3) = Some (fs_plain ex_rows)
  | None => False
  end.
Proof. vm_compute. repeat split. Qed.

(* the same run without protein level leaves the same files except the protein-level ones *)
Example C09_example_proteins_other_levels :
  match fs_run ex_cfg_prot3 None ex_dirty_prot, fs_run (fs_noprot ex_cfg_prot3) None ex_dirty_prot with
  | Some a, Some b =>
      let names := filter (fun n => negb (prot_name ex_cfg_prot3 n)) ex_names_prot in
      map (fs_get ccontent a) names = map (fs_get ccontent b) names /\ (8 <? length names)%nat = true
  | _, _ => False
  end.
Proof. vm_compute. split; reflexivity. Qed.

(* an oracle value recorded for another peptide level (ids 1, 3 instead of 1, 4): the picked-protein step raises *)
Definition ex_cfg_prot_badkey : fs_cfg :=
  {| fg_ext := false; fg_c := 2; fg_dedup := true; fg_nlevels := 2; fg_decoys := true; fg_append := false;
     fg_glob := false; fg_proteins := true;
     fg_colls := [ {| fc_pfx := 0; fc_rows := ex_rows; fc_prot := Some ([1; 3], ex_prot_rows) |} ] |}.
Example C09_example_key_mismatch :
  forallb (prot_key_ok ex_cfg_prot_badkey) (fg_colls ex_cfg_prot_badkey) = false /\
  fs_run ex_cfg_prot_badkey None ex_dirty_prot = None /\ fs_run ex_cfg_prot_badkey None [] = None.
Proof. vm_compute. repeat split. Qed.

(* ---- append mode: two collections (one un-prefixed, one with prefix 3), fg_append = true, started in a dirty directory:
   stale chunk files under the run's own names, a stale level file, a result file of a foreign prefix, and the run's own
   eight result files holding rows of earlier runs (some of them header only) *)
Definition ex_cfg_app : fs_cfg :=
  {| fg_ext := false; fg_c := 2; fg_dedup := true; fg_nlevels := 2; fg_decoys := true; fg_append := true;
     fg_glob := false; fg_proteins := false;
     fg_colls := [ {| fc_pfx := 0; fc_rows := ex_rows; fc_prot := None |}; {| fc_pfx := 3; fc_rows := ex_rows2; fc_prot := None |} ] |}.
Definition ex_old : ccontent := [ (List.hd (ap_row 0 0 true 0) ex_prot_rows, 1 # 2) ].
Definition ex_dirty_app : cfs :=
  [ (NChunk 0 7 false, fs_plain ex_rows); (NChunk 3 0 false, fs_plain ex_rows); (NLevel 1 false, fs_plain ex_rows2);
    (NResult 0 false 0, fs_plain ex_rows2); (NResult 0 true 0, []); (NResult 0 false 1, ex_old); (NResult 0 true 1, []);
    (NResult 3 false 0, fs_plain ex_rows); (NResult 3 true 0, ex_old); (NResult 3 false 1, []); (NResult 3 true 1, fs_plain ex_rows2);
    (NResult 5 false 0, fs_plain ex_rows); (NOther 5, []) ].

Example C09_run_oka_satisfiable :
  run_oka ex_cfg_app /\ (0 < fg_c ex_cfg_app)%nat /\ results_present ex_cfg_app ex_dirty_app /\
  pfx_distinct (fg_colls ex_cfg_app) = true /\ (forall cl, In cl (fg_colls ex_cfg_app) -> prot_key_ok ex_cfg_app cl = true).
Proof.
  split; [|split; [|split; [|split]]].
  - split; [reflexivity|]. split; [reflexivity|]. intros cl _ E. discriminate E.
  - cbn; auto with arith.
  - intros n Hn. cbn in Hn. repeat (destruct Hn as [<-|Hn]; [vm_compute; discriminate|]). destruct Hn.
  - reflexivity.
  - intros cl _. reflexivity.
Qed.

Definition ex_names_app : list fname :=
  fs_result_names ex_cfg_app ++ map snd (fs_run_trace ex_cfg_app) ++ map fst ex_dirty_app.
Definition ex_onil (o : option ccontent) : ccontent := match o with Some c => c | None => [] end.

(* what [fs_run] computes from the dirty directory is the right-hand side of C09_append_refines_effect on every name
   involved; each own result file = what it held ++ what the clean run writes (C09_append_prefix); intermediates gone,
   stale files under foreign names untouched *)
Example C09_example_append :
  match fs_run ex_cfg_app None ex_dirty_app, fs_run (fs_noappend ex_cfg_app) None [] with
  | Some a, Some c =>
      map (fs_get ccontent a) ex_names_app
        = map (run_effect ex_cfg_app false (fg_colls ex_cfg_app) (fs_get ccontent ex_dirty_app)) ex_names_app /\
      map (fs_get ccontent a) (fs_result_names ex_cfg_app)
        = map (fun n => Some (ex_onil (fs_get ccontent ex_dirty_app n) ++ ex_onil (fs_get ccontent c n))) (fs_result_names ex_cfg_app) /\
      map (fs_get ccontent a) (fs_result_names ex_cfg_app)
        = map (fun n => file_after (fs_get ccontent ex_dirty_app n) (own_lrows ex_cfg_app (fg_colls ex_cfg_app) n)
                                   (own_rows ex_cfg_app (fg_colls ex_cfg_app) n)) (fs_result_names ex_cfg_app) /\
      map (fun r => cf_id (fst r)) (ex_onil (fs_get ccontent a (NResult 0 false 0))) = [11; 12; 13; 14; 1; 3; 5] /\
      map (fun r => cf_id (fst r)) (ex_onil (fs_get ccontent a (NResult 3 true 0))) = [901; 11] /\
      (8 =? length (fs_result_names ex_cfg_app))%nat = true /\
      fs_get ccontent a (NLevel 1 false) = None /\ fs_get ccontent a (NChunk 3 0 false) = None /\
      fs_get ccontent a (NChunk 0 7 false) = Some (fs_plain ex_rows) /\
      fs_get ccontent a (NResult 5 false 0) = Some (fs_plain ex_rows) /\ fs_get ccontent a (NOther 5) = Some []
  | _, _ => False
  end.
Proof. vm_compute. repeat split. Qed.

(* two directories that agree on the own result files (here: the dirty one and the one holding nothing else) give the
   same result files (C09_append_depends_only_on_result_files) *)
Example C09_example_append_independent :
  let only_results := filter (fun e => match fst e with NResult 5 _ _ => false | NResult _ _ _ => true | _ => false end) ex_dirty_app in
  match fs_run ex_cfg_app None ex_dirty_app, fs_run ex_cfg_app None only_results with
  | Some a, Some b => map (fs_get ccontent a) (fs_result_names ex_cfg_app) = map (fs_get ccontent b) (fs_result_names ex_cfg_app) /\
                      (length only_results =? 8)%nat = true
  | _, _ => False
  end.
Proof. vm_compute. split; reflexivity. Qed.

(* one own result file missing (decoys of level 1 under prefix 3): the run succeeds, the file is created by the append and
   holds the rows only — [run_effect_a] / [file_after], not [run_effect] (C09_run_refines_effect_any_directory,
   C09_append_files) *)
Definition ex_dirty_app_missing : cfs :=
  filter (fun e => negb (fname_eqb (fst e) (NResult 3 true 1))) ex_dirty_app.
Example C09_example_append_missing :
  match fs_run ex_cfg_app None ex_dirty_app_missing with
  | Some a =>
      fs_get ccontent ex_dirty_app_missing (NResult 3 true 1) = None /\
      map (fs_get ccontent a) ex_names_app
        = map (run_effect_a ex_cfg_app false (fg_colls ex_cfg_app) (fs_get ccontent ex_dirty_app_missing)) ex_names_app /\
      map (fs_get ccontent a) (fs_result_names ex_cfg_app)
        = map (fun n => file_after (fs_get ccontent ex_dirty_app_missing n) (own_lrows ex_cfg_app (fg_colls ex_cfg_app) n)
                                   (own_rows ex_cfg_app (fg_colls ex_cfg_app) n)) (fs_result_names ex_cfg_app) /\
      map (fun c => map (fun r => cf_id (fst r)) c) (match fs_get ccontent a (NResult 3 true 1) with Some c => [c] | None => [] end)
        = [[11]]
  | None => False
  end.
Proof. vm_compute. repeat split. Qed.

(* a kill after 9 operations of the same run leaves chunk files and a half-written level file *)
Example C09_example_crash :
  match fs_run ex_cfg (Some 13%nat) [] with
  | Some a => fs_get ccontent a (NChunk 0 0 false) <> None /\ fs_get ccontent a (NLevel 0 false) <> None
  | None => False
  end.
Proof. vm_compute. split; discriminate. Qed.
