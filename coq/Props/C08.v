(* C08 — determinism with a fixed seed.  All Gallina functions are deterministic, so the sources of
   run-to-run variation are explicit inputs of the models: the iteration order of Python sets
   (depends on PYTHONHASHSEED), the order in which worker threads finish, and the order in which
   trained models are handed back to brew.  The theorems say that the results do not depend on them.
   Statements only; proofs in the files of the owning models. *)
From Coq Require Import Permutation.
From Mokaverif Require Import Model.Base Model.Orders Model.Grouping Model.MatchDecoy Model.Brew
  Proofs.OrdersP Proofs.GroupingP Proofs.MatchDecoyP Proofs.BrewEnsP.
Open Scope nat_scope.

(* models fed back in any order (or delivered by worker threads in any order) are used in fold order *)
Theorem C08_models_any_order : forall (A : Type) (ms ms' : list (nat * A)),
  Permutation ms ms' -> NoDup (map fst ms) -> or_sort_models ms = or_sort_models ms'.
Proof. exact @sort_models_order_free. Qed.
Print Assumptions C08_models_any_order.

Theorem C08_models_sorted : forall (A : Type) (ms : list (nat * A)),
  Permutation (or_sort_models ms) ms /\ Sorted.StronglySorted (fun a b => fst a <= fst b) (or_sort_models ms).
Proof. exact @sort_models_sorted. Qed.
Print Assumptions C08_models_sorted.

(* training tables: whatever order the worker threads deliver the chunk pieces in, and whatever
   order a Python set yields the training indices in, the table handed to the learner is
   [map (nth tbl) idx] *)
Theorem C08_completion_order : forall (row : Type) c order idx (tbl : list row),
  1 <= c -> (forall ls, Permutation (order ls) ls) ->
  or_parse row c order idx tbl = map (nth_error tbl) idx.
Proof. exact parse_order_free. Qed.
Print Assumptions C08_completion_order.

(* read_fasta: the grouping, the unique-peptide map, the shared-peptide key set and the protein map do
   not depend on the hash iteration order (any oracle pi returning a permutation) nor on entry order *)
Theorem C08_set_order_grouping : forall (P : Type) (peqb : P -> P -> bool), eqb_ok peqb ->
  forall is_decoy decoy_of pi pi' (entries entries' : list (P * list nat)) out out',
  perm_oracle P pi -> perm_oracle P pi' ->
  NoDup (map fst entries) -> NoDup (map fst entries') ->
  (forall p pep, inc P entries p pep <-> inc P entries' p pep) ->
  gr_read_fasta P peqb pi is_decoy decoy_of entries = Ok out ->
  gr_read_fasta P peqb pi' is_decoy decoy_of entries' = Ok out' ->
  out_sub P out out' /\ out_sub P out' out.
Proof. exact read_fasta_order_free. Qed.
Print Assumptions C08_set_order_grouping.

(* brew(ensemble=True) (R2.22): the average is taken over the models IN ASCENDING FOLD ORDER — a fixed list,
   whatever order the worker threads or the caller delivered the fitted models in (this is the sort that the
   seeded change C08-4 removes from the ensemble branch) *)
Theorem C08_ensemble_in_fold_order : forall c k keys (fitted : list (nat * list Z)),
  exists sorted, sorted = or_sort_models fitted /\ Permutation sorted fitted /\
    Sorted.StronglySorted (fun a b => fst a <= fst b) sorted /\
    bw_brew_scores_ens c k keys fitted =
      match bw_split keys k with Err e => Err e | Ok _ => bw_predict_ens c (length keys) (map snd sorted) end.
Proof. exact brew_ens_in_fold_order. Qed.
Print Assumptions C08_ensemble_in_fold_order.

(* in EXACT arithmetic any order of the models gives the same average ... *)
Theorem C08_ensemble_any_order_exact : forall c n raws raws', Permutation raws raws' ->
  bw_predict_ens c n raws = bw_predict_ens c n raws'.
Proof. exact ens_any_order_exact. Qed.
Print Assumptions C08_ensemble_any_order_exact.

(* ... and so does binary64 while the absolute values add up to less than 2^53 (fl53 = rounding of an integer
   to 53 significant bits, ties to even; float_sum = np.add.reduce over integer-valued doubles in list order):
   this is the contract under which the harness compares the ensemble scores with the model exactly *)
Theorem C08_ensemble_float_contract : forall l a, (Z.abs a + ens_abs_sum l < 2 ^ 53)%Z ->
  float_sum l a = fold_left Z.add l a.
Proof. exact ens_float_sum_exact. Qed.
Print Assumptions C08_ensemble_float_contract.

(* ... but NOT in binary64 in general: 2^53 + 1 + 1 is 2^53 from the left and 2^53 + 2 from the right.  Hence
   "models sorted by fold" is part of the function, and the history check compares scores bit for bit *)
Example C08_ensemble_float_order_matters :
  float_sum [1; 1]%Z (2 ^ 53)%Z = (2 ^ 53)%Z /\
  float_sum [1; 2 ^ 53]%Z 1%Z = (2 ^ 53 + 2)%Z /\
  Permutation [2 ^ 53; 1; 1]%Z [1; 1; 2 ^ 53]%Z.
Proof. exact ens_float_order_matters. Qed.

Example C08_example :
  or_sort_models [(3, 30); (1, 10); (2, 20)] = [(1, 10); (2, 20); (3, 30)] /\
  or_parse nat 2 (fun l => rev l) [3;0;4] [10;11;12;13;14] = or_parse nat 5 (fun l => l) [3;0;4] [10;11;12;13;14].
Proof. vm_compute. split; reflexivity. Qed.

(* target-only FASTA: peptides.match_decoy receives the keys of peptide_map, whose order goes back to set iteration
   (PYTHONHASHSEED).  It sorts them before the seeded shuffle (/repo 9b4fbd9), so with the same shuffle (the same rng:
   the recorded positions perm) the answer does not depend on the order they arrive in — duplicates or not *)
Theorem C08_match_decoy_order_independent : forall im perm ds ts1 ts2,
  Permutation ts1 ts2 -> md_match im perm ds ts1 = md_match im perm ds ts2.
Proof. exact md_match_order_independent. Qed.
Print Assumptions C08_match_decoy_order_independent.

(* what the sorting buys: a sorted list is a function of the multiset *)
Theorem C08_match_decoy_sort_canonical : forall ts1 ts2,
  Permutation ts1 ts2 -> md_sort_strs ts1 = md_sort_strs ts2.
Proof. exact md_sort_strs_perm_eq. Qed.
Print Assumptions C08_match_decoy_sort_canonical.

(* without the sorting step (the code before 9b4fbd9) the statement is false: two anagram targets *)
Theorem C08_match_decoy_unsorted_refuted :
  exists im perm ds ts1 ts2,
    Permutation ts1 ts2 /\ NoDup ts1 /\ Permutation perm (seq 0 (length ts1)) /\
    md_match_unsorted im perm ds ts1 <> md_match_unsorted im perm ds ts2.
Proof. exact md_match_unsorted_refuted. Qed.
Print Assumptions C08_match_decoy_unsorted_refuted.

Definition ex_md_AB : str := [65; 66]%Z.
Definition ex_md_BA : str := [66; 65]%Z.
Example C08_ex_match_decoy :
  md_match true [1; 0] [ex_md_BA] [ex_md_AB; ex_md_BA] = Ok [(ex_md_BA, ex_md_AB)] /\
  md_match true [1; 0] [ex_md_BA] [ex_md_BA; ex_md_AB] = Ok [(ex_md_BA, ex_md_AB)] /\
  md_match_unsorted true [1; 0] [ex_md_BA] [ex_md_AB; ex_md_BA] = Ok [(ex_md_BA, ex_md_AB)] /\
  md_match_unsorted true [1; 0] [ex_md_BA] [ex_md_BA; ex_md_AB] = Ok [(ex_md_BA, ex_md_BA)].
Proof. vm_compute. repeat split; reflexivity. Qed.
