(* C08 — determinism with a fixed seed.  All Gallina functions are deterministic, so the sources of
   run-to-run variation are explicit inputs of the models: the iteration order of Python sets
   (depends on PYTHONHASHSEED), the order in which worker threads finish, and the order in which
   trained models are handed back to brew.  The theorems say that the results do not depend on them.
   Statements only; proofs in the files of the owning models. *)
From Coq Require Import Permutation.
From Mokaverif Require Import Model.Base Model.Orders Model.Grouping Model.MatchDecoy
  Proofs.OrdersP Proofs.GroupingP Proofs.MatchDecoyP.
Open Scope nat_scope.

(* models fed back in any order (or delivered by worker threads in any order) are used in fold order *)
Theorem C08_models_any_order : forall (A : Type) (ms ms' : list (nat * A)),
  Permutation ms ms' -> NoDup (map fst ms) -> or_sort_models ms = or_sort_models ms'.
Proof. exact @sort_models_order_free. Qed.
Print Assumptions C08_models_any_order.

Theorem C08_models_sorted : forall (A : Type) (ms : list (nat * A)),
  Permutation (or_sort_models ms) ms /\ Sorted.StronglySorted (fun a b => fst a <= fst b) (or_sort_models ms).
Proof. exact @sort_models_sorted. Qed.
Print Assumptions C08_models_sorted.

(* training tables: whatever order the worker threads deliver the chunk pieces in, and whatever
   order a Python set yields the training indices in, the table handed to the learner is
   [map (nth tbl) idx] *)
Theorem C08_completion_order : forall (row : Type) c order idx (tbl : list row),
  1 <= c -> (forall ls, Permutation (order ls) ls) ->
  or_parse row c order idx tbl = map (nth_error tbl) idx.
Proof. exact parse_order_free. Qed.
Print Assumptions C08_completion_order.

(* read_fasta: the grouping, the unique-peptide map, the shared-peptide key set and the protein map do
   not depend on the hash iteration order (any oracle pi returning a permutation) nor on entry order *)
Theorem C08_set_order_grouping : forall (P : Type) (peqb : P -> P -> bool), eqb_ok peqb ->
  forall is_decoy decoy_of pi pi' (entries entries' : list (P * list nat)) out out',
  perm_oracle P pi -> perm_oracle P pi' ->
  NoDup (map fst entries) -> NoDup (map fst entries') ->
  (forall p pep, inc P entries p pep <-> inc P entries' p pep) ->
  gr_read_fasta P peqb pi is_decoy decoy_of entries = Ok out ->
  gr_read_fasta P peqb pi' is_decoy decoy_of entries' = Ok out' ->
  out_sub P out out' /\ out_sub P out' out.
Proof. exact read_fasta_order_free. Qed.
Print Assumptions C08_set_order_grouping.

Example C08_example :
  or_sort_models [(3, 30); (1, 10); (2, 20)] = [(1, 10); (2, 20); (3, 30)] /\
  or_parse nat 2 (fun l => rev l) [3;0;4] [10;11;12;13;14] = or_parse nat 5 (fun l => l) [3;0;4] [10;11;12;13;14].
Proof. vm_compute. split; reflexivity. Qed.

(* target-only FASTA: peptides.match_decoy receives the keys of peptide_map, whose order goes back to set iteration
   (PYTHONHASHSEED).  It sorts them before the seeded shuffle (/repo 9b4fbd9), so with the same shuffle (the same rng:
   the recorded positions perm) the answer does not depend on the order they arrive in — duplicates or not *)
Theorem C08_match_decoy_order_independent : forall im perm ds ts1 ts2,
  Permutation ts1 ts2 -> md_match im perm ds ts1 = md_match im perm ds ts2.
Proof. exact md_match_order_independent. Qed.
Print Assumptions C08_match_decoy_order_independent.

(* what the sorting buys: a sorted list is a function of the multiset *)
Theorem C08_match_decoy_sort_canonical : forall ts1 ts2,
  Permutation ts1 ts2 -> md_sort_strs ts1 = md_sort_strs ts2.
Proof. exact md_sort_strs_perm_eq. Qed.
Print Assumptions C08_match_decoy_sort_canonical.

(* without the sorting step (the code before 9b4fbd9) the statement is false: two anagram targets *)
Theorem C08_match_decoy_unsorted_refuted :
  exists im perm ds ts1 ts2,
    Permutation ts1 ts2 /\ NoDup ts1 /\ Permutation perm (seq 0 (length ts1)) /\
    md_match_unsorted im perm ds ts1 <> md_match_unsorted im perm ds ts2.
Proof. exact md_match_unsorted_refuted. Qed.
Print Assumptions C08_match_decoy_unsorted_refuted.

Definition ex_md_AB : str := [65; 66]%Z.
Definition ex_md_BA : str := [66; 65]%Z.
Example C08_ex_match_decoy :
  md_match true [1; 0] [ex_md_BA] [ex_md_AB; ex_md_BA] = Ok [(ex_md_BA, ex_md_AB)] /\
  md_match true [1; 0] [ex_md_BA] [ex_md_BA; ex_md_AB] = Ok [(ex_md_BA, ex_md_AB)] /\
  md_match_unsorted true [1; 0] [ex_md_BA] [ex_md_AB; ex_md_BA] = Ok [(ex_md_BA, ex_md_AB)] /\
  md_match_unsorted true [1; 0] [ex_md_BA] [ex_md_BA; ex_md_AB] = Ok [(ex_md_BA, ex_md_BA)].
Proof. vm_compute. repeat split; reflexivity. Qed.
