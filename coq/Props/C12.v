(* C12 — training feeds the estimator rows and labels of the same PSM, in any order.
   Statements only; proofs are in Proofs/FitP.v.  The model (Model/Fit.v) follows mokapot/model.py after
   repo_fixes/F7-fit-unshuffled.patch and repo_fixes/F16-refit-predict-proba.patch; [fit_train_unpatched] and
   [fit_pre_scores_unpatched] are the code before these repairs.

   Oracles (Section variables of the model, quantified here):
     learn   : list (X * bool) -> G     estimator.fit on the (feature row, label) pairs, in the order handed
     score   : G -> X -> Z              decision_function / class-1 column of predict_proba
     sigma   : list nat                 rng.permutation(arange(n)); contract: Permutation sigma (seq 0 n)
   Vocabulary (Proofs/FitP.v, Proofs/TdcP.v):
     sel idx l                   : the elements of l at the positions idx (numpy l[idx])
     handed_ok X xs L idx tr     : tr is, for the rows r of idx with label L r <> 0 in that order, the pair
                                   (features of row r, L r = 1)
     labels_ok desc sc tg thr L  : L r = 1 iff row r is a target whose q-value under the scores sc is <= thr,
                                   L r = -1 iff row r is a decoy, L r = 0 otherwise (q-value: TdcP.is_qvalue, C01)
     table_wf n cols             : every feature column has n entries *)
From Coq Require Import Permutation.
From Mokaverif Require Import Model.Base Model.Tdc Model.Fit Proofs.TdcP Proofs.FitP.
Open Scope Z_scope.

(* ---------- alignment ---------- *)
(* Every list handed to estimator.fit consists, for one label vector L over the rows of the table, of the
   rows with non-zero label, each with its own features and its own label; the first label vector is the
   starting one, every later one is the label rule applied to the scores of the state fitted just before. *)
Theorem C12_aligned : forall (X G : Type) (learn : list (X * bool) -> G) (score : G -> X -> Z)
    k xs targets start fp sigma shuffle thr mi ov trace res,
  length start = length xs -> Permutation sigma (seq 0 (length xs)) ->
  fit_train X G learn score k xs targets start fp sigma shuffle thr mi ov = (trace, res) ->
  exists Ls : list (list Z),
    length Ls = length trace /\
    (forall L, nth_error Ls 0 = Some L -> L = start) /\
    forall i L tr, nth_error Ls i = Some L -> nth_error trace i = Some tr ->
      length L = length xs /\
      handed_ok X xs L (if shuffle then sigma else seq 0 (length xs)) tr /\
      forall L', nth_error Ls (S i) = Some L' ->
        labels_ok true (map (score (learn tr)) xs) targets thr L'.
Proof. exact fit_aligned. Qed.
Print Assumptions C12_aligned.

(* the same for Model.fit on a feature table, starting labels included (best feature, given direction or
   pretrained model): they too are the label rule applied to a score vector *)
Theorem C12_aligned_fit : forall (G : Type) (learn : list (list Z * bool) -> G) (score : G -> list Z -> Z)
    k st names cols targets sigma shuffle thr mi ov trace res,
  Permutation sigma (seq 0 (length targets)) ->
  fit_fit G learn score true k st names cols targets sigma shuffle thr mi ov = (trace, res) ->
  trace = [] \/
  exists rows Ls,
    fit_rows cols (length targets) = Ok rows /\ length Ls = length trace /\
    (forall L, nth_error Ls 0 = Some L -> exists desc sc, labels_ok desc sc targets thr L) /\
    forall i L tr, nth_error Ls i = Some L -> nth_error trace i = Some tr ->
      length L = length targets /\
      handed_ok (list Z) rows L (if shuffle then sigma else seq 0 (length targets)) tr /\
      forall L', nth_error Ls (S i) = Some L' ->
        labels_ok true (map (score (learn tr)) rows) targets thr L'.
Proof. exact fit_fit_aligned. Qed.
Print Assumptions C12_aligned_fit.

(* reading handed_ok: every pair handed over is (features of r, label of r) for one row r ... *)
Theorem C12_pairs_sound : forall X xs L idx tr p,
  handed_ok X xs L idx tr -> In p tr ->
  exists r, In r idx /\ nth r L 0 <> 0 /\ nth_error xs r = Some (fst p) /\ snd p = (nth r L 0 =? 1).
Proof. exact handed_ok_sound. Qed.
Print Assumptions C12_pairs_sound.

(* ... and every row with a non-zero label is handed over *)
Theorem C12_pairs_complete : forall X xs L idx tr r,
  handed_ok X xs L idx tr -> In r idx -> nth r L 0 <> 0 ->
  exists p, In p tr /\ nth_error xs r = Some (fst p) /\ snd p = (nth r L 0 =? 1).
Proof. exact handed_ok_complete. Qed.
Print Assumptions C12_pairs_complete.

(* ---------- order invariance ---------- *)
(* for an estimator that does not depend on the order of its training list: the outcome (fitted state or
   error) is the same for any reordering of the rows, any two draws of the generator and either setting of
   the shuffle switch; the training lists are the same up to order *)
Theorem C12_order_invariant : forall (X G : Type) (learn : list (X * bool) -> G) (score : G -> X -> Z),
  (forall l l', Permutation l l' -> learn l = learn l') ->
  forall k xs targets start xs' targets' start' fp sigma1 sh1 sigma2 sh2 thr mi ov,
  length targets = length xs -> length start = length xs ->
  length targets' = length xs' -> length start' = length xs' ->
  Permutation (combine xs' (combine targets' start')) (combine xs (combine targets start)) ->
  Permutation sigma1 (seq 0 (length xs)) -> Permutation sigma2 (seq 0 (length xs)) ->
  forall tr1 r1 tr2 r2,
  fit_train X G learn score k xs' targets' start' fp sigma1 sh1 thr mi ov = (tr1, r1) ->
  fit_train X G learn score k xs targets start fp sigma2 sh2 thr mi ov = (tr2, r2) ->
  r1 = r2 /\ Forall2 (@Permutation (X * bool)) tr1 tr2.
Proof. exact fit_order_invariant_perm. Qed.
Print Assumptions C12_order_invariant.

(* Model.fit on a table whose rows are permuted by pi, starting labels recomputed on the permuted table *)
Theorem C12_order_invariant_fit : forall (G : Type) (learn : list (list Z * bool) -> G) (score : G -> list Z -> Z),
  (forall l l', Permutation l l' -> learn l = learn l') ->
  forall k st names cols targets pi sigma1 sh1 sigma2 sh2 thr mi ov,
  table_wf (length targets) cols ->
  Permutation pi (seq 0 (length targets)) ->
  Permutation sigma1 (seq 0 (length targets)) -> Permutation sigma2 (seq 0 (length targets)) ->
  forall tr1 r1 tr2 r2,
  fit_fit G learn score true k st names (map (sel pi) cols) (sel pi targets) sigma1 sh1 thr mi ov = (tr1, r1) ->
  fit_fit G learn score true k st names cols targets sigma2 sh2 thr mi ov = (tr2, r2) ->
  r1 = r2 /\ Forall2 (@Permutation (list Z * bool)) tr1 tr2.
Proof. exact fit_fit_order_invariant. Qed.
Print Assumptions C12_order_invariant_fit.

(* predictions follow the rows: one score per row whatever scoring method the estimator offers *)
Theorem C12_predict_rows : forall X G (score : G -> X -> Z) k g pi xs,
  fit_get_scores X G score k g (sel pi xs)
  = match fit_get_scores X G score k g xs with Ok s => Ok (sel pi s) | Err e => Err e end.
Proof. exact get_scores_sel. Qed.
Print Assumptions C12_predict_rows.

(* ---------- prediction takes features by stored name ---------- *)
Theorem C12_by_name : forall (G : Type) (score : G -> list Z -> Z)
    trained stored k g names cols names' cols' n,
  NoDup names -> length names = length cols -> length names' = length cols' ->
  Permutation (combine names cols) (combine names' cols') ->
  fit_decision G score trained stored k g names' cols' n
  = fit_decision G score trained stored k g names cols n.
Proof. exact decision_by_name. Qed.
Print Assumptions C12_by_name.

Theorem C12_wrong_features : forall (G : Type) (score : G -> list Z -> Z) stored k g names cols n,
  (exists x, (In x names /\ ~ In x stored) \/ (In x stored /\ ~ In x names)) ->
  fit_decision G score true stored k g names cols n = Err EValue.
Proof. exact decision_wrong_set. Qed.
Print Assumptions C12_wrong_features.

Theorem C12_selects_by_name : forall (G : Type) (score : G -> list Z -> Z) stored k g names cols n,
  NoDup names -> length names = length cols ->
  (forall s, In s stored <-> In s names) ->
  exists selc, Forall2 (fun s c => In (s, c) (combine names cols)) stored selc /\
    fit_decision G score true stored k g names cols n
    = match fit_rows selc n with
      | Ok rows => fit_get_scores (list Z) G score k g rows
      | Err e => Err e
      end.
Proof. exact decision_selects. Qed.
Print Assumptions C12_selects_by_name.

(* ---------- the loop before the F7 repair ---------- *)
(* shuffle off, generator swaps rows 2 and 3 of a table with targets T T T D: in the second iteration the
   target row 2 is handed to the estimator as a negative and the decoy row 3 is not handed over at all *)
Theorem C12_unshuffled_refuted :
  exists tr, nth_error (fst (cx_run false)) 1 = Some tr /\ In (2%nat, false) tr /\ ~ In (3%nat, false) tr.
Proof. exact unshuffled_refuted. Qed.
Print Assumptions C12_unshuffled_refuted.

Theorem C12_repaired_on_witness :
  fst (cx_run true) = [[(0%nat, true); (1%nat, true); (2%nat, true); (3%nat, false)];
                       [(0%nat, true); (1%nat, true); (2%nat, true); (3%nat, false)]].
Proof. exact patched_not_refuted. Qed.
Print Assumptions C12_repaired_on_witness.

(* before the F16 repair: re-fitting a trained model whose estimator has a two-column predict_proba is
   rejected (ValueError) for every non-empty table, because the flattened matrix has 2n entries *)
Theorem C12_refit_proba_unpatched_rejected : forall G (score coscore : G -> list Z -> Z) g0 rows targets thr,
  rows <> [] -> length targets = length rows ->
  update_labels true (fit_pre_scores_unpatched G score coscore FitProba2 g0 rows) targets thr = Err EValue.
Proof. exact pre_proba2_unpatched_rejected. Qed.
Print Assumptions C12_refit_proba_unpatched_rejected.

(* ---------- non-vacuity ---------- *)
(* the order-independent recording estimator of the harness satisfies the hypothesis of C12_order_invariant *)
Example C12_invariant_learner_exists : forall idc kk l l',
  Permutation l l' -> fit_demo_learn 0 idc kk l = fit_demo_learn 0 idc kk l'.
Proof. exact demo_learn_invariant. Qed.

(* a permutation drawn by the generator *)
Example C12_sigma_contract : Permutation [3; 2; 0; 1]%nat (seq 0 4).
Proof.
  cbn [seq]. apply (Permutation_cons_app [0; 1; 2]%nat [] 3%nat).
  apply (Permutation_cons_app [0; 1]%nat [] 2%nat). reflexivity.
Qed.

(* four PSMs (T T D T), features id, c0, c1; best feature c0 accepts two targets at train_fdr 1/2; three
   iterations with shuffling: the estimator state alternates, the accepted targets change every time, and
   prediction on the table with its columns reversed gives the same scores *)
Definition ex_names : list str := [[105; 100]; [99; 48]; [99; 49]].
Definition ex_cols : list (list Z) := [[0; 1; 2; 3]; [19; 13; 8; 4]; [6; 16; 11; 12]].
Definition ex_targets : list bool := [true; true; false; true].

Example C12_example_run :
  fit_demo_run true 0 0 1 2 FitDF 0 [] 0 ex_names ex_cols ex_targets [3; 2; 0; 1]%nat true (1 # 2) 3 false
               (rev ex_names) (rev ex_cols) 4
  = ([[(2, false); (0, true); (1, true)]; [(3, true); (2, false); (1, true)]; [(2, false); (0, true); (1, true)]],
     Ok (1, 2, Some true, Some 1%nat, Ok [6; 16; 11; 12], Ok [6; 16; 11; 12])).
Proof. vm_compute. reflexivity. Qed.

Example C12_example_wf : table_wf (length ex_targets) ex_cols /\ NoDup ex_names.
Proof.
  split; [repeat constructor|].
  repeat constructor; simpl; intuition discriminate.
Qed.

(* the same table with shuffle off, another draw and the rows reversed: same outcome (C12_order_invariant_fit) *)
Example C12_example_invariant :
  snd (fit_demo_run true 0 0 1 2 FitDF 0 [] 0 ex_names (map (sel [3; 2; 1; 0]%nat) ex_cols) (sel [3; 2; 1; 0]%nat ex_targets)
                    [1; 0; 3; 2]%nat false (1 # 2) 3 false ex_names ex_cols 4)
  = Ok (1, 2, Some true, Some 1%nat, Ok [12; 11; 16; 6], Ok [6; 16; 11; 12]).
Proof. vm_compute. reflexivity. Qed.

(* one row in, one score out, for the three kinds of estimator *)
Example C12_single_row :
  fit_get_scores Z unit (fun _ x => x) FitProba2 tt [7] = Ok [7] /\
  fit_get_scores Z unit (fun _ x => x) FitProba1 tt [7] = Ok [7] /\
  fit_get_scores Z unit (fun _ x => x) FitDF tt [7] = Ok [7].
Proof. repeat split. Qed.
