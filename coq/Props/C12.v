(* C12 — training alignment.  Statements only; proofs are in Proofs/FitP.v. *)
From Mokaverif Require Import Model.Base Model.Tdc Model.Fit.
Open Scope Z_scope.

Theorem C12_placeholder : fit_count1 [1; 0; 1] = 2.
Proof. reflexivity. Qed.
Print Assumptions C12_placeholder.
