(* C06 — placeholder while the correspondence is developed *)
From Mokaverif Require Import Model.Base Model.Peps.
