(* C06 — PEPs are probabilities, monotone in the score, and aligned with their PSM; the alternative
   q-value estimators return one non-negative, score-monotone value per PSM in input order.
   Statements only; proofs in Proofs/PepsP.v.

   What is proved is mokapot's post-processing (Model/Peps.v).  The numerical fits are oracles whose
   recorded outputs are arguments of the model functions; a theorem names the contract it needs
   (checked by the harness on every recorded value):
     qvality      fs = map f (scores in descending order)   (one spline value per score, pep_f_table), 0 <= f
     kde/hist     d : the nnls solution, 0 <= d_i;  grid : the xp handed to np.interp
     from_counts  pi0 >= 0;  srt : the rows in the order np.argsort(-scores) produced
     from_peps    srt : rows (score, (target, pep)) in that order, 0 <= pep (<= 1)
   Vocabulary (Proofs/PepsP.v):
     pep_is_sup f scores s v : v is the largest f-value among the scores at least as good as s
     pep_sorted_desc scores  : the scores in descending order
     pep_take idx l d        : the vector l re-indexed by idx (a permutation, a sub-sample)
     pep_top_is_decoy srt    : the best-ranked row is a decoy
   That the interpolation grid is increasing is numpy's precondition for np.interp, under which the model's
   scan and numpy's binary search select the same segment (checked by the harness on every recorded grid and
   by the direct np.interp cases); the statements below hold for every grid. *)
From Coq Require Import Permutation Sorted.
From Mokaverif Require Import Model.Base Model.Peps Proofs.PepsP.
Open Scope Q_scope.

(* ---------------------------------------------------------------- qvality *)
(* each PSM gets min(1, max of the spline over the scores at least as good as its own) *)
Theorem C06_qvality_spec : forall scores targets fs ps f,
  pep_qvality scores targets fs = Ok ps -> pep_f_table f scores fs ->
  length ps = length scores /\
  forall i, (i < length scores)%nat ->
    exists v, pep_is_sup f scores (nth i scores 0%Z) v /\ nth i ps 0 = pep_qmin 1 v.
Proof. exact pep_qvality_spec. Qed.
Print Assumptions C06_qvality_spec.

Theorem C06_range_qvality : forall scores targets fs ps f,
  pep_qvality scores targets fs = Ok ps -> pep_f_table f scores fs ->
  (forall s, In s scores -> 0 <= f s) ->
  forall i, (i < length scores)%nat -> 0 <= nth i ps 0 /\ nth i ps 0 <= 1.
Proof. exact pep_qvality_range. Qed.
Print Assumptions C06_range_qvality.

Theorem C06_monotone_qvality : forall scores targets fs ps f,
  pep_qvality scores targets fs = Ok ps -> pep_f_table f scores fs ->
  forall i j, (i < length scores)%nat -> (j < length scores)%nat ->
    (nth i scores 0 <= nth j scores 0)%Z -> nth j ps 0 <= nth i ps 0.
Proof. exact pep_qvality_monotone. Qed.
Print Assumptions C06_monotone_qvality.

Theorem C06_ties_qvality : forall scores targets fs ps f,
  pep_qvality scores targets fs = Ok ps -> pep_f_table f scores fs ->
  forall i j, (i < length scores)%nat -> (j < length scores)%nat ->
    nth i scores 0%Z = nth j scores 0%Z -> nth i ps 0 == nth j ps 0.
Proof. exact pep_qvality_ties. Qed.
Print Assumptions C06_ties_qvality.

(* the same PSMs in any other input order get the same values *)
Theorem C06_aligned_qvality : forall scores targets fs ps scores' targets' ps' f i j,
  pep_qvality scores targets fs = Ok ps -> pep_qvality scores' targets' fs = Ok ps' ->
  pep_f_table f scores fs -> Permutation scores scores' ->
  (i < length scores)%nat -> (j < length scores')%nat -> nth i scores 0%Z = nth j scores' 0%Z ->
  nth i ps 0 == nth j ps' 0.
Proof. exact pep_qvality_input_order. Qed.
Print Assumptions C06_aligned_qvality.

(* on input already in descending order (what assign_confidence feeds) the vector triqler returns is
   already aligned: un-sorting is the identity *)
Theorem C06_aligned_qvality_sorted : forall scores targets fs,
  StronglySorted (fun a b => (b <= a)%Z) scores ->
  length targets = length scores -> length fs = length scores ->
  pep_qvality scores targets fs = Ok (pep_qvality_sorted_order fs).
Proof. exact pep_qvality_sorted_input. Qed.
Print Assumptions C06_aligned_qvality_sorted.

(* ... returned as is (the code before the F10 repair) it is not aligned on other input *)
Theorem C06_qvality_unsorted_refuted :
  exists (scores : list Z) (f : Z -> Q) (fs : list Q),
    pep_f_table f scores fs /\ (forall s, 0 <= f s) /\
    exists i j, (i < length scores)%nat /\ (j < length scores)%nat /\
      (nth i scores 0 < nth j scores 0)%Z /\
      nth i (pep_qvality_sorted_order fs) 0 < nth j (pep_qvality_sorted_order fs) 0.
Proof. exact pep_qvality_unsorted_refuted. Qed.
Print Assumptions C06_qvality_unsorted_refuted.

Theorem C06_sorted_desc_meaning : forall scores,
  Permutation (pep_sorted_desc scores) scores /\
  StronglySorted (fun a b => (b <= a)%Z) (pep_sorted_desc scores).
Proof. exact pep_sorted_desc_spec. Qed.
Print Assumptions C06_sorted_desc_meaning.

(* ---------------------------------------------------------------- kde_nnls (scale = false), hist_nnls (scale = true) *)
Theorem C06_range_nnls : forall scale scores targets grid d ps,
  pep_nnls_peps scale scores targets grid d = Ok ps ->
  length ps = length scores /\
  forall i, (i < length scores)%nat -> 0 <= nth i ps 0 /\ nth i ps 0 <= 1.
Proof. exact pep_nnls_range. Qed.
Print Assumptions C06_range_nnls.

Theorem C06_monotone_nnls : forall scale scores targets grid d ps,
  pep_nnls_peps scale scores targets grid d = Ok ps -> Forall (Qle 0) d ->
  forall i j, (i < length scores)%nat -> (j < length scores)%nat ->
    (nth i scores 0 <= nth j scores 0)%Z -> nth j ps 0 <= nth i ps 0.
Proof. exact pep_nnls_monotone. Qed.
Print Assumptions C06_monotone_nnls.

Theorem C06_ties_nnls : forall scale scores targets grid d ps,
  pep_nnls_peps scale scores targets grid d = Ok ps ->
  forall i j, (i < length scores)%nat -> (j < length scores)%nat ->
    nth i scores 0%Z = nth j scores 0%Z -> nth i ps 0 = nth j ps 0.
Proof. exact pep_nnls_ties. Qed.
Print Assumptions C06_ties_nnls.

(* peps (permute p scores) = permute p (peps scores) *)
Theorem C06_aligned_nnls : forall scale scores targets grid d ps idx,
  pep_nnls_peps scale scores targets grid d = Ok ps ->
  Forall (fun i => (i < length scores)%nat) idx ->
  pep_nnls_peps scale (pep_take idx scores 0%Z) (pep_take idx targets false) grid d = Ok (pep_take idx ps 0).
Proof. exact pep_nnls_aligned. Qed.
Print Assumptions C06_aligned_nnls.

(* ---------------------------------------------------------------- qvalues_from_counts *)
Theorem C06_q_nonneg_monotone_from_counts : forall scores targets srt pi0 qs,
  pep_qvalues_from_counts scores targets srt pi0 = Ok (PepFinite qs) -> 0 <= pi0 ->
  length qs = length scores /\
  (forall i, (i < length scores)%nat -> 0 <= nth i qs 0) /\
  (forall i j, (i < length scores)%nat -> (j < length scores)%nat ->
     (nth i scores 0 <= nth j scores 0)%Z -> nth j qs 0 <= nth i qs 0) /\
  (forall i j, (i < length scores)%nat -> (j < length scores)%nat ->
     nth i scores 0%Z = nth j scores 0%Z -> nth i qs 0 = nth j qs 0).
Proof. exact pep_counts_nonneg_monotone. Qed.
Print Assumptions C06_q_nonneg_monotone_from_counts.

Theorem C06_aligned_from_counts : forall scores targets srt pi0 qs idx,
  pep_qvalues_from_counts scores targets srt pi0 = Ok (PepFinite qs) ->
  Permutation idx (seq 0 (length scores)) ->
  pep_qvalues_from_counts (pep_take idx scores 0%Z) (pep_take idx targets false) srt pi0
  = Ok (PepFinite (pep_take idx qs 0)).
Proof. exact pep_counts_aligned. Qed.
Print Assumptions C06_aligned_from_counts.

(* the only other successful outcome: +inf for every PSM, exactly when the best-ranked row is a decoy *)
Theorem C06_from_counts_allinf : forall scores targets srt pi0 n,
  pep_qvalues_from_counts scores targets srt pi0 = Ok (PepAllInf n) <->
  length scores = length targets /\ pep_ntrue targets <> 0%Z /\ pep_nfalse targets <> 0%Z /\
  pep_top_is_decoy srt = true /\ n = length scores.
Proof. exact pep_counts_allinf. Qed.
Print Assumptions C06_from_counts_allinf.

(* ---------------------------------------------------------------- qvalues_from_peps *)
Theorem C06_q_nonneg_monotone_from_peps : forall scores targets srt qs,
  pep_qvalues_from_peps scores targets srt = Ok qs -> Forall (fun r => 0 <= snd (snd r)) srt ->
  length qs = length scores /\
  (forall i, (i < length scores)%nat -> 0 <= nth i qs 0) /\
  (forall i j, (i < length scores)%nat -> (j < length scores)%nat ->
     (nth i scores 0 <= nth j scores 0)%Z -> nth j qs 0 <= nth i qs 0) /\
  (forall i j, (i < length scores)%nat -> (j < length scores)%nat ->
     nth i scores 0%Z = nth j scores 0%Z -> nth i qs 0 = nth j qs 0).
Proof. exact pep_frompeps_nonneg_monotone. Qed.
Print Assumptions C06_q_nonneg_monotone_from_peps.

Theorem C06_from_peps_le_one : forall scores targets srt qs,
  pep_qvalues_from_peps scores targets srt = Ok qs -> Forall (fun r => snd (snd r) <= 1) srt ->
  forall i, (i < length scores)%nat -> nth i qs 0 <= 1.
Proof. exact pep_frompeps_le_one. Qed.
Print Assumptions C06_from_peps_le_one.

Theorem C06_aligned_from_peps : forall scores targets srt qs idx,
  pep_qvalues_from_peps scores targets srt = Ok qs ->
  Forall (fun i => (i < length scores)%nat) idx ->
  pep_qvalues_from_peps (pep_take idx scores 0%Z) (pep_take idx targets false) srt = Ok (pep_take idx qs 0).
Proof. exact pep_frompeps_aligned. Qed.
Print Assumptions C06_aligned_from_peps.

(* ---------------------------------------------------------------- np.interp, monotonize_simple *)
(* values that never increase along the grid give an interpolant that never increases and stays within
   every bound of the data *)
Theorem C06_interp_monotone : forall xp fp p0 rest,
  combine xp fp = p0 :: rest -> StronglySorted (fun a b => b <= a) fp ->
  (forall a b, (a <= b)%Z -> pep_interp_at p0 rest b <= pep_interp_at p0 rest a) /\
  (forall lo, Forall (Qle lo) fp -> forall a, lo <= pep_interp_at p0 rest a) /\
  (forall hi, Forall (fun y => y <= hi) fp -> forall a, pep_interp_at p0 rest a <= hi).
Proof. exact pep_interp_curve. Qed.
Print Assumptions C06_interp_monotone.

Theorem C06_interp_exact : forall rest p0 k,
  StronglySorted Z.lt (map fst (p0 :: rest)) -> (k < length (p0 :: rest))%nat ->
  pep_interp_at p0 rest (fst (nth k (p0 :: rest) p0)) = snd (nth k (p0 :: rest) p0).
Proof. exact pep_at_exact. Qed.
Print Assumptions C06_interp_exact.

Theorem C06_interp_between : forall rest p0 k x,
  StronglySorted Z.le (map fst (p0 :: rest)) -> (S k < length (p0 :: rest))%nat ->
  let a := nth k (p0 :: rest) p0 in let b := nth (S k) (p0 :: rest) p0 in
  (fst a <= x)%Z -> (x < fst b)%Z ->
  pep_interp_at p0 rest x == pep_lin x (fst a) (fst b) (snd a) (snd b).
Proof. exact pep_at_between. Qed.
Print Assumptions C06_interp_between.

Theorem C06_interp_clamp_left : forall p0 rest x, (x < fst p0)%Z -> pep_interp_at p0 rest x = snd p0.
Proof. exact pep_at_left. Qed.
Print Assumptions C06_interp_clamp_left.

Theorem C06_interp_clamp_right : forall p0 rest x,
  Forall (fun p => (fst p <= x)%Z) (p0 :: rest) -> pep_interp_at p0 rest x = snd (last (p0 :: rest) p0).
Proof. exact pep_at_right. Qed.
Print Assumptions C06_interp_clamp_right.

Theorem C06_monotonize_simple : forall asc l,
  length (pep_monotonize_simple asc l) = length l /\
  (if asc then StronglySorted Qle (pep_monotonize_simple asc l)
   else StronglySorted (fun a b => b <= a) (pep_monotonize_simple asc l)).
Proof. exact pep_monotonize_simple_spec. Qed.
Print Assumptions C06_monotonize_simple.

(* ---------------------------------------------------------------- non-vacuity / sanity *)
Definition ex_f (s : Z) : Q := if (s =? 3)%Z then 2 # 10 else if (s =? 2)%Z then 1 # 10 else 3 # 2.
Example C06_example_qvality :
  pep_f_table ex_f [3; 1; 2; 2]%Z [2 # 10; 1 # 10; 1 # 10; 3 # 2] /\
  (forall s, 0 <= ex_f s) /\
  match pep_qvality [3; 1; 2; 2]%Z [true; false; true; false] [2 # 10; 1 # 10; 1 # 10; 3 # 2] with
  | Ok ps => map Qred ps | Err _ => [] end = [1 # 5; 1; 1 # 5; 1 # 5] /\
  pep_qvality [1; 2]%Z [true] [1; 1] = Err EIndex.
Proof.
  split; [vm_compute; reflexivity|]. split; [|vm_compute; split; reflexivity].
  intros s. unfold ex_f. destruct (s =? 3)%Z; [discriminate|]. destruct (s =? 2)%Z; discriminate.
Qed.

(* grid 0, 10, 20; nnls solution 1/4, 1/4, 1/2 -> fitted values 1, 1/2, 1/4 along the grid *)
Example C06_example_nnls :
  Forall (Qle 0) [1 # 4; 1 # 4; 1 # 2] /\
  match pep_nnls_peps false [5; 20; -3; 15; 30]%Z [true; false; true; false; true] [0; 10; 20]%Z [1 # 4; 1 # 4; 1 # 2] with
  | Ok ps => map Qred ps | Err _ => [] end = [3 # 4; 1 # 4; 1; 3 # 8; 1 # 4] /\
  match pep_nnls_peps true [5; 20]%Z [true; false] [0; 10; 20]%Z [1 # 8; 1 # 8; 1 # 4] with
  | Ok ps => map Qred ps | Err _ => [] end = [3 # 4; 1 # 4] /\
  pep_nnls_peps true [5]%Z [true] [0; 10]%Z [0; 0] = Err EValue.
Proof. split; [repeat constructor; discriminate|]. vm_compute. repeat split. Qed.

Example C06_example_from_counts :
  match pep_qvalues_from_counts [3; 5; 1; 4; 2]%Z [false; true; false; true; true]
          [(5, true); (4, true); (3, false); (2, true); (1, false)]%Z (1 # 2) with
  | Ok (PepFinite qs) => map Qred qs | _ => [] end = [3 # 8; 0; 1 # 2; 0; 3 # 8] /\
  pep_qvalues_from_counts [3; 5; 2; 4]%Z [true; false; false; true]
          [(5, false); (4, true); (3, true); (2, false)]%Z (1 # 2) = Ok (PepAllInf 4).
Proof. vm_compute. split; reflexivity. Qed.

Example C06_example_from_peps :
  Forall (fun r : Z * (bool * Q) => 0 <= snd (snd r) /\ snd (snd r) <= 1)
         [(5%Z, (true, 1 # 10)); (4%Z, (false, 1 # 2)); (3%Z, (true, 1 # 2)); (2%Z, (true, 9 # 10))] /\
  match pep_qvalues_from_peps [3; 5; 2; 4]%Z [true; true; true; false]
          [(5%Z, (true, 1 # 10)); (4%Z, (false, 1 # 2)); (3%Z, (true, 1 # 2)); (2%Z, (true, 9 # 10))] with
  | Ok qs => map Qred qs | Err _ => [] end = [3 # 10; 1 # 10; 1 # 2; 1 # 5].
Proof. split; [repeat constructor; discriminate|]. vm_compute. reflexivity. Qed.

Example C06_example_interp :
  match pep_interp_all [0; 2; 2; 4]%Z [1; 1 # 2; 1 # 4; 0] [-1; 0; 1; 2; 3; 4; 9]%Z with
  | Ok qs => map Qred qs | Err _ => [] end = [1; 1; 3 # 4; 1 # 4; 1 # 8; 0; 0] /\
  pep_interp_all [] [] [1%Z] = Err EValue /\
  pep_monotonize_simple true [1; 3; 2; 5; 4] = [1; 3; 3; 5; 5] /\
  pep_monotonize_simple false [5; 3; 4; 1; 2] = [5; 3; 3; 1; 1].
Proof. vm_compute. repeat split. Qed.
