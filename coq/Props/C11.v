(* C11 — per-fold score calibration.  Statements only; proofs in Proofs/CalibrateP.v
   (and Proofs/BrewP.v for the per-fold statement). *)
From Mokaverif Require Import Model.Base Model.Tdc Model.Calibrate Model.CalibrateD Model.Brew Proofs.TdcP Proofs.CalibrateP Proofs.CalibrateDP Proofs.BrewP.
Open Scope Z_scope.

(* the returned scores are cal_map t d applied to the raw scores, where t is the lowest raw score
   among the targets accepted at the evaluation FDR (label +1 of C01_labels) and d the median decoy score *)
Theorem C11_calibrate_spec : forall scores targets thr ys,
  calibrate scores targets thr = Ok ys ->
  exists labels t d,
    update_labels true scores targets thr = Ok labels /\
    (exists i, (i < length scores)%nat /\ nth i labels 0 = 1 /\ nth i scores 0 = t) /\
    (forall i, (i < length scores)%nat -> nth i labels 0 = 1 -> t <= nth i scores 0) /\
    cal_median (cal_select (map (fun l => l =? -1) labels) scores) = Some d /\
    ~ (inject_Z t == d)%Q /\
    ys = map (fun s => cal_map (inject_Z t) d (inject_Z s)) scores.
Proof. exact calibrate_spec. Qed.
Print Assumptions C11_calibrate_spec.

(* strictly increasing affine map when the accepted targets lie above the decoy median *)
Theorem C11_affine : forall t d x, ~ (t == d)%Q ->
  (cal_map t d x == (1 / (t - d)) * x + (- t / (t - d)))%Q.
Proof. exact cal_map_affine. Qed.
Print Assumptions C11_affine.

Theorem C11_order : forall t d x y, (d < t)%Q -> ((x < y)%Q <-> (cal_map t d x < cal_map t d y)%Q).
Proof. exact cal_map_strict. Qed.
Print Assumptions C11_order.

(* the lowest accepted target maps to 0, the median decoy to -1 *)
Theorem C11_anchors : forall t d, ~ (t == d)%Q -> (cal_map t d t == 0)%Q /\ (cal_map t d d == -1)%Q.
Proof. exact cal_map_anchors. Qed.
Print Assumptions C11_anchors.

(* no accepted target: explicit error, never scores *)
Theorem C11_error : forall scores targets thr labels,
  update_labels true scores targets thr = Ok labels ->
  (forall i, (i < length scores)%nat -> nth i labels 0 <> 1) ->
  calibrate scores targets thr = Err ERuntime.
Proof. exact calibrate_error. Qed.
Print Assumptions C11_error.

(* in brew, the scores of the rows of fold f are calibrate applied to fold f's own raw scores
   (from fold model f) and fold f's own target flags — nothing of another fold enters *)
Theorem C11_per_fold : forall k thr fold_of targets raw,
  length targets = length fold_of ->
  (forall r, r < length fold_of -> nth r fold_of 0 < k)%nat ->
  forall c out, (1 <= c)%nat ->
  bw_predict true c k thr fold_of targets raw = Ok out ->
  forall r, (r < length fold_of)%nat ->
    let f := nth r fold_of 0%nat in
    let rows_f := rows_of_fold fold_of f in
    exists ys, calibrate (fold_raw raw f rows_f) (map (fun r' => nth r' targets false) rows_f) thr = Ok ys /\
               nth r out 0%Q = nth (index_of r rows_f) ys 0%Q.
Proof. exact predict_per_fold. Qed.
Print Assumptions C11_per_fold.


(* calibrate_scores takes the ranking direction [desc] (brew always uses desc = true): the model with the
   argument, Model/CalibrateD.v, is the model above at desc = true, and for either direction the result is
   cal_map t d of the raw scores with t the lowest raw score among the targets accepted by the competition
   run in that direction and d the decoy median — [desc] reaches the labels and nothing else *)
Theorem C11_desc_true : forall scores targets thr,
  calibrate_d true scores targets thr = calibrate scores targets thr.
Proof. exact calibrate_d_true. Qed.
Print Assumptions C11_desc_true.

Theorem C11_calibrate_desc_spec : forall desc scores targets thr ys,
  calibrate_d desc scores targets thr = Ok ys ->
  exists labels t d,
    update_labels desc scores targets thr = Ok labels /\
    (exists i, (i < length scores)%nat /\ nth i labels 0 = 1 /\ nth i scores 0 = t) /\
    (forall i, (i < length scores)%nat -> nth i labels 0 = 1 -> t <= nth i scores 0) /\
    cal_median (cal_select (map (fun l => l =? -1) labels) scores) = Some d /\
    ~ (inject_Z t == d)%Q /\
    ys = map (fun s => cal_map (inject_Z t) d (inject_Z s)) scores.
Proof. exact calibrate_d_spec. Qed.
Print Assumptions C11_calibrate_desc_spec.

Theorem C11_desc_error : forall desc scores targets thr labels,
  update_labels desc scores targets thr = Ok labels ->
  (forall i, (i < length scores)%nat -> nth i labels 0 <> 1) ->
  calibrate_d desc scores targets thr = Err ERuntime.
Proof. exact calibrate_d_error. Qed.
Print Assumptions C11_desc_error.

(* non-vacuity *)
Example C11_example :
  match calibrate [10;9;8;3;2;1] [true;true;true;false;false;false] (1#2)%Q with
  | Ok ys => map Qred ys = [(1#3); (1#6); 0; (-5#6); (-1#1); (-7#6)]%Q
  | Err _ => False
  end /\
  calibrate [1;2;3] [false;false;true] (1#100)%Q = Err ERuntime /\
  calibrate [5;4] [true;true] (1#1)%Q = Err EType.
Proof. vm_compute. repeat split. Qed.

(* ascending direction: the accepted targets are the low-scoring ones, t = 1 is their minimum, the decoy
   median 9 lies above it, so the map is decreasing (outside the property's quantifier d < t) *)
Example C11_example_asc :
  match calibrate_d false [1;2;3;8;9;10] [true;true;true;false;false;false] (1#2)%Q with
  | Ok ys => map Qred ys = [0; (-1#8); (-1#4); (-7#8); (-1#1); (-9#8)]%Q
  | Err _ => False
  end /\
  calibrate_d false [5;4] [true;true] (1#1)%Q = Err EType /\
  calibrate_d false [1;2;3] [false;false;true] (1#100)%Q = Err ERuntime.
Proof. vm_compute. repeat split. Qed.
