(* C02 — cross-validation integrity.  Statements only; proofs in Proofs/BrewP.v.
   fold_index folds r f : row r belongs to fold f;  rows_of_fold fo f : rows routed to model f, file order;
   fold_scores : the (calibrated) scores of one fold, computed from fold model f's raw scores of
   exactly the rows of fold f. *)
From Coq Require Import Permutation.
From Mokaverif Require Import Model.Base Model.Tdc Model.Calibrate Model.Brew Proofs.BrewP Proofs.BrewEnsP.
Open Scope nat_scope.

(* exactly k folds, a partition of the PSMs, all PSMs of one spectrum in the same fold *)
Theorem C02_split_partition : forall keys k folds, bw_split keys k = Ok folds ->
  length folds = k /\
  Permutation (concat folds) (seq 0 (length keys)) /\
  (forall i j f g, fold_index folds i f -> fold_index folds j g ->
     nth i keys 0%Z = nth j keys 0%Z -> f = g).
Proof. exact split_partition. Qed.
Print Assumptions C02_split_partition.

(* the model index attached to every row is the fold that contains the row *)
Theorem C02_row_to_model : forall keys k folds, bw_split keys k = Ok folds ->
  length (bw_fold_of folds (length keys)) = length keys /\
  forall r, r < length keys ->
    exists f, f < k /\ fold_index folds r f /\ nth r (bw_fold_of folds (length keys)) 0 = f.
Proof. exact brew_fold_of_ok. Qed.
Print Assumptions C02_row_to_model.

(* training rows of fold f — the whole complement or any sub-sample of it (training-size cap) —
   contain neither a held-out PSM nor any PSM sharing a spectrum with a held-out PSM *)
Theorem C02_train_disjoint : forall keys k folds f chosen r,
  bw_split keys k = Ok folds -> incl chosen (bw_complement (length keys) (nth f folds [])) ->
  In r chosen ->
  ~ In r (nth f folds []) /\
  forall r', In r' (nth f folds []) -> nth r keys 0%Z <> nth r' keys 0%Z.
Proof. exact train_disjoint. Qed.
Print Assumptions C02_train_disjoint.

(* the final score of row r is produced by the model of r's fold from the raw scores that model
   gives to the rows of that fold only, at r's own position — for every chunk size *)
Theorem C02_routing : forall do_cal k thr fold_of targets raw,
  length targets = length fold_of ->
  (forall r, r < length fold_of -> nth r fold_of 0 < k) ->
  forall c out, 1 <= c ->
  bw_predict do_cal c k thr fold_of targets raw = Ok out ->
  length out = length fold_of /\
  forall r, r < length fold_of ->
    let f := nth r fold_of 0 in
    exists ys, fold_scores do_cal thr targets raw f (rows_of_fold fold_of f) = Ok ys /\
               length ys = length (rows_of_fold fold_of f) /\
               In r (rows_of_fold fold_of f) /\
               nth r out 0%Q = nth (index_of r (rows_of_fold fold_of f)) ys 0%Q.
Proof. exact predict_spec. Qed.
Print Assumptions C02_routing.

(* prediction does not depend on the chunk size, including chunks without a row of some fold *)
Theorem C02_predict_chunk_free : forall do_cal k thr fold_of targets raw,
  length targets = length fold_of -> forall c c', 1 <= c -> 1 <= c' ->
  bw_predict do_cal c k thr fold_of targets raw = bw_predict do_cal c' k thr fold_of targets raw.
Proof. exact predict_chunk_independent. Qed.
Print Assumptions C02_predict_chunk_free.

(* the held-out guarantee as a predicate on a scoring scheme (uses r f: the score of row r is computed from the
   output of model f; train: the training rows of every model):
     heldout_ok n k uses train := forall r f, r < n -> f < k -> uses r f = true -> ~ In r (nth f train []).
   Per-fold mode (C02_routing: row r is scored by the model of its fold alone): it holds *)
Theorem C02_heldout_per_fold : forall keys k folds, bw_split keys k = Ok folds ->
  heldout_ok (length keys) k (fun r f => Nat.eqb (nth r (bw_fold_of folds (length keys)) 0) f)
             (bw_train_sets folds (length keys)).
Proof. exact plain_heldout_ok. Qed.
Print Assumptions C02_heldout_per_fold.

(* ensemble=True (R2.22; the property text excludes it: "ensemble mode off"): every row is scored from the output
   of EVERY model (C04_ensemble_leak), and the guarantee is false for every dataset with a PSM and k >= 2 folds *)
Theorem C02_heldout_ensemble_refuted : forall keys k folds, 2 <= k -> 1 <= length keys -> bw_split keys k = Ok folds ->
  ~ heldout_ok (length keys) k (fun _ _ => true) (bw_train_sets folds (length keys)).
Proof. exact ens_heldout_refuted. Qed.
Print Assumptions C02_heldout_ensemble_refuted.

(* non-vacuity: 7 PSMs in 4 spectra, 3 folds; one spectrum straddles a nominal split point *)
Example C02_example :
  bw_split [5;3;5;9;3;5;1]%Z 3 = Ok [[6;1;4]; [0;2;5]; [3]] /\
  bw_fold_of [[6;1;4]; [0;2;5]; [3]] 7 = [1;0;1;2;0;1;0] /\
  bw_train_sets [[6;1;4]; [0;2;5]; [3]] 7 = [[0;2;3;5]; [1;3;4;6]; [0;1;2;4;5;6]] /\
  bw_split [5;5;5;5]%Z 3 = Err EIndex /\
  bw_subset_plan (Some 10) [20;4] = Err EValue /\
  bw_subset_plan (Some 10) [20;20] = Ok [Some 5; Some 5].
Proof. vm_compute. repeat split. Qed.
