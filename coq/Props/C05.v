(* C05 — results do not depend on chunk sizes, worker count, thread timing or file format.
   Statements only.  Every chunked algorithm of the models carries its chunk size as a parameter and
   is characterised by a chunk-free specification; the theorems below are proved in the files of the
   properties that own those algorithms. *)
From Coq Require Import Permutation Sorted.
From Mokaverif Require Import Model.Base Model.Tdc Model.Calibrate Model.PinCols Model.Brew Model.Merge
  Model.Confidence Model.Orders Model.Chunks Model.Readers.
From Mokaverif Require Import Proofs.PinColsP Proofs.BrewP Proofs.ConfidenceP Proofs.OrdersP Proofs.ReadersP
  Proofs.MergeP Proofs.BrewEnsP.
Open Scope nat_scope.

(* confidence chunk size: the level files (hence every result file) are the same for all chunk sizes *)
Theorem C05_confidence_chunk : forall (row : Type) (score : row -> Z) (lkey : nat -> row -> Z) c c' dedup n rows,
  1 <= c -> 1 <= c' -> NoDup (map score rows) ->
  cf_levels row score lkey c dedup dedup n rows = cf_levels row score lkey c' dedup dedup n rows.
Proof. exact levels_chunk_independent. Qed.
Print Assumptions C05_confidence_chunk.

(* prediction chunk size, including chunks that contain no PSM of some fold *)
Theorem C05_predict_chunk : forall do_cal k thr fold_of targets raw,
  length targets = length fold_of -> forall c c', 1 <= c -> 1 <= c' ->
  bw_predict do_cal c k thr fold_of targets raw = bw_predict do_cal c' k thr fold_of targets raw.
Proof. exact predict_chunk_independent. Qed.
Print Assumptions C05_predict_chunk.

(* training-read chunk size and the order in which worker threads deliver their pieces *)
Theorem C05_trainread_chunk : forall (row : Type) c order idx (tbl : list row),
  1 <= c -> (forall ls, Permutation (order ls) ls) ->
  or_parse row c order idx tbl = map (nth_error tbl) idx.
Proof. exact parse_order_free. Qed.
Print Assumptions C05_trainread_chunk.

(* column-scan chunk size *)
Theorem C05_colscan_chunk : forall cs columns o lb rows nan, 1 <= cs ->
  pc_read cs columns o lb rows nan = pc_read_spec columns o lb rows nan.
Proof. exact read_chunk_free. Qed.
Print Assumptions C05_colscan_chunk.

(* the order in which fitted models come back from the worker threads *)
Theorem C05_models_order : forall (A : Type) (ms ms' : list (nat * A)),
  Permutation ms ms' -> NoDup (map fst ms) -> or_sort_models ms = or_sort_models ms'.
Proof. exact @sort_models_order_free. Qed.
Print Assumptions C05_models_order.

(* reader chunk size, text or Parquet with any row-group layout (batch oracle keeping its contract):
   chunked delivery = whole read, with a row index continuing across chunks *)
Theorem C05_reader_chunk : forall c r cs, 0 < c -> tr_wf c r -> NoDup cs -> incl cs (tr_names r) ->
  exists chs whole, tr_chunks r c (Some cs) = Ok chs /\ tr_read r (Some cs) = Ok whole
    /\ ch_names whole = cs /\ ch_index whole = seq 0 (tr_nrows r) /\ length (ch_rows whole) = tr_nrows r
    /\ tr_chunked c cs (ch_rows whole) chs.
Proof. exact tr_reader_chunks_eq_read. Qed.
Print Assumptions C05_reader_chunk.

(* the k-way merge is a function of the multiset of rows: independent of how they are split over files *)
Theorem C05_merge_inputs : forall (row : Type) (score : row -> Z) inputs,
  Permutation (mg_merge_all score inputs) (concat inputs).
Proof. exact mg_merge_all_perm. Qed.
Print Assumptions C05_merge_inputs.

(* brew(ensemble=True) (R2.22): prediction chunk size — every model scores every chunk, the per-model lists are
   stacked over the chunks, the k stacked rows are averaged: the same scores for all chunk sizes *)
Theorem C05_ensemble_chunk : forall c c' k keys fitted, 1 <= c -> 1 <= c' ->
  bw_brew_scores_ens c k keys fitted = bw_brew_scores_ens c' k keys fitted.
Proof. exact brew_ens_chunk_independent. Qed.
Print Assumptions C05_ensemble_chunk.

(* ... and the order in which the fitted models (fold number, decision values) are delivered: they are sorted
   by fold before they are averaged *)
Theorem C05_ensemble_models_order : forall c k keys fitted fitted',
  Permutation fitted fitted' -> NoDup (map fst fitted) ->
  bw_brew_scores_ens c k keys fitted = bw_brew_scores_ens c k keys fitted'.
Proof. exact brew_ens_delivery_order_free. Qed.
Print Assumptions C05_ensemble_models_order.

(* the chunk-free reading of the ensemble score: (sum over the models of their raw decision value) / #models *)
Theorem C05_ensemble_spec : forall c n raws out, 1 <= c -> bw_predict_ens c n raws = Ok out ->
  raws <> [] /\ 0 < n /\ Forall (fun rm => length rm = n) raws /\ length out = n /\
  forall r, r < n ->
    nth r out 0%Q = bw_ens_mean (length raws) (ens_zsum (map (fun rm => nth r rm 0%Z) raws)).
Proof. exact ens_predict_spec. Qed.
Print Assumptions C05_ensemble_spec.

Example C05_ensemble_example :
  let keys := [5;3;5;9;3;5;1]%Z in
  let A := [9;8;7;6;5;4;3]%Z in let B := [1;2;3;4;5;6;7]%Z in let C := [2;2;2;2;9;9;9]%Z in
  bw_brew_scores_ens 2 3 keys [(3, C); (1, A); (2, B)] = Ok [12#3; 12#3; 12#3; 12#3; 19#3; 19#3; 19#3]%Q /\
  bw_brew_scores_ens 7 3 keys [(1, A); (2, B); (3, C)] = bw_brew_scores_ens 1 3 keys [(2, B); (3, C); (1, A)] /\
  bw_predict_ens 2 0 [A] = Err EValue /\ bw_predict_ens 2 7 [] = Err EType /\
  bw_brew_scores_ens 2 3 [5;5;5;5]%Z [(1, [1;1;1;1]%Z)] = Err EIndex.
Proof. vm_compute. repeat split. Qed.

Example C05_example :
  or_parse nat 2 (@rev _) [4;0;3] [10;11;12;13;14] = [Some 14; Some 10; Some 13] /\
  or_sort_models [(3, 30); (1, 10); (2, 20)] = or_sort_models [(2, 20); (3, 30); (1, 10)] /\
  bw_predict true 1 2 (1#2)%Q [0;1;0;1;0;1] [true;true;true;true;false;false] [[9;0;5;0;1;0];[0;8;0;6;0;2]]%Z
  = bw_predict true 4 2 (1#2)%Q [0;1;0;1;0;1] [true;true;true;true;false;false] [[9;0;5;0;1;0];[0;8;0;6;0;2]]%Z.
Proof. vm_compute. repeat split. Qed.
