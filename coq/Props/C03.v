(* C03 — competition and rollup.  Statements only; proofs in Proofs/ConfidenceP.v.
   Vocabulary: fs key l = first-seen-wins (one row per key, the first in l);
   is_best score key pool r = r is in pool and no row of pool with r's key scores higher;
   level_of lkey dedup j stream = content of level file j for a merged stream;
   ge_sc score a b = score a >= score b. *)
From Coq Require Import Permutation Sorted.
From Mokaverif Require Import Model.Base Model.Tdc Model.Merge Model.Confidence Model.Rollup.
From Mokaverif Require Import Proofs.TdcP Proofs.MergeP Proofs.ConfidenceP Proofs.RollupP.
Open Scope Z_scope.

(* the level loop: first seen wins at every level; a PSM dropped at PSM level is dropped everywhere *)
Theorem C03_levels_structure : forall (row : Type) (score : row -> Z) (lkey : nat -> row -> Z) c cd dedup n rows,
  cf_levels row score lkey c cd dedup n rows
  = map (fun j => level_of lkey dedup j (cf_stream row score lkey c cd rows)) (seq 0 n).
Proof. exact levels_unfold. Qed.
Print Assumptions C03_levels_structure.

(* de-duplication on (scores pairwise distinct): the PSM level holds exactly the best PSM of each
   spectrum, level j exactly the best retained PSM of each entity; every file is in
   non-increasing score order; every output row is an input row *)
Theorem C03_dedup : forall (row : Type) (score : row -> Z) (lkey : nat -> row -> Z) c n rows,
  (1 <= c)%nat -> NoDup (map score rows) ->
  let out := cf_levels row score lkey c true true n rows in
  let psms := nth 0%nat out [] in
  forall j, (j < n)%nat ->
    StronglySorted (ge_sc score) (nth j out []) /\
    forall r, In r (nth j out []) <->
              is_best score (lkey j) (match j with O => rows | S _ => psms end) r.
Proof. exact levels_dedup_spec. Qed.
Print Assumptions C03_dedup.

(* de-duplication off: every PSM is at PSM level (any scores), higher levels as before *)
Theorem C03_nodedup : forall (row : Type) (score : row -> Z) (lkey : nat -> row -> Z) c n rows,
  (1 <= c)%nat -> NoDup (map score rows) ->
  let out := cf_levels row score lkey c false false n rows in
  let psms := nth 0%nat out [] in
  forall j, (j < n)%nat ->
    StronglySorted (ge_sc score) (nth j out []) /\
    match j with
    | O => Permutation psms rows
    | S _ => forall r, In r (nth j out []) <-> is_best score (lkey j) psms r
    end.
Proof. exact levels_nodedup_spec. Qed.
Print Assumptions C03_nodedup.

(* the level files do not depend on the confidence chunk size *)
Theorem C03_chunk_independent : forall (row : Type) (score : row -> Z) (lkey : nat -> row -> Z) c c' dedup n rows,
  (1 <= c)%nat -> (1 <= c')%nat -> NoDup (map score rows) ->
  cf_levels row score lkey c dedup dedup n rows = cf_levels row score lkey c' dedup dedup n rows.
Proof. exact levels_chunk_independent. Qed.
Print Assumptions C03_chunk_independent.

(* targets and decoys go to their respective outputs; the q-value column is the C01 formula
   evaluated on exactly the rows retained at that level *)
Theorem C03_outputs : forall c dedup n rows j tg dc,
  nth j (cf_confidence c dedup n rows) ([], []) = (tg, dc) -> (j < n)%nat ->
  let lvl := nth j (cf_levels cf_row cf_score cf_lkey c dedup dedup n rows) [] in
  let rq := combine lvl (cf_qvalues lvl) in
  tg = filter (fun p => cf_target (fst p)) rq /\
  dc = filter (fun p => negb (cf_target (fst p))) rq /\
  length (cf_qvalues lvl) = length lvl /\
  forall i, (i < length lvl)%nat ->
    is_qvalue true (combine (map cf_score lvl) (map cf_target lvl)) (cf_score (nth i lvl (Build_cf_row 0 0 [] false 0)))
              (nth i (cf_qvalues lvl) 1%Q).
Proof. exact confidence_outputs. Qed.
Print Assumptions C03_outputs.

(* non-vacuity: 6 PSMs, 3 spectra, 2 peptides; chunk size 2 splits a spectrum over two chunks *)
Definition mk id sp pep tg sc := {| cf_id := id; cf_spec := sp; cf_keys := [pep]; cf_target := tg; cf_score := sc |}.
Definition ex_rows := [mk 0 1 10 true 50; mk 1 2 10 false 40; mk 2 1 11 true 70; mk 3 3 11 true 30; mk 4 2 11 false 60; mk 5 3 10 true 20].
Example C03_example :
  map (map cf_id) (cf_levels cf_row cf_score cf_lkey 2 true true 2 ex_rows) = [[2;4;3]; [2]] /\
  map (map cf_id) (cf_levels cf_row cf_score cf_lkey 2 false false 2 ex_rows) = [[2;4;0;1;3;5]; [2;0]] /\
  cf_levels cf_row cf_score cf_lkey 2 true true 2 ex_rows = cf_levels cf_row cf_score cf_lkey 100 true true 2 ex_rows /\
  NoDup (map cf_score ex_rows).
Proof. vm_compute. repeat split; repeat constructor; simpl; intuition discriminate. Qed.
(* the defect repaired in /repo (F5): per-chunk de-duplication while de-duplication is off loses PSMs *)
Example C03_chunk_dedup_flag_matters :
  map (map cf_id) (cf_levels cf_row cf_score cf_lkey 100 true false 2 ex_rows) = [[2;4;3]; [2]].
Proof. vm_compute. reflexivity. Qed.

(* ====================== the stand-alone rollup tool (mokapot.brew_rollup) ======================
   Proofs in Proofs/RollupP.v.  Vocabulary:
   ru_readers root tf df = the inputs of the merger: the rows of every selected targets file tagged
     target, then those of every selected decoys file tagged decoy (files whose name starts with
     the output root are not selected); pool = concat of them = ALL input rows of ALL files;
   ru_cols raw = renamed column names + is_decoy; ru_key cols level r = r's cell in column `level`;
   ru_temp = (level, rows of <root>.temp.<level>s) per level; ru_rollup = (level, (rows + q-values of
     <root>.targets.<level>s, of <root>.decoys.<level>s)) per level;
   ru_desc parents base x = x descends from base through the child -> parent table. *)

(* the scan loop (one `seen` set per level, no break) computes first-seen-wins for every level *)
Theorem C03_rollup_scan : forall (row : Type) (keys : list (row -> Z)) (stream : list row),
  ru_scan keys stream = map (fun k => fs k stream) keys.
Proof. exact ru_scan_spec. Qed.
Print Assumptions C03_rollup_scan.

(* (a) a run that succeeds: every input was sorted, the merged stream is a descending permutation of
   all input rows, the levels are the closure of the base level restricted to the column names, and
   every level's temp file is the first-seen-per-key subsequence of the merged stream *)
Theorem C03_rollup_structure : forall hp ht root base raw_cols tfiles dfiles temp,
  ru_temp hp ht root base raw_cols tfiles dfiles = Ok temp ->
  exists stream levels,
    mg_merge_checked cf_score true (ru_readers root tfiles dfiles) = Ok stream /\
    ru_levels base (ru_cols raw_cols) = Ok levels /\
    Forall (StronglySorted (ge_sc cf_score)) (ru_readers root tfiles dfiles) /\
    Permutation stream (concat (ru_readers root tfiles dfiles)) /\
    StronglySorted (ge_sc cf_score) stream /\
    temp = map (fun l => (l, fs (ru_key (ru_cols raw_cols) l) stream)) levels.
Proof. exact rollup_structure. Qed.
Print Assumptions C03_rollup_structure.

(* hence per level: descending score order; one row per entity; every entity of the pool is present;
   every row is a best row of its entity over ALL input rows of ALL files (ties included); with
   pairwise distinct scores the level is EXACTLY the set of best rows *)
Theorem C03_rollup_best : forall hp ht root base raw_cols tfiles dfiles temp,
  ru_temp hp ht root base raw_cols tfiles dfiles = Ok temp ->
  forall level lvl, In (level, lvl) temp ->
    let key := ru_key (ru_cols raw_cols) level in
    let pool := concat (ru_readers root tfiles dfiles) in
    StronglySorted (ge_sc cf_score) lvl /\
    NoDup (map key lvl) /\
    (forall z, In z (map key lvl) <-> In z (map key pool)) /\
    (forall r, In r lvl -> is_best cf_score key pool r) /\
    (NoDup (map cf_score pool) -> forall r, In r lvl <-> is_best cf_score key pool r).
Proof. exact rollup_best. Qed.
Print Assumptions C03_rollup_best.

(* (b) "the same rule": the temp files are the level files 1, 2, ... that the level loop of
   assign_confidence (cf_levels_run, de-duplication off, level i+1 keyed by the i-th rollup level)
   writes for the same merged stream *)
Theorem C03_rollup_same_loop : forall hp ht root base raw_cols tfiles dfiles temp,
  ru_temp hp ht root base raw_cols tfiles dfiles = Ok temp ->
  exists stream, mg_merge_checked cf_score true (ru_readers root tfiles dfiles) = Ok stream /\
    let levels := map fst temp in
    map snd temp = tl (cf_levels_run cf_row (ru_lkey (ru_cols raw_cols) levels) false (S (length levels)) stream).
Proof. exact rollup_same_loop. Qed.
Print Assumptions C03_rollup_same_loop.

(* ... and with pairwise distinct scores they are the level files 1, 2, ... of assign_confidence's
   whole row pipeline (chunk, sort, merge, level loop; any chunk size; de-duplication off) run on the
   pooled rows of all input files as one collection *)
Theorem C03_rollup_same_rule : forall hp ht root base raw_cols tfiles dfiles temp c,
  ru_temp hp ht root base raw_cols tfiles dfiles = Ok temp ->
  (1 <= c)%nat -> NoDup (map cf_score (concat (ru_readers root tfiles dfiles))) ->
  let levels := map fst temp in
  map snd temp
  = tl (cf_levels cf_row cf_score (ru_lkey (ru_cols raw_cols) levels) c false false (S (length levels))
                  (concat (ru_readers root tfiles dfiles))).
Proof. exact rollup_same_rule. Qed.
Print Assumptions C03_rollup_same_rule.

(* (c) an input file that is not in descending score order: ValueError, no result *)
Theorem C03_rollup_rejects_unsorted : forall hp ht root base raw_cols tfiles dfiles,
  ru_precheck hp ht root raw_cols tfiles dfiles = None ->
  Forall (fun l => l <> []) (ru_readers root tfiles dfiles) ->
  Exists (fun l => ~ StronglySorted (ge_sc cf_score) l) (ru_readers root tfiles dfiles) ->
  ru_temp hp ht root base raw_cols tfiles dfiles = Err EValue /\
  ru_rollup hp ht root base raw_cols tfiles dfiles = Err EValue.
Proof. exact rollup_rejects_unsorted. Qed.
Print Assumptions C03_rollup_rejects_unsorted.

(* the other failures: text and Parquet inputs together (RuntimeError); no input file, differing
   schemas, no score column (AssertionError); an input file without rows (RuntimeError); the model's
   fuel never runs out *)
Theorem C03_rollup_malformed : forall hp ht root base raw_cols tfiles dfiles,
  (hp && ht = true -> ru_rollup hp ht root base raw_cols tfiles dfiles = Err ERuntime) /\
  (hp && ht = false -> ru_readers root tfiles dfiles = [] ->
   ru_rollup hp ht root base raw_cols tfiles dfiles = Err EAssertion) /\
  (ru_precheck hp ht root raw_cols tfiles dfiles = None ->
   Exists (fun l => l = []) (ru_readers root tfiles dfiles) ->
   ru_rollup hp ht root base raw_cols tfiles dfiles = Err ERuntime) /\
  (forall e, ru_precheck hp ht root raw_cols tfiles dfiles = Some e ->
   ru_rollup hp ht root base raw_cols tfiles dfiles = Err e) /\
  ru_rollup hp ht root base raw_cols tfiles dfiles <> Err EFuel.
Proof. exact rollup_malformed. Qed.
Print Assumptions C03_rollup_malformed.

(* (d) the result files: targets and decoys of the temp file split by the flag, the q-value column is
   the C01 formula on exactly the rows of the temp file, and every row is a row of a selected input
   file, unmodified except for the flag, which is the kind of file it came from *)
Theorem C03_rollup_outputs : forall hp ht root base raw_cols tfiles dfiles out,
  ru_rollup hp ht root base raw_cols tfiles dfiles = Ok out ->
  exists temp, ru_temp hp ht root base raw_cols tfiles dfiles = Ok temp /\
    out = map (fun lt => (fst lt,
                 (filter (fun p => cf_target (fst p)) (combine (snd lt) (cf_qvalues (snd lt))),
                  filter (fun p => negb (cf_target (fst p))) (combine (snd lt) (cf_qvalues (snd lt)))))) temp /\
    forall level lvl, In (level, lvl) temp ->
      length (cf_qvalues lvl) = length lvl /\
      (forall i, (i < length lvl)%nat ->
         is_qvalue true (combine (map cf_score lvl) (map cf_target lvl))
                   (cf_score (nth i lvl (Build_cf_row 0 0 [] false 0))) (nth i (cf_qvalues lvl) 1%Q)) /\
      (forall r, In r lvl ->
         exists f r0, In r0 (ru_frows f) /\ r = ru_tag (cf_target r) r0 /\
           negb (prefixb (root ++ ru_s_dot) (ru_fname f)) = true /\
           (if cf_target r then In f tfiles else In f dfiles)).
Proof. exact rollup_outputs. Qed.
Print Assumptions C03_rollup_outputs.

(* (e) compute_rollup_levels: total (the fuel suffices), starts with the base level, no repetition,
   exactly the descendants of the base level, closed under the table *)
Theorem C03_rollup_levels : forall (parents : list (str * str)) (base : str),
  exists lv, ru_compute_levels parents base = Ok lv /\
    hd_error lv = Some base /\ NoDup lv /\
    (forall x, In x lv <-> ru_desc parents base x) /\
    (forall c p, In (c, p) parents -> In p lv -> In c lv).
Proof. exact ru_levels_closure. Qed.
Print Assumptions C03_rollup_levels.

(* the key of a level that is rolled up to is a cell of the row (no default leaks) *)
Theorem C03_rollup_key_total : forall base raw_cols levels level r d,
  ru_levels base (ru_cols raw_cols) = Ok levels -> In level levels ->
  length (cf_keys r) = length raw_cols -> level <> ru_s_is_decoy ->
  exists i, index_str level (ru_cols raw_cols) = Some i /\ (i < length (cf_keys r))%nat /\
            ru_key (ru_cols raw_cols) level r = nth i (cf_keys r) d.
Proof. exact ru_key_default_irrelevant. Qed.
Print Assumptions C03_rollup_key_total.

(* non-vacuity: two collections a, b; columns PSMId, peptide, Precursor, score; a stale result file
   "r.x" of an earlier run (root "r") among the decoy files is skipped *)
Definition rr id pep prec sc :=
  {| cf_id := id; cf_spec := 0; cf_keys := [id; pep; prec; sc]; cf_target := false; cf_score := sc |}.
Definition ex_cols := [ru_s_PSMId; ru_s_peptide; ru_s_Precursor; ru_s_score].
Definition ex_tf : list ru_file :=
  [([97], (1, [rr 0 10 20 90; rr 1 11 20 70; rr 2 10 21 50])); ([98], (1, [rr 3 11 22 80; rr 4 12 22 60]))].
Definition ex_df : list ru_file :=
  [([97], (1, [rr 5 10 23 85; rr 6 13 23 40])); ([114; 46; 120], (1, [rr 7 14 24 100]))].
Example C03_rollup_example :
  (match ru_rollup false true [114] ru_s_psm ex_cols ex_tf ex_df with
   | Ok out => map (fun o => (fst o, (map (fun p => cf_id (fst p)) (fst (snd o)), map (fun p => cf_id (fst p)) (snd (snd o))))) out
   | Err _ => [] end)
  = [(ru_s_precursor, ([0; 3; 2], [5])); (ru_s_peptide, ([0; 3; 4], [6]))] /\
  NoDup (map cf_score (concat (ru_readers [114] ex_tf ex_df))) /\
  ru_precheck false true [114] ex_cols ex_tf ex_df = None.
Proof. vm_compute. repeat split; repeat constructor; simpl; intuition discriminate. Qed.
(* an unsorted decoys file: ValueError; the hypotheses of C03_rollup_rejects_unsorted hold *)
Definition ex_df_bad : list ru_file := [([97], (1, [rr 6 13 23 40; rr 5 10 23 85]))].
Example C03_rollup_unsorted_example :
  ru_rollup false true [114] ru_s_psm ex_cols ex_tf ex_df_bad = Err EValue /\
  ru_precheck false true [114] ex_cols ex_tf ex_df_bad = None /\
  Forall (fun l => l <> []) (ru_readers [114] ex_tf ex_df_bad) /\
  Exists (fun l => ~ StronglySorted (ge_sc cf_score) l) (ru_readers [114] ex_tf ex_df_bad).
Proof.
  split; [vm_compute; reflexivity|]. split; [vm_compute; reflexivity|]. split.
  - repeat constructor; discriminate.
  - apply Exists_cons_tl, Exists_cons_tl, Exists_cons_hd. intros H.
    apply StronglySorted_inv in H. destruct H as [_ H]. apply Forall_inv in H. vm_compute in H. apply H. reflexivity.
Qed.
(* the default table: every level in one sweep; a table listed child-before-parent needs several *)
Example C03_rollup_levels_example :
  ru_compute_levels ru_default_parents ru_s_psm
    = Ok [ru_s_psm; ru_s_precursor; ru_s_modified_peptide; ru_s_peptide; ru_s_peptide_group] /\
  ru_compute_levels ru_default_parents ru_s_precursor
    = Ok [ru_s_precursor; ru_s_modified_peptide; ru_s_peptide; ru_s_peptide_group] /\
  ru_compute_levels ru_default_parents ru_s_peptide = Ok [ru_s_peptide] /\
  ru_compute_levels [([3], [2]); ([2], [1]); ([4], [9])] [1] = Ok [[1]; [2]; [3]].
Proof. vm_compute. repeat split. Qed.
