(* C03 — competition and rollup.  Statements only; proofs in Proofs/ConfidenceP.v.
   Vocabulary: fs key l = first-seen-wins (one row per key, the first in l);
   is_best score key pool r = r is in pool and no row of pool with r's key scores higher;
   level_of lkey dedup j stream = content of level file j for a merged stream;
   ge_sc score a b = score a >= score b. *)
From Coq Require Import Permutation Sorted.
From Mokaverif Require Import Model.Base Model.Tdc Model.Confidence Proofs.TdcP Proofs.ConfidenceP.
Open Scope Z_scope.

(* the level loop: first seen wins at every level; a PSM dropped at PSM level is dropped everywhere *)
Theorem C03_levels_structure : forall (row : Type) (score : row -> Z) (lkey : nat -> row -> Z) c cd dedup n rows,
  cf_levels row score lkey c cd dedup n rows
  = map (fun j => level_of lkey dedup j (cf_stream row score lkey c cd rows)) (seq 0 n).
Proof. exact levels_unfold. Qed.
Print Assumptions C03_levels_structure.

(* de-duplication on (scores pairwise distinct): the PSM level holds exactly the best PSM of each
   spectrum, level j exactly the best retained PSM of each entity; every file is in
   non-increasing score order; every output row is an input row *)
Theorem C03_dedup : forall (row : Type) (score : row -> Z) (lkey : nat -> row -> Z) c n rows,
  (1 <= c)%nat -> NoDup (map score rows) ->
  let out := cf_levels row score lkey c true true n rows in
  let psms := nth 0%nat out [] in
  forall j, (j < n)%nat ->
    StronglySorted (ge_sc score) (nth j out []) /\
    forall r, In r (nth j out []) <->
              is_best score (lkey j) (match j with O => rows | S _ => psms end) r.
Proof. exact levels_dedup_spec. Qed.
Print Assumptions C03_dedup.

(* de-duplication off: every PSM is at PSM level (any scores), higher levels as before *)
Theorem C03_nodedup : forall (row : Type) (score : row -> Z) (lkey : nat -> row -> Z) c n rows,
  (1 <= c)%nat -> NoDup (map score rows) ->
  let out := cf_levels row score lkey c false false n rows in
  let psms := nth 0%nat out [] in
  forall j, (j < n)%nat ->
    StronglySorted (ge_sc score) (nth j out []) /\
    match j with
    | O => Permutation psms rows
    | S _ => forall r, In r (nth j out []) <-> is_best score (lkey j) psms r
    end.
Proof. exact levels_nodedup_spec. Qed.
Print Assumptions C03_nodedup.

(* the level files do not depend on the confidence chunk size *)
Theorem C03_chunk_independent : forall (row : Type) (score : row -> Z) (lkey : nat -> row -> Z) c c' dedup n rows,
  (1 <= c)%nat -> (1 <= c')%nat -> NoDup (map score rows) ->
  cf_levels row score lkey c dedup dedup n rows = cf_levels row score lkey c' dedup dedup n rows.
Proof. exact levels_chunk_independent. Qed.
Print Assumptions C03_chunk_independent.

(* targets and decoys go to their respective outputs; the q-value column is the C01 formula
   evaluated on exactly the rows retained at that level *)
Theorem C03_outputs : forall c dedup n rows j tg dc,
  nth j (cf_confidence c dedup n rows) ([], []) = (tg, dc) -> (j < n)%nat ->
  let lvl := nth j (cf_levels cf_row cf_score cf_lkey c dedup dedup n rows) [] in
  let rq := combine lvl (cf_qvalues lvl) in
  tg = filter (fun p => cf_target (fst p)) rq /\
  dc = filter (fun p => negb (cf_target (fst p))) rq /\
  length (cf_qvalues lvl) = length lvl /\
  forall i, (i < length lvl)%nat ->
    is_qvalue true (combine (map cf_score lvl) (map cf_target lvl)) (cf_score (nth i lvl (Build_cf_row 0 0 [] false 0)))
              (nth i (cf_qvalues lvl) 1%Q).
Proof. exact confidence_outputs. Qed.
Print Assumptions C03_outputs.

(* non-vacuity: 6 PSMs, 3 spectra, 2 peptides; chunk size 2 splits a spectrum over two chunks *)
Definition mk id sp pep tg sc := {| cf_id := id; cf_spec := sp; cf_keys := [pep]; cf_target := tg; cf_score := sc |}.
Definition ex_rows := [mk 0 1 10 true 50; mk 1 2 10 false 40; mk 2 1 11 true 70; mk 3 3 11 true 30; mk 4 2 11 false 60; mk 5 3 10 true 20].
Example C03_example :
  map (map cf_id) (cf_levels cf_row cf_score cf_lkey 2 true true 2 ex_rows) = [[2;4;3]; [2]] /\
  map (map cf_id) (cf_levels cf_row cf_score cf_lkey 2 false false 2 ex_rows) = [[2;4;0;1;3;5]; [2;0]] /\
  cf_levels cf_row cf_score cf_lkey 2 true true 2 ex_rows = cf_levels cf_row cf_score cf_lkey 100 true true 2 ex_rows /\
  NoDup (map cf_score ex_rows).
Proof. vm_compute. repeat split; repeat constructor; simpl; intuition discriminate. Qed.
(* the defect repaired in /repo (F5): per-chunk de-duplication while de-duplication is off loses PSMs *)
Example C03_chunk_dedup_flag_matters :
  map (map cf_id) (cf_levels cf_row cf_score cf_lkey 100 true false 2 ex_rows) = [[2;4;3]; [2]].
Proof. vm_compute. reflexivity. Qed.
