(* placeholder — theorems are added below as they are proved *)
From Mokaverif Require Import Model.Base Model.Confidence.
