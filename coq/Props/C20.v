(* C20 — PepXML parsing.  Statements only; proofs are in Proofs/PepxmlP.v.

   px_read prefix files  models  mokapot.read_pepxml(files, decoy_prefix=prefix, to_df=True)  on the
   element trees of the files (lxml is an oracle), returning the rows before the numeric feature
   post-processing.  px_hits_of files  is the declarative list of all search hits with their enclosing
   run and spectrum, in document order. *)
From Coq Require Import Sorted.
From Mokaverif Require Import Model.Base Model.Pepxml Model.PepxmlPost Proofs.PepxmlP Proofs.PepxmlPostP.
Open Scope Z_scope.

(* ---- which inputs are accepted: exactly the well-formed ones (every required attribute present,
        no syntax error, at least one hit per file, at least one file, no Percolator score) ---- *)
Theorem C20_accepts_iff : forall prefix files,
  (exists rows, px_read prefix files = Ok rows) <-> px_wf files.
Proof. exact px_accepts_iff. Qed.
Print Assumptions C20_accepts_iff.

(* ---- every search hit of every spectrum query of every run of every file becomes exactly one PSM ---- *)
Theorem C20_one_per_hit : forall prefix files,
  px_wf files ->
  exists rows, px_read prefix files = Ok rows /\ length rows = length (px_hits_of files).
Proof. exact px_one_per_hit. Qed.
Print Assumptions C20_one_per_hit.

(* ---- ... in document order, carrying its own spectrum's scan / charge / retention time / precursor
        mass, its own calculated mass and optional attributes, and its own run's data-file name
        (base_name, with raw_data appended unless base_name already ends with it) ---- *)
Theorem C20_carries : forall prefix files rows,
  px_read prefix files = Ok rows -> Forall2 px_carries (px_hits_of files) rows.
Proof. exact px_read_carries. Qed.
Print Assumptions C20_carries.

(* ---- modifications: for strictly ascending positions inside 1..length, the running-offset loop
        puts each "[mass]" directly after residue number position ---- *)
Theorem C20_mods : forall pep mods,
  StronglySorted Z.lt (map fst mods) ->
  Forall (fun p => 1 <= p <= Z.of_nat (length pep)) (map fst mods) ->
  px_insert_mods pep mods = px_mods_spec pep mods.
Proof. exact px_insert_mods_strict. Qed.
Print Assumptions C20_mods.

(* the same for ascending positions with repetitions and position 0 (several modifications of one
   residue appear in list order) *)
Theorem C20_mods_ascending : forall pep mods,
  px_asc 0 mods -> Forall (fun pm => fst pm <= Z.of_nat (length pep)) mods ->
  px_insert_mods pep mods = px_mods_spec pep mods.
Proof. exact px_insert_mods_spec. Qed.
Print Assumptions C20_mods_ascending.

(* the specification only adds bracketed tags: deleting them gives the peptide back *)
Theorem C20_mods_strip : forall pep mods,
  ~ In px_LB pep -> Forall (fun pm => ~ In px_RB (snd pm)) mods ->
  px_strip_tags false (px_mods_spec pep mods) = pep.
Proof. exact px_strip_spec. Qed.
Print Assumptions C20_mods_strip.

(* the peptide column of every row *)
Theorem C20_peptide : forall prefix files rows,
  px_read prefix files = Ok rows -> Forall2 px_peptide_ok (px_hits_of files) rows.
Proof. exact px_read_peptide. Qed.
Print Assumptions C20_peptide.

(* ---- label: decoy (false) iff every protein carries the decoy prefix ---- *)
Theorem C20_label : forall prefix primary alts,
  px_label prefix primary alts = false <->
  Forall (px_has_prefix prefix) (map px_first_token (primary :: alts)).
Proof. exact px_label_false. Qed.
Print Assumptions C20_label.

Theorem C20_label_rows : forall prefix files rows,
  px_read prefix files = Ok rows -> Forall2 (px_label_ok prefix) (px_hits_of files) rows.
Proof. exact px_read_label. Qed.
Print Assumptions C20_label_rows.

(* ---- proteins: the first token of the primary and of every alternative protein, in order ---- *)
Theorem C20_proteins : forall prefix files rows,
  px_read prefix files = Ok rows -> Forall2 px_proteins_ok (px_hits_of files) rows.
Proof. exact px_read_proteins. Qed.
Print Assumptions C20_proteins.

Theorem C20_first_token_unique : forall t s, px_is_first_token t s -> t = px_first_token s.
Proof. exact px_first_token_unique. Qed.
Print Assumptions C20_first_token_unique.

(* ---- search scores: exactly the hit's score names, each once, with the last listed value;
        unchanged when the names are distinct ---- *)
Theorem C20_scores : forall prefix files rows,
  px_read prefix files = Ok rows -> Forall2 px_scores_ok (px_hits_of files) rows.
Proof. exact px_read_scores. Qed.
Print Assumptions C20_scores.

(* ---- several files are concatenated ---- *)
Theorem C20_concat : forall prefix fs1 fs2 r1 r2,
  px_read prefix fs1 = Ok r1 -> px_read prefix fs2 = Ok r2 ->
  px_read prefix (fs1 ++ fs2) = Ok (r1 ++ r2).
Proof. exact px_read_concat. Qed.
Print Assumptions C20_concat.

Theorem C20_concat_inv : forall prefix fs1 fs2 rows,
  fs1 <> [] -> fs2 <> [] -> px_read prefix (fs1 ++ fs2) = Ok rows ->
  exists r1 r2, px_read prefix fs1 = Ok r1 /\ px_read prefix fs2 = Ok r2 /\ rows = r1 ++ r2.
Proof. exact px_read_concat_inv. Qed.
Print Assumptions C20_concat_inv.

(* ---- Percolator-produced results, malformed files, files without hits, no files: an error ---- *)
Theorem C20_rejects : forall prefix files,
  files = [] \/ Exists (fun f => f_broken f = true) files \/
  Exists (fun f => px_hits_of_file f = []) files \/
  Exists (fun c : px_ctx => Exists (fun kv => px_illegal (fst kv) = true) (h_scores (snd c))) (px_hits_of files) ->
  exists e, px_read prefix files = Err e.
Proof. exact px_read_rejects. Qed.
Print Assumptions C20_rejects.

Theorem C20_illegal_names : forall n,
  px_illegal n = true <-> n = px_PERC_Q \/ n = px_PERC_PEP \/ n = px_PERC_SVM.
Proof. exact px_illegal_iff. Qed.
Print Assumptions C20_illegal_names.

(* ====================================================================== *)
(* R2.20 — the reader options and the returned table (Model/PepxmlPost.v)  *)
(* ====================================================================== *)
(* px_table num lg md mz rp sfx excl bin to_df rows  models what read_pepxml does with the parsed rows:
   exclude_features = excl (after tuplize), open_modification_bin_size = bin, to_df.  The six leading
   arguments are the floating-point oracles: float(text), log10, the mass difference, the m/z difference,
   the mantissa/exponent of repr(x), the text of the bin centre.  EVERY theorem below holds for EVERY
   choice of them: nothing about column names, order, roles, dtypes, which columns are transformed as a
   whole, the one-hot columns or the errors depends on how the floating-point unit rounds.

   px_read_table ... prefix files excl bin to_df  =  px_read, then px_table. *)
(* ---- column names and their order: a function of the parsed rows alone; the same for every option ---- *)
Theorem C20_table_columns : forall num lg md mz rp sfx excl bin to_df rows out,
  px_table num lg md mz rp sfx excl bin to_df rows = Ok out ->
  map c_name (o_cols out) = px_column_names rows.
Proof. exact pxp_table_names. Qed.
Print Assumptions C20_table_columns.

(* parsed columns: the nine keys of the parser first, then every other key (optional attributes, search
   scores) in order of first appearance over the records in document order *)
Theorem C20_parsed_names : forall rows,
  rows <> [] -> px_parsed_names rows = px_META9 ++ px_dedup_from px_META9 (flat_map px_extra_keys rows).
Proof. exact pxp_parsed_names_eq. Qed.
Print Assumptions C20_parsed_names.

Theorem C20_parsed_names_once : forall rows, NoDup (px_parsed_names rows).
Proof. exact pxp_parsed_names_nodup. Qed.
Print Assumptions C20_parsed_names_once.

Theorem C20_parsed_names_in : forall rows n,
  In n (px_parsed_names rows) <-> exists p, In p rows /\ In n (px_row_keys p).
Proof. exact pxp_parsed_names_in. Qed.
Print Assumptions C20_parsed_names_in.

Theorem C20_parsed_names_order : forall rows l1 x l2 y,
  flat_map px_row_keys rows = l1 ++ x :: l2 -> ~ In x l1 -> ~ In y l1 ->
  exists d1 d2, px_parsed_names rows = d1 ++ x :: d2 /\ ~ In x d1 /\ ~ In y d1.
Proof. exact pxp_parsed_names_order. Qed.
Print Assumptions C20_parsed_names_order.

(* all column names distinct, unless a search score is named like a derived column (known finding) *)
Theorem C20_columns_distinct : forall rows, px_no_collision rows -> NoDup (px_column_names rows).
Proof. exact pxp_column_names_nodup. Qed.
Print Assumptions C20_columns_distinct.

Theorem C20_charge_name_inj : forall a b, px_charge_name a = px_charge_name b -> a = b.
Proof. exact pxp_charge_name_inj. Qed.
Print Assumptions C20_charge_name_inj.

(* ---- roles ---- *)
Theorem C20_roles : forall num lg md mz rp sfx excl bin to_df rows out c,
  px_table num lg md mz rp sfx excl bin to_df rows = Ok out -> In c (o_cols out) ->
  (c_role c = RFeature <-> ~ In (c_name c) px_META9 /\ ~ In (c_name c) excl) /\
  (c_role c = RFeature -> c_kind c = KFloat /\ length (c_cells c) = length rows).
Proof. exact pxp_roles. Qed.
Print Assumptions C20_roles.

(* the nine metadata columns come first, in the parser's order, with these dtypes and cells *)
Theorem C20_meta_first : forall num lg md mz rp sfx excl bin to_df r0 rest out,
  px_table num lg md mz rp sfx excl bin to_df (r0 :: rest) = Ok out ->
  exists tail, o_cols out = px_meta_cols md sfx bin (px_md_lo md r0 rest) (px_md_hi md r0 rest) (r0 :: rest) ++ tail.
Proof. exact pxp_meta_first. Qed.
Print Assumptions C20_meta_first.

(* a column that is no feature is returned as parsed (dtype and cells) *)
Theorem C20_meta_column : forall num lg rp excl p,
  px_is_feature excl (pc_name p) = false ->
  px_log_features num lg rp excl p
  = Ok {| c_name := pc_name p; c_kind := pc_kind p; c_role := RMeta; c_logged := false; c_cells := pc_cells p |}.
Proof. exact pxp_logf_meta. Qed.
Print Assumptions C20_meta_column.

(* a feature column is a float column of as many numbers as there are rows; a bool column becomes 0/1 *)
Theorem C20_feature_column : forall num lg rp excl p c,
  px_is_feature excl (pc_name p) = true -> px_log_features num lg rp excl p = Ok c ->
  c_name c = pc_name p /\ c_role c = RFeature /\ c_kind c = KFloat /\
  length (c_cells c) = length (pc_cells p) /\
  (pc_kind p = KBool -> c_logged c = false /\ c_cells c = map px_bool_to_num (pc_cells p)) /\
  (pc_kind p <> KBool ->
     Forall px_numeric (c_cells c) /\
     exists vs, px_mapM (px_view num rp) (pc_cells p) = Ok vs /\
                px_transform lg vs = Ok (c_logged c, c_cells c)).
Proof. exact pxp_logf_feature. Qed.
Print Assumptions C20_feature_column.

(* ---- search scores ---- *)
Theorem C20_score_is_feature : forall num lg md mz rp sfx excl bin to_df rows out p n t,
  px_table num lg md mz rp sfx excl bin to_df rows = Ok out ->
  In p rows -> In (n, t) (p_scores p) -> ~ In n px_RESERVED12 -> ~ In n excl ->
  exists c, In c (o_cols out) /\ c_name c = n /\ c_role c = RFeature /\ c_kind c = KFloat /\
            Forall px_numeric (c_cells c) /\ length (c_cells c) = length rows /\
            px_log_features num lg rp excl
              {| pc_name := n; pc_kind := KText; pc_cells := map (px_score_cell n) rows |} = Ok c.
Proof. exact pxp_score_feature. Qed.
Print Assumptions C20_score_is_feature.

Theorem C20_excluded_keeps_text : forall num lg md mz rp sfx excl bin to_df rows out p n t,
  px_table num lg md mz rp sfx excl bin to_df rows = Ok out ->
  In p rows -> In (n, t) (p_scores p) -> ~ In n px_RESERVED12 -> In n excl ->
  In {| c_name := n; c_kind := KText; c_role := RMeta; c_logged := false; c_cells := map (px_score_cell n) rows |}
     (o_cols out).
Proof. exact pxp_score_excluded. Qed.
Print Assumptions C20_excluded_keeps_text.

(* ---- charge one-hot columns ---- *)
Theorem C20_charges_sorted : forall rows, StronglySorted Z.lt (px_charges rows).
Proof. exact pxp_charges_sorted. Qed.
Print Assumptions C20_charges_sorted.

Theorem C20_charges_in : forall rows c, In c (px_charges rows) <-> exists p, In p rows /\ p_charge p = c.
Proof. exact pxp_charges_in. Qed.
Print Assumptions C20_charges_in.

Theorem C20_charge_columns : forall num lg md mz rp sfx excl bin to_df rows out c,
  px_table num lg md mz rp sfx excl bin to_df rows = Ok out -> In c (px_charges rows) ->
  (~ In (px_charge_name c) excl ->
     In {| c_name := px_charge_name c; c_kind := KFloat; c_role := RFeature; c_logged := false;
           c_cells := map (fun p => CNum (if p_charge p =? c then 1 else 0)) rows |} (o_cols out)) /\
  (In (px_charge_name c) excl ->
     In {| c_name := px_charge_name c; c_kind := KBool; c_role := RMeta; c_logged := false;
           c_cells := map (fun p => CBool (p_charge p =? c)) rows |} (o_cols out)).
Proof. exact pxp_charge_columns. Qed.
Print Assumptions C20_charge_columns.

Theorem C20_onehot_row : forall rows p,
  In p rows ->
  exists a b, px_charges rows = a ++ p_charge p :: b /\
    map (fun c => p_charge p =? c) (px_charges rows) = map (fun _ => false) a ++ true :: map (fun _ => false) b.
Proof. exact pxp_onehot_row. Qed.
Print Assumptions C20_onehot_row.

(* ---- mass_diff / abs_mz_diff: from exp_mass, calc_mass, charge of the same row ---- *)
Theorem C20_mass_columns : forall num lg md mz rp sfx excl bin to_df rows out,
  px_table num lg md mz rp sfx excl bin to_df rows = Ok out -> rows <> [] ->
  (exists c, In c (o_cols out) /\ px_log_features num lg rp excl (px_mdiff_pre md rows) = Ok c) /\
  (exists c, In c (o_cols out) /\ px_log_features num lg rp excl (px_mzdiff_pre mz rows) = Ok c) /\
  (In px_N_MDIFF excl ->
     In {| c_name := px_N_MDIFF; c_kind := KFloat; c_role := RMeta; c_logged := false;
           c_cells := pc_cells (px_mdiff_pre md rows) |} (o_cols out)) /\
  (In px_N_MZDIFF excl ->
     In {| c_name := px_N_MZDIFF; c_kind := KFloat; c_role := RMeta; c_logged := false;
           c_cells := pc_cells (px_mzdiff_pre mz rows) |} (o_cols out)).
Proof. exact pxp_mass_columns. Qed.
Print Assumptions C20_mass_columns.

(* ---- the peptide column and the open-modification suffix ---- *)
Theorem C20_peptide_column : forall num lg md mz rp sfx excl bin to_df r0 rest out,
  px_table num lg md mz rp sfx excl bin to_df (r0 :: rest) = Ok out ->
  In {| c_name := px_N_PEPTIDE; c_kind := KText; c_role := RMeta; c_logged := false;
        c_cells := map (fun p => CText (px_pep_out md sfx bin (px_md_lo md r0 rest) (px_md_hi md r0 rest) p)) (r0 :: rest) |}
     (o_cols out).
Proof. exact pxp_peptide_column. Qed.
Print Assumptions C20_peptide_column.

Theorem C20_suffix_equal : forall md sfx b lo hi p1 p2,
  md (p_exp p1) (p_calc p1) = md (p_exp p2) (p_calc p2) ->
  exists s, px_pep_out md sfx (Some b) lo hi p1 = p_peptide p1 ++ px_tag s /\
            px_pep_out md sfx (Some b) lo hi p2 = p_peptide p2 ++ px_tag s.
Proof. exact pxp_suffix_equal. Qed.
Print Assumptions C20_suffix_equal.

(* in terms of the document: the modification insertion of the original property first, the suffix after *)
Theorem C20_read_table_peptide : forall num lg md mz rp sfx prefix files excl bin to_df rows out,
  px_read_table num lg md mz rp sfx prefix files excl bin to_df = Ok (rows, out) ->
  exists lo hi cells,
    In {| c_name := px_N_PEPTIDE; c_kind := KText; c_role := RMeta; c_logged := false; c_cells := cells |} (o_cols out) /\
    Forall2 (fun (c : px_ctx) cell =>
               let '(r, s, h) := c in
               exists e k, s_mass s = Some e /\ h_calc h = Some k /\
                 cell = CText (px_peptide (h_peptide h) (h_modinfos h)
                               ++ match bin with None => [] | Some b => px_tag (sfx b lo hi (md e k)) end))
            (px_hits_of files) cells.
Proof. exact pxp_read_table_peptide. Qed.
Print Assumptions C20_read_table_peptide.

(* ---- _log_features: whole columns only, and exactly when the rule holds of the column's values ---- *)
Theorem C20_log_whole_column : forall lg vs b cells,
  px_transform lg vs = Ok (b, cells) ->
  length cells = length vs /\ (b = false -> cells = map px_nv_id vs) /\
  (b = true -> px_sci_cond vs = true \/ (px_plain_cond vs = true /\
               exists low, cells = map (px_plain_log_cell lg low) vs)).
Proof. exact pxp_transform_whole. Qed.
Print Assumptions C20_log_whole_column.

Theorem C20_log_decision : forall lg vs b cells,
  px_transform lg vs = Ok (b, cells) ->
  (px_sci_cond vs = false -> (b = true <-> px_plain_rule vs)) /\
  (px_sci_cond vs = true ->
     forall rps, px_mapM px_nv_parts vs = Ok rps -> Forall (fun x => ~ (fst x == 0)%Q) rps ->
       (b = true <-> exists hi lo, In hi (map snd rps) /\ In lo (map snd rps) /\ 4 <= hi - lo) /\
       (b = true -> cells = map (px_sci_log_cell lg) rps)).
Proof. exact pxp_transform_decision. Qed.
Print Assumptions C20_log_decision.

Theorem C20_log_sci_cond : forall vs,
  px_sci_cond vs = true <->
  Exists (fun n => px_nv_e n = true) vs /\
  Forall (fun n => exists e v parts, n = NVval e v parts /\ (0 < v)%Q) vs.
Proof. exact pxp_sci_cond_iff. Qed.
Print Assumptions C20_log_sci_cond.

Theorem C20_log_plain_rule : forall vs, px_plain_cond vs = true <-> px_plain_rule vs.
Proof. exact pxp_plain_cond_iff. Qed.
Print Assumptions C20_log_plain_rule.

(* ---- option independence ---- *)
Theorem C20_bin_independent : forall num lg md mz rp sfx excl bin bin' to_df rows o0,
  px_table num lg md mz rp sfx excl bin to_df rows = Ok o0 ->
  exists o1, px_table num lg md mz rp sfx excl bin' to_df rows = Ok o1 /\
             Forall2 px_col_same_but_peptide (o_cols o0) (o_cols o1) /\
             (to_df = true -> o_roles o0 = None /\ o_roles o1 = None) /\
             (to_df = false -> o_roles o0 = Some (px_dataset_roles (o_cols o0)) /\
                               o_roles o1 = Some (px_dataset_roles (o_cols o0))).
Proof. exact pxp_bin_independent. Qed.
Print Assumptions C20_bin_independent.

Theorem C20_to_df_independent : forall num lg md mz rp sfx excl bin rows o',
  px_table num lg md mz rp sfx excl bin false rows = Ok o' <->
  exists o, px_table num lg md mz rp sfx excl bin true rows = Ok o /\ o_roles o = None /\
            existsb p_label rows = true /\ forallb p_label rows = false /\
            o' = {| o_cols := o_cols o; o_roles := Some (px_dataset_roles (o_cols o)) |}.
Proof. exact pxp_to_df_independent. Qed.
Print Assumptions C20_to_df_independent.

Theorem C20_dataset_roles : forall num lg md mz rp sfx excl bin rows out,
  px_table num lg md mz rp sfx excl bin false rows = Ok out ->
  o_roles out = Some {| ro_target := px_N_LABEL; ro_spectrum := [px_N_FILE; px_N_SCAN; px_N_RT];
                        ro_peptide := px_N_PEPTIDE; ro_protein := px_N_PROTEINS;
                        ro_features := px_feature_names (o_cols out);
                        ro_filename := px_N_FILE; ro_scan := px_N_SCAN; ro_calcmass := px_N_CALC;
                        ro_expmass := px_N_EXP; ro_rt := px_N_RT; ro_charge := px_N_CHARGE |}.
Proof. exact pxp_dataset_roles. Qed.
Print Assumptions C20_dataset_roles.

Theorem C20_exclude_independent : forall num lg md mz rp sfx e1 e2 bin to_df rows o1 o2,
  px_table num lg md mz rp sfx e1 bin to_df rows = Ok o1 ->
  px_table num lg md mz rp sfx e2 bin to_df rows = Ok o2 ->
  Forall2 (fun c1 c2 => c_name c1 = c_name c2 /\
                        (px_is_feature e1 (c_name c1) = px_is_feature e2 (c_name c1) -> c1 = c2))
          (o_cols o1) (o_cols o2).
Proof. exact pxp_exclude_independent. Qed.
Print Assumptions C20_exclude_independent.

Theorem C20_exclude_noop : forall excl extra n,
  (forall x, In x extra -> In x px_META9 \/ In x excl) ->
  px_is_feature (excl ++ extra) n = px_is_feature excl n.
Proof. exact pxp_is_feature_add_noop. Qed.
Print Assumptions C20_exclude_noop.

(* ---- errors ---- *)
(* Percolator scores (excluded or not), malformed files, ...: whatever px_read rejects stays rejected *)
Theorem C20_table_rejects_read : forall num lg md mz rp sfx prefix files excl bin to_df e,
  px_read prefix files = Err e -> px_read_table num lg md mz rp sfx prefix files excl bin to_df = Err e.
Proof. exact pxp_read_table_err. Qed.
Print Assumptions C20_table_rejects_read.

Theorem C20_read_table_ok : forall num lg md mz rp sfx prefix files excl bin to_df rows out,
  px_read_table num lg md mz rp sfx prefix files excl bin to_df = Ok (rows, out) <->
  px_read prefix files = Ok rows /\ px_table num lg md mz rp sfx excl bin to_df rows = Ok out.
Proof. exact pxp_read_table_ok. Qed.
Print Assumptions C20_read_table_ok.

Theorem C20_nonnumeric_rejected : forall num lg md mz rp sfx excl bin to_df rows p n t,
  In p rows -> px_assoc n (p_scores p) = Some t -> ~ In n px_RESERVED12 -> ~ In n excl ->
  num (px_lower t) = None ->
  exists e, px_table num lg md mz rp sfx excl bin to_df rows = Err e.
Proof. exact pxp_table_nonnumeric. Qed.
Print Assumptions C20_nonnumeric_rejected.

Theorem C20_dataset_needs_both_labels : forall num lg md mz rp sfx excl bin rows,
  (forall p, In p rows -> p_label p = true) \/ (forall p, In p rows -> p_label p = false) ->
  exists e, px_table num lg md mz rp sfx excl bin false rows = Err e.
Proof. exact pxp_table_dataset_labels. Qed.
Print Assumptions C20_dataset_needs_both_labels.

(* the calls that succeed: every non-excluded score text converts (px_text_ok), and to_df=False sees both labels;
   the premise on rp is the contract of the repr oracle *)
Theorem C20_table_accepts : forall num lg md mz rp sfx,
  (forall x, (0 < x)%Q -> ~ (fst (rp x) == 0)%Q) ->
  forall excl bin to_df rows,
  rows <> [] ->
  (forall p n t, In p rows -> px_assoc n (p_scores p) = Some t -> ~ In n excl -> px_text_ok num t) ->
  to_df = true \/ (existsb p_label rows = true /\ forallb p_label rows = false) ->
  exists out, px_table num lg md mz rp sfx excl bin to_df rows = Ok out.
Proof. exact pxp_table_accepts. Qed.
Print Assumptions C20_table_accepts.

(* ====================================================================== *)
(* Non-vacuity and sanity examples                                        *)
(* ====================================================================== *)
(* "rev_", "QATARSK", "357.2579", "1.5" *)
Definition ex_prefix : str := [114;101;118;95].
Definition ex_pep : str := [81;65;84;65;82;83;75].
Definition ex_m1 : str := [51;53;55;46;50;53;55;57].
Definition ex_m2 : str := [49;46;53].
(* "rev_sp|Q9 Placenta", "sp|X1 desc", "rev_b" *)
Definition ex_p1 : str := [114;101;118;95;115;112;124;81;57;32;80;108;97;99;101;110;116;97].
Definition ex_p2 : str := [115;112;124;88;49;32;100;101;115;99].
Definition ex_p3 : str := [114;101;118;95;98].
Definition ex_score : str := [120].   (* "x" *)

Definition ex_hit1 : px_hit :=
  {| h_peptide := ex_pep; h_protein := ex_p1; h_calc := Some 9895821; h_mc := Some 1; h_ntt := None;
     h_nmp := None; h_modinfos := [[(2, ex_m2); (7, ex_m1)]]; h_alts := [ex_p2];
     h_scores := [(ex_score, ex_m2)] |}.
Definition ex_hit2 : px_hit :=
  {| h_peptide := ex_pep; h_protein := ex_p3; h_calc := Some 9895709; h_mc := None; h_ntt := Some 2;
     h_nmp := Some 100; h_modinfos := []; h_alts := [ex_p1]; h_scores := [] |}.
Definition ex_spec : px_spectrum :=
  {| s_scan := Some 8; s_charge := Some 2; s_rt := Some 1233720; s_mass := Some 9896051;
     s_results := [[ex_hit1; ex_hit2]] |}.
Definition ex_run (base : str) : px_run :=
  {| r_base := base; r_raw := Some [46;109;122]; r_spectra := [ex_spec] |}.
Definition ex_file (base : str) : px_file := {| f_runs := [ex_run base]; f_broken := false |}.
Definition ex_files : list px_file := [ex_file [102]; ex_file [103;46;109;122]].

(* the hypothesis of C20_one_per_hit is satisfiable by a two-file document with four hits *)
Example C20_wf_satisfiable : px_wf ex_files /\ length (px_hits_of ex_files) = 4%nat.
Proof.
  split; [|reflexivity]. apply (C20_accepts_iff ex_prefix).
  eexists. vm_compute. reflexivity.
Qed.

(* what the model computes on it: peptide with both tags, first tokens, labels, file names *)
Example C20_ex_runs :
  match px_read ex_prefix ex_files with
  | Ok [a; b; c; d] =>
      p_peptide a = [81;65;91;49;46;53;93;84;65;82;83;75;91;51;53;55;46;50;53;55;57;93]  (* QA[1.5]TARSK[357.2579] *)
      /\ p_proteins a = [[114;101;118;95;115;112;124;81;57]; [115;112;124;88;49]]
      /\ p_label a = true /\ p_label b = false
      /\ p_file a = [102;46;109;122] /\ p_file c = [103;46;109;122]
      /\ p_scan d = 8 /\ p_peptide b = ex_pep
  | _ => False
  end.
Proof. vm_compute. repeat split; reflexivity. Qed.

(* the hypotheses of C20_mods are satisfiable ... *)
Example C20_mods_hyp_satisfiable :
  StronglySorted Z.lt (map fst [(2, ex_m2); (7, ex_m1)]) /\
  Forall (fun p => 1 <= p <= Z.of_nat (length ex_pep)) (map fst [(2, ex_m2); (7, ex_m1)]).
Proof.
  split.
  - repeat constructor.
  - repeat constructor; cbv; discriminate.
Qed.

(* ... and needed: with descending positions the code's result is not the specification
   (QATARSK[357.[1.5]2579] instead of QA[1.5]TARSK[357.2579]); such documents are outside the
   property's quantifier and are covered by the correspondence check only *)
Example C20_mods_descending_differs :
  px_insert_mods ex_pep [(7, ex_m1); (2, ex_m2)] <> px_mods_spec ex_pep [(7, ex_m1); (2, ex_m2)].
Proof. vm_compute. discriminate. Qed.

(* rejection examples: a Percolator score, a broken file, no files *)
Example C20_ex_rejects :
  px_read ex_prefix [{| f_runs := [{| r_base := [102]; r_raw := Some []; r_spectra :=
      [{| s_scan := Some 1; s_charge := Some 2; s_rt := Some 3; s_mass := Some 4;
          s_results := [[{| h_peptide := ex_pep; h_protein := ex_p2; h_calc := Some 5; h_mc := None;
                            h_ntt := None; h_nmp := None; h_modinfos := []; h_alts := [];
                            h_scores := [(px_PERC_PEP, ex_m2)] |}]] |}] |}]; f_broken := false |}] = Err EValue
  /\ px_read ex_prefix [ex_file [102]; {| f_runs := [ex_run [103]]; f_broken := true |}] = Err EValue
  /\ px_read ex_prefix [{| f_runs := []; f_broken := false |}] = Err EKey
  /\ px_read ex_prefix [] = Err EValue.
Proof. vm_compute. repeat split; reflexivity. Qed.

(* ====================================================================== *)
(* R2.20 examples: a concrete two-hit document through the whole reader    *)
(* ====================================================================== *)
(* two spectra (charges 3 and 2), one hit each; scores x = "1e-5" / "0.1" and y = "N/A" / "2" *)
Definition ex2_x1 : str := [49;101;45;53].      (* "1e-5" *)
Definition ex2_x2 : str := [48;46;49].          (* "0.1" *)
Definition ex2_NA : str := [78;47;65].          (* "N/A" *)
Definition ex2_two : str := [50].               (* "2" *)
Definition ex2_X : str := [120].                (* "x" *)
Definition ex2_Y : str := [121].                (* "y" *)
Definition ex2_hitA : px_hit :=
  {| h_peptide := ex_pep; h_protein := ex_p1; h_calc := Some 9895821; h_mc := Some 1; h_ntt := None;
     h_nmp := Some 100; h_modinfos := [[(2, ex_m2)]]; h_alts := [];
     h_scores := [(ex2_X, ex2_x1); (ex2_Y, ex2_NA)] |}.
Definition ex2_hitB : px_hit :=
  {| h_peptide := ex_pep; h_protein := ex_p2; h_calc := Some 9895709; h_mc := Some 0; h_ntt := None;
     h_nmp := None; h_modinfos := []; h_alts := []; h_scores := [(ex2_Y, ex2_two); (ex2_X, ex2_x2)] |}.
Definition ex2_files : list px_file :=
  [{| f_runs := [{| r_base := [102]; r_raw := Some [46;109;122]; r_spectra :=
        [{| s_scan := Some 8; s_charge := Some 3; s_rt := Some 1233720; s_mass := Some 9896051; s_results := [[ex2_hitA]] |};
         {| s_scan := Some 9; s_charge := Some 2; s_rt := Some 1233820; s_mass := Some 9896051; s_results := [[ex2_hitB]] |}] |}];
      f_broken := false |}].

(* one admissible choice of the oracles (exact arithmetic where a formula exists, tables otherwise) *)
Definition ex2_num (s : str) : option Q :=
  if str_eqb s ex2_x1 then Some (1 # 100000) else if str_eqb s [49] then Some 1%Q
  else if str_eqb s ex2_x2 then Some (1 # 10) else if str_eqb s ex2_two then Some 2%Q else None.
Definition ex2_lg (x : Q) : Q :=
  (if Qeq_bool x 1 then 0 else if Qeq_bool x (1 # 10) then -1 else if Qeq_bool x 100 then 2 else 0)%Q.
Definition ex2_md (e c : Z) : Q := (inject_Z (e - c)%Z / 10000)%Q.
Definition ex2_mz (e c z : Z) : Q := px_qabs (inject_Z (e - c)%Z / inject_Z (10000 * z)%Z)%Q.
Definition ex2_rp (x : Q) : Q * Z := (x, 0).
Definition ex2_sfx (b lo hi x : Q) : str :=
  if Qle_bool x (3 # 100) then [48;46;48;50;53] else [48;46;48;51;53].      (* "0.025" / "0.035" *)
Definition ex2_read := px_read_table ex2_num ex2_lg ex2_md ex2_mz ex2_rp ex2_sfx ex_prefix ex2_files.

(* y ("N/A") is no number: ValueError, unless it is excluded *)
Example C20_ex2_nonnumeric : ex2_read [] None true = Err EValue.
Proof. vm_compute. reflexivity. Qed.

(* exclude_features = "y": column names and order, dtypes, roles; x is transformed as a whole (exponents -5 and 0:
   log10(1) - 5 and log10(0.1) + 0); y keeps its text; the one-hot columns in numeric order, one per row *)
Example C20_ex2_table :
  match ex2_read [ex2_Y] None true with
  | Ok (_, out) =>
      map c_name (o_cols out)
      = px_META9 ++ [px_N_MC; px_N_NMP; ex2_X; ex2_Y; px_N_MDIFF; px_N_MZDIFF; px_N_CHARGE_ ++ [50]; px_N_CHARGE_ ++ [51]]
      /\ map c_role (o_cols out)
         = [RMeta; RMeta; RMeta; RMeta; RMeta; RMeta; RMeta; RMeta; RMeta;
            RFeature; RFeature; RFeature; RMeta; RFeature; RFeature; RFeature; RFeature]
      /\ map c_kind (o_cols out)
         = [KText; KInt; KInt; KFloat; KFloat; KFloat; KText; KText; KBool;
            KFloat; KFloat; KFloat; KText; KFloat; KFloat; KFloat; KFloat]
      /\ map c_name (filter c_logged (o_cols out)) = [ex2_X]
      /\ In {| c_name := ex2_X; c_kind := KFloat; c_role := RFeature; c_logged := true;
               c_cells := [CNum (0 + inject_Z (-5)%Z)%Q; CNum (-1 + inject_Z 0%Z)%Q] |} (o_cols out)
      /\ In {| c_name := ex2_Y; c_kind := KText; c_role := RMeta; c_logged := false;
               c_cells := [CText ex2_NA; CText ex2_two] |} (o_cols out)
      /\ In {| c_name := px_N_CHARGE_ ++ [50]; c_kind := KFloat; c_role := RFeature; c_logged := false;
               c_cells := [CNum 0%Q; CNum 1%Q] |} (o_cols out)
      /\ In {| c_name := px_N_CHARGE_ ++ [51]; c_kind := KFloat; c_role := RFeature; c_logged := false;
               c_cells := [CNum 1%Q; CNum 0%Q] |} (o_cols out)
      /\ o_roles out = None
  | Err _ => False
  end.
Proof. vm_compute. repeat split; try reflexivity; tauto. Qed.

(* bin size 0.01 and to_df=False: the suffix follows the inserted modification ("QA[1.5]TARSK" ++ "[0.025]"),
   the second row (difference 0.0342) gets the other bin; the dataset roles *)
Example C20_ex2_dataset :
  match ex2_read [ex2_Y] (Some (1 # 100)) false with
  | Ok (rows, out) =>
      In {| c_name := px_N_PEPTIDE; c_kind := KText; c_role := RMeta; c_logged := false;
            c_cells := [CText ([81;65;91;49;46;53;93;84;65;82;83;75] ++ [91;48;46;48;50;53;93]);
                        CText (ex_pep ++ [91;48;46;48;51;53;93])] |} (o_cols out)
      /\ map p_peptide rows = [[81;65;91;49;46;53;93;84;65;82;83;75]; ex_pep]
      /\ option_map ro_features (o_roles out)
         = Some [px_N_MC; px_N_NMP; ex2_X; px_N_MDIFF; px_N_MZDIFF; px_N_CHARGE_ ++ [50]; px_N_CHARGE_ ++ [51]]
      /\ option_map ro_calcmass (o_roles out) = Some px_N_CALC
      /\ option_map ro_spectrum (o_roles out) = Some [px_N_FILE; px_N_SCAN; px_N_RT]
  | Err _ => False
  end.
Proof. vm_compute. repeat split; try reflexivity; tauto. Qed.

(* the bin size changes the peptide column only (instance of C20_bin_independent) *)
Example C20_ex2_bin_only_peptide :
  match ex2_read [ex2_Y] None true, ex2_read [ex2_Y] (Some (1 # 100)) true with
  | Ok (_, o0), Ok (_, o1) =>
      filter (fun c => negb (str_eqb (c_name c) px_N_PEPTIDE)) (o_cols o0)
      = filter (fun c => negb (str_eqb (c_name c) px_N_PEPTIDE)) (o_cols o1)
  | _, _ => False
  end.
Proof. vm_compute. reflexivity. Qed.

(* only decoys or only targets: to_df=False is refused, to_df=True is not *)
Example C20_ex2_one_label :
  px_read_table ex2_num ex2_lg ex2_md ex2_mz ex2_rp ex2_sfx [120;120] ex2_files [ex2_Y] None false = Err EValue
  /\ exists r, px_read_table ex2_num ex2_lg ex2_md ex2_mz ex2_rp ex2_sfx [120;120] ex2_files [ex2_Y] None true = Ok r.
Proof. split; [vm_compute; reflexivity | eexists; vm_compute; reflexivity]. Qed.

(* the hypotheses of C20_table_accepts are satisfiable (rows of the example, y excluded) *)
Example C20_ex2_accepts_hyp :
  (forall x, (0 < x)%Q -> ~ (fst (ex2_rp x) == 0)%Q)
  /\ px_text_ok ex2_num ex2_x1 /\ px_text_ok ex2_num ex2_x2 /\ ~ px_text_ok ex2_num ex2_NA.
Proof.
  split; [intros x Hx Hz; cbn [ex2_rp fst] in Hz; rewrite Hz in Hx; exact (Qlt_irrefl _ Hx)|].
  split; [exists (1 # 100000); split; [reflexivity|]; exists 1%Q, (-5)%Z; repeat split; intros _ H; discriminate|].
  split; [exists (1 # 10); split; reflexivity|].
  intros (v & Hv & _). vm_compute in Hv. discriminate.
Qed.

(* str(int) for the charge column names *)
Example C20_ex_charge_names :
  px_charge_name 2 = px_N_CHARGE_ ++ [50] /\ px_charge_name 10 = px_N_CHARGE_ ++ [49;48] /\
  px_charge_name 0 = px_N_CHARGE_ ++ [48] /\ px_charge_name (-1) = px_N_CHARGE_ ++ [45;49] /\
  px_charges [] = [].
Proof. vm_compute. repeat split; reflexivity. Qed.

(* the threshold of the ratio test: 11000 / 1.1 in doubles is 10000 (the exact quotient of the two doubles is
   below 10000 by less than 2^-40): the column IS transformed; an exact-rational test against 10000 would say no *)
Example C20_ex_ratio_threshold :
  let a := (11000 # 1)%Q in
  let b := (2476979795053773 # 2251799813685248)%Q in          (* the double nearest to 1.1 *)
  Qle_bool (px_RATIO * b) a = true /\ Qle_bool (10000 * b) a = false.
Proof. vm_compute. split; reflexivity. Qed.
