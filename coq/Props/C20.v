(* C20 — PepXML parsing.  Statements only; proofs are in Proofs/PepxmlP.v.

   px_read prefix files  models  mokapot.read_pepxml(files, decoy_prefix=prefix, to_df=True)  on the
   element trees of the files (lxml is an oracle), returning the rows before the numeric feature
   post-processing.  px_hits_of files  is the declarative list of all search hits with their enclosing
   run and spectrum, in document order. *)
From Coq Require Import Sorted.
From Mokaverif Require Import Model.Base Model.Pepxml Proofs.PepxmlP.
Open Scope Z_scope.

(* ---- which inputs are accepted: exactly the well-formed ones (every required attribute present,
        no syntax error, at least one hit per file, at least one file, no Percolator score) ---- *)
Theorem C20_accepts_iff : forall prefix files,
  (exists rows, px_read prefix files = Ok rows) <-> px_wf files.
Proof. exact px_accepts_iff. Qed.
Print Assumptions C20_accepts_iff.

(* ---- every search hit of every spectrum query of every run of every file becomes exactly one PSM ---- *)
Theorem C20_one_per_hit : forall prefix files,
  px_wf files ->
  exists rows, px_read prefix files = Ok rows /\ length rows = length (px_hits_of files).
Proof. exact px_one_per_hit. Qed.
Print Assumptions C20_one_per_hit.

(* ---- ... in document order, carrying its own spectrum's scan / charge / retention time / precursor
        mass, its own calculated mass and optional attributes, and its own run's data-file name
        (base_name, with raw_data appended unless base_name already ends with it) ---- *)
Theorem C20_carries : forall prefix files rows,
  px_read prefix files = Ok rows -> Forall2 px_carries (px_hits_of files) rows.
Proof. exact px_read_carries. Qed.
Print Assumptions C20_carries.

(* ---- modifications: for strictly ascending positions inside 1..length, the running-offset loop
        puts each "[mass]" directly after residue number position ---- *)
Theorem C20_mods : forall pep mods,
  StronglySorted Z.lt (map fst mods) ->
  Forall (fun p => 1 <= p <= Z.of_nat (length pep)) (map fst mods) ->
  px_insert_mods pep mods = px_mods_spec pep mods.
Proof. exact px_insert_mods_strict. Qed.
Print Assumptions C20_mods.

(* the same for ascending positions with repetitions and position 0 (several modifications of one
   residue appear in list order) *)
Theorem C20_mods_ascending : forall pep mods,
  px_asc 0 mods -> Forall (fun pm => fst pm <= Z.of_nat (length pep)) mods ->
  px_insert_mods pep mods = px_mods_spec pep mods.
Proof. exact px_insert_mods_spec. Qed.
Print Assumptions C20_mods_ascending.

(* the specification only adds bracketed tags: deleting them gives the peptide back *)
Theorem C20_mods_strip : forall pep mods,
  ~ In px_LB pep -> Forall (fun pm => ~ In px_RB (snd pm)) mods ->
  px_strip_tags false (px_mods_spec pep mods) = pep.
Proof. exact px_strip_spec. Qed.
Print Assumptions C20_mods_strip.

(* the peptide column of every row *)
Theorem C20_peptide : forall prefix files rows,
  px_read prefix files = Ok rows -> Forall2 px_peptide_ok (px_hits_of files) rows.
Proof. exact px_read_peptide. Qed.
Print Assumptions C20_peptide.

(* ---- label: decoy (false) iff every protein carries the decoy prefix ---- *)
Theorem C20_label : forall prefix primary alts,
  px_label prefix primary alts = false <->
  Forall (px_has_prefix prefix) (map px_first_token (primary :: alts)).
Proof. exact px_label_false. Qed.
Print Assumptions C20_label.

Theorem C20_label_rows : forall prefix files rows,
  px_read prefix files = Ok rows -> Forall2 (px_label_ok prefix) (px_hits_of files) rows.
Proof. exact px_read_label. Qed.
Print Assumptions C20_label_rows.

(* ---- proteins: the first token of the primary and of every alternative protein, in order ---- *)
Theorem C20_proteins : forall prefix files rows,
  px_read prefix files = Ok rows -> Forall2 px_proteins_ok (px_hits_of files) rows.
Proof. exact px_read_proteins. Qed.
Print Assumptions C20_proteins.

Theorem C20_first_token_unique : forall t s, px_is_first_token t s -> t = px_first_token s.
Proof. exact px_first_token_unique. Qed.
Print Assumptions C20_first_token_unique.

(* ---- search scores: exactly the hit's score names, each once, with the last listed value;
        unchanged when the names are distinct ---- *)
Theorem C20_scores : forall prefix files rows,
  px_read prefix files = Ok rows -> Forall2 px_scores_ok (px_hits_of files) rows.
Proof. exact px_read_scores. Qed.
Print Assumptions C20_scores.

(* ---- several files are concatenated ---- *)
Theorem C20_concat : forall prefix fs1 fs2 r1 r2,
  px_read prefix fs1 = Ok r1 -> px_read prefix fs2 = Ok r2 ->
  px_read prefix (fs1 ++ fs2) = Ok (r1 ++ r2).
Proof. exact px_read_concat. Qed.
Print Assumptions C20_concat.

Theorem C20_concat_inv : forall prefix fs1 fs2 rows,
  fs1 <> [] -> fs2 <> [] -> px_read prefix (fs1 ++ fs2) = Ok rows ->
  exists r1 r2, px_read prefix fs1 = Ok r1 /\ px_read prefix fs2 = Ok r2 /\ rows = r1 ++ r2.
Proof. exact px_read_concat_inv. Qed.
Print Assumptions C20_concat_inv.

(* ---- Percolator-produced results, malformed files, files without hits, no files: an error ---- *)
Theorem C20_rejects : forall prefix files,
  files = [] \/ Exists (fun f => f_broken f = true) files \/
  Exists (fun f => px_hits_of_file f = []) files \/
  Exists (fun c : px_ctx => Exists (fun kv => px_illegal (fst kv) = true) (h_scores (snd c))) (px_hits_of files) ->
  exists e, px_read prefix files = Err e.
Proof. exact px_read_rejects. Qed.
Print Assumptions C20_rejects.

Theorem C20_illegal_names : forall n,
  px_illegal n = true <-> n = px_PERC_Q \/ n = px_PERC_PEP \/ n = px_PERC_SVM.
Proof. exact px_illegal_iff. Qed.
Print Assumptions C20_illegal_names.

(* ====================================================================== *)
(* Non-vacuity and sanity examples                                        *)
(* ====================================================================== *)
(* "rev_", "QATARSK", "357.2579", "1.5" *)
Definition ex_prefix : str := [114;101;118;95].
Definition ex_pep : str := [81;65;84;65;82;83;75].
Definition ex_m1 : str := [51;53;55;46;50;53;55;57].
Definition ex_m2 : str := [49;46;53].
(* "rev_sp|Q9 Placenta", "sp|X1 desc", "rev_b" *)
Definition ex_p1 : str := [114;101;118;95;115;112;124;81;57;32;80;108;97;99;101;110;116;97].
Definition ex_p2 : str := [115;112;124;88;49;32;100;101;115;99].
Definition ex_p3 : str := [114;101;118;95;98].
Definition ex_score : str := [120].   (* "x" *)

Definition ex_hit1 : px_hit :=
  {| h_peptide := ex_pep; h_protein := ex_p1; h_calc := Some 9895821; h_mc := Some 1; h_ntt := None;
     h_nmp := None; h_modinfos := [[(2, ex_m2); (7, ex_m1)]]; h_alts := [ex_p2];
     h_scores := [(ex_score, ex_m2)] |}.
Definition ex_hit2 : px_hit :=
  {| h_peptide := ex_pep; h_protein := ex_p3; h_calc := Some 9895709; h_mc := None; h_ntt := Some 2;
     h_nmp := Some 100; h_modinfos := []; h_alts := [ex_p1]; h_scores := [] |}.
Definition ex_spec : px_spectrum :=
  {| s_scan := Some 8; s_charge := Some 2; s_rt := Some 1233720; s_mass := Some 9896051;
     s_results := [[ex_hit1; ex_hit2]] |}.
Definition ex_run (base : str) : px_run :=
  {| r_base := base; r_raw := Some [46;109;122]; r_spectra := [ex_spec] |}.
Definition ex_file (base : str) : px_file := {| f_runs := [ex_run base]; f_broken := false |}.
Definition ex_files : list px_file := [ex_file [102]; ex_file [103;46;109;122]].

(* the hypothesis of C20_one_per_hit is satisfiable by a two-file document with four hits *)
Example C20_wf_satisfiable : px_wf ex_files /\ length (px_hits_of ex_files) = 4%nat.
Proof.
  split; [|reflexivity]. apply (C20_accepts_iff ex_prefix).
  eexists. vm_compute. reflexivity.
Qed.

(* what the model computes on it: peptide with both tags, first tokens, labels, file names *)
Example C20_ex_runs :
  match px_read ex_prefix ex_files with
  | Ok [a; b; c; d] =>
      p_peptide a = [81;65;91;49;46;53;93;84;65;82;83;75;91;51;53;55;46;50;53;55;57;93]  (* QA[1.5]TARSK[357.2579] *)
      /\ p_proteins a = [[114;101;118;95;115;112;124;81;57]; [115;112;124;88;49]]
      /\ p_label a = true /\ p_label b = false
      /\ p_file a = [102;46;109;122] /\ p_file c = [103;46;109;122]
      /\ p_scan d = 8 /\ p_peptide b = ex_pep
  | _ => False
  end.
Proof. vm_compute. repeat split; reflexivity. Qed.

(* the hypotheses of C20_mods are satisfiable ... *)
Example C20_mods_hyp_satisfiable :
  StronglySorted Z.lt (map fst [(2, ex_m2); (7, ex_m1)]) /\
  Forall (fun p => 1 <= p <= Z.of_nat (length ex_pep)) (map fst [(2, ex_m2); (7, ex_m1)]).
Proof.
  split.
  - repeat constructor.
  - repeat constructor; cbv; discriminate.
Qed.

(* ... and needed: with descending positions the code's result is not the specification
   (QATARSK[357.[1.5]2579] instead of QA[1.5]TARSK[357.2579]); such documents are outside the
   property's quantifier and are covered by the correspondence check only *)
Example C20_mods_descending_differs :
  px_insert_mods ex_pep [(7, ex_m1); (2, ex_m2)] <> px_mods_spec ex_pep [(7, ex_m1); (2, ex_m2)].
Proof. vm_compute. discriminate. Qed.

(* rejection examples: a Percolator score, a broken file, no files *)
Example C20_ex_rejects :
  px_read ex_prefix [{| f_runs := [{| r_base := [102]; r_raw := Some []; r_spectra :=
      [{| s_scan := Some 1; s_charge := Some 2; s_rt := Some 3; s_mass := Some 4;
          s_results := [[{| h_peptide := ex_pep; h_protein := ex_p2; h_calc := Some 5; h_mc := None;
                            h_ntt := None; h_nmp := None; h_modinfos := []; h_alts := [];
                            h_scores := [(px_PERC_PEP, ex_m2)] |}]] |}] |}]; f_broken := false |}] = Err EValue
  /\ px_read ex_prefix [ex_file [102]; {| f_runs := [ex_run [103]]; f_broken := true |}] = Err EValue
  /\ px_read ex_prefix [{| f_runs := []; f_broken := false |}] = Err EKey
  /\ px_read ex_prefix [] = Err EValue.
Proof. vm_compute. repeat split; reflexivity. Qed.
