(* C20 — PepXML parsing.  Statements only; proofs are in Proofs/PepxmlP.v. *)
From Mokaverif Require Import Model.Base Model.Pepxml Proofs.PepxmlP.
Open Scope Z_scope.

Theorem C20_stub : forall A B (f : A -> result (list B)), px_collect f [] = Ok [].
Proof. exact (@px_collect_nil). Qed.
Print Assumptions C20_stub.
