(* Extraction of every model entry point.  ExtrOcamlBasic only: nat, positive, Z, Q stay
   the extracted inductive types; no Extract Constant / Extract Inductive of our own. *)
From Coq Require Extraction ExtrOcamlBasic.
From Mokaverif Require Import Model.Base Model.PinTsv.

Extraction Language OCaml.
Extraction "model.ml"
  Z.to_nat Z.of_nat Z.add Z.mul Z.opp Qred
  PinTsv.convert_file PinTsv.is_valid PinTsv.convert_line PinTsv.parse_header.
