(* Fs.v — model of the files a run of mokapot.assign_confidence (and the CLI's PIN verify step)
   creates, appends to, reads, renames and removes (C09).  Definitions only.

   A directory is an association list from structured file names to contents.  A run is the list of
   primitive file operations the code performs, in order; every operation names the files whose
   content it reads ([deps]) and the function ([fn] symbol) that turns what was read into what is
   written, so that a run is plain data: it can be printed, cut at any crash point ([firstn k]) and
   compared with the system-call trace of the real run.

   The generic part is a Section over the content type and the function symbols. *)
From Mokaverif Require Import Model.Base Model.Tdc Model.PinCols Model.Merge Model.Confidence Model.PinTsv.
Open Scope Z_scope.

(* ---------- file names ---------- *)
Inductive fname : Type :=
| NChunk (pfx : Z) (i : nat) (ext : bool)       (* <file_prefix>scores_metadata_<i><ext>   (ext: false .tsv/.pin/..., true .parquet) *)
| NLevel (lv : nat) (ext : bool)                (* <file_root><level><ext>    level 0 = psms *)
| NResult (pfx : Z) (decoy : bool) (lv : nat)   (* <file_prefix>targets.<level> / decoys.<level> *)
| NPin (p : Z)                                  (* a user's PIN file *)
| NTmpTsv (p : Z)                               (* <pin>.tsv *)
| NOther (z : Z).                               (* anything else in the directory *)

Definition fname_eqb (a b : fname) : bool :=
  match a, b with
  | NChunk p i e, NChunk p' i' e' => (p =? p') && Nat.eqb i i' && Bool.eqb e e'
  | NLevel l e, NLevel l' e' => Nat.eqb l l' && Bool.eqb e e'
  | NResult p d l, NResult p' d' l' => (p =? p') && Bool.eqb d d' && Nat.eqb l l'
  | NPin p, NPin p' => p =? p'
  | NTmpTsv p, NTmpTsv p' => p =? p'
  | NOther z, NOther z' => z =? z'
  | _, _ => false
  end.

Fixpoint fs_mem (n : fname) (l : list fname) : bool :=
  match l with [] => false | x :: r => fname_eqb x n || fs_mem n r end.
Definition fs_remove (n : fname) (l : list fname) : list fname :=
  filter (fun x => negb (fname_eqb x n)) l.

(* glob patterns the code uses *)
Inductive fpat : Type :=
| PChunks (pfx : Z).                            (* <file_prefix>scores_metadata_*  *)
Definition fpat_match (p : fpat) (n : fname) : bool :=
  match p, n with
  | PChunks pfx, NChunk pfx' _ _ => pfx =? pfx'
  | _, _ => false
  end.

Section FsGeneric.
Variable content : Type.
Variable fn : Type.
Variable apply : fn -> list content -> option content.   (* None: the computation raises *)
Variable cat : content -> content -> content.            (* appending to a file *)

Definition fs := list (fname * content).

Fixpoint fs_get (s : fs) (n : fname) : option content :=
  match s with
  | [] => None
  | (m, c) :: r => if fname_eqb m n then Some c else fs_get r n
  end.
Definition fs_del (s : fs) (n : fname) : fs := filter (fun p => negb (fname_eqb (fst p) n)) s.
Definition fs_set (s : fs) (n : fname) (c : content) : fs := (n, c) :: fs_del s n.

Fixpoint fs_gets (s : fs) (ns : list fname) : option (list content) :=
  match ns with
  | [] => Some []
  | n :: r => match fs_get s n, fs_gets s r with
              | Some c, Some cs => Some (c :: cs)
              | _, _ => None
              end
  end.

Definition fs_names (s : fs) : list fname := map fst s.
Definition fs_glob (s : fs) (p : fpat) : list fname := filter (fpat_match p) (fs_names s).

Inductive op : Type :=
| OWrite (n : fname) (deps : list fname) (f : fn)      (* create or truncate n, write f(contents of deps) *)
| OAppend (n : fname) (deps : list fname) (f : fn)     (* open n in append mode (creating it if absent) *)
| OUnlink (n : fname)
| OMove (src dst : fname)                              (* shutil.move / rename: replaces dst *)
| OWriteGlob (n : fname) (p : fpat) (f : fn)           (* as OWrite, but the files read are found by glob *)
| OUnlinkGlob (p : fpat).                              (* remove whatever the glob finds *)

(* None: FileNotFoundError (or the computation raised) — the run stops there *)
Definition exec_op (s : fs) (o : op) : option fs :=
  match o with
  | OWrite n deps f =>
      match fs_gets s deps with
      | Some cs => match apply f cs with Some c => Some (fs_set s n c) | None => None end
      | None => None
      end
  | OAppend n deps f =>
      match fs_gets s deps with
      | Some cs => match apply f cs with
                   | Some c => Some (fs_set s n (match fs_get s n with Some old => cat old c | None => c end))
                   | None => None
                   end
      | None => None
      end
  | OUnlink n => match fs_get s n with Some _ => Some (fs_del s n) | None => None end
  | OMove a b => match fs_get s a with Some c => Some (fs_set (fs_del s a) b c) | None => None end
  | OWriteGlob n p f =>
      match fs_gets s (fs_glob s p) with
      | Some cs => match apply f cs with Some c => Some (fs_set s n c) | None => None end
      | None => None
      end
  | OUnlinkGlob p => Some (fold_left fs_del (fs_glob s p) s)
  end.

Fixpoint exec (ops : list op) (s : fs) : option fs :=
  match ops with
  | [] => Some s
  | o :: r => match exec_op s o with Some s' => exec r s' | None => None end
  end.

(* a run killed after its first k operations *)
Definition exec_crash (k : nat) (ops : list op) (s : fs) : option fs := exec (firstn k ops) s.

(* ---- the static discipline: "a run only reads what it was given or has written itself" ----
   W = the names whose content is determined by the run's inputs at this point:
   the declared inputs, plus everything the run created, minus everything it removed. *)
Fixpoint wf_ops (W : list fname) (ops : list op) : bool :=
  match ops with
  | [] => true
  | OWrite n deps _ :: r => forallb (fun d => fs_mem d W) deps && wf_ops (n :: W) r
  | OAppend n deps _ :: r => fs_mem n W && forallb (fun d => fs_mem d W) deps && wf_ops W r
  | OUnlink n :: r => fs_mem n W && wf_ops (fs_remove n W) r
  | OMove a b :: r => fs_mem a W && wf_ops (b :: fs_remove a W) r
  | OWriteGlob _ _ _ :: _ => false
  | OUnlinkGlob _ :: _ => false
  end.

Fixpoint owned_after (W : list fname) (ops : list op) : list fname :=
  match ops with
  | [] => W
  | OWrite n _ _ :: r => owned_after (n :: W) r
  | OAppend _ _ _ :: r => owned_after W r
  | OUnlink n :: r => owned_after (fs_remove n W) r
  | OMove a b :: r => owned_after (b :: fs_remove a W) r
  | OWriteGlob n _ _ :: r => owned_after (n :: W) r
  | OUnlinkGlob _ :: r => owned_after W r
  end.

(* names a run may modify at all (glob operations excluded: they have no static footprint) *)
Fixpoint touched (ops : list op) : list fname :=
  match ops with
  | [] => []
  | OWrite n _ _ :: r => n :: touched r
  | OAppend n _ _ :: r => n :: touched r
  | OUnlink n :: r => n :: touched r
  | OMove a b :: r => a :: b :: touched r
  | OWriteGlob n _ _ :: r => n :: touched r
  | OUnlinkGlob _ :: r => touched r
  end.
End FsGeneric.

Arguments OWrite {fn}. Arguments OAppend {fn}. Arguments OUnlink {fn}. Arguments OMove {fn}.
Arguments OWriteGlob {fn}. Arguments OUnlinkGlob {fn}.

(* ======================= assign_confidence ======================= *)
Definition crow := (cf_row * Q)%type.            (* a row of a file; q-value column (0 in intermediate files) *)
Definition ccontent := list crow.

Record fs_coll := { fc_pfx : Z;                  (* 0: no prefix *)
                    fc_rows : list cf_row;       (* the PSM table with the scores to rank by *)
                    fc_prot : option (list Z * list cf_row) }.
                    (* protein level (an oracle, see C15): the PSM ids of the peptide-level file the picked-protein step is
                       expected to read, and the rows it then writes to the protein-level file *)

Record fs_cfg := { fg_ext : bool;                (* input (hence chunk / level file) format: true = Parquet *)
                   fg_c : nat;                   (* CONFIDENCE_CHUNK_SIZE *)
                   fg_dedup : bool;
                   fg_nlevels : nat;             (* 1 + number of rollup levels *)
                   fg_decoys : bool;
                   fg_append : bool;             (* append_to_output_file *)
                   fg_glob : bool;               (* chunk files found by glob (the code before the repair) *)
                   fg_proteins : bool;           (* a protein level follows the rollup levels *)
                   fg_colls : list fs_coll }.

Inductive cfn : Type :=
| KEmpty                                         (* header only *)
| KConst (rows : list cf_row)                    (* data that comes from the run's input *)
| KLevelBatch (c : nat) (dedup : bool) (nl lv b : nat)   (* deps = chunk files: b-th batch of level lv *)
| KLevelAll (dedup : bool) (nl lv : nat)         (* deps = chunk files: all rows of level lv *)
| KResultBatch (c : nat) (lv : nat) (decoy : bool) (b : nat)    (* deps = [level file] *)
| KProteins (ids : list Z) (rows : list cf_row).                (* deps = [peptide-level file]: picked proteins (oracle) *)

Definition fs_plain (rows : list cf_row) : ccontent := map (fun r => (r, 0%Q)) rows.

Fixpoint fs_zlist_eqb (a b : list Z) : bool :=
  match a, b with
  | [], [] => true
  | x :: r, y :: t => (x =? y) && fs_zlist_eqb r t
  | _, _ => false
  end.

Definition fs_level_rows (dedup : bool) (nl lv : nat) (inputs : list ccontent) : list cf_row :=
  nth lv (cf_levels_run cf_row cf_lkey dedup nl (mg_merge_all cf_score (map (map fst) inputs))) [].

Definition capply (f : cfn) (inputs : list ccontent) : option ccontent :=
  match f with
  | KEmpty => Some []
  | KConst rows => Some (fs_plain rows)
  | KLevelBatch c dedup nl lv b =>
      Some (fs_plain (nth b (pc_chunks c (fs_level_rows dedup nl lv inputs)) []))
  | KLevelAll dedup nl lv => Some (fs_plain (fs_level_rows dedup nl lv inputs))
  | KResultBatch c lv decoy b =>
      match inputs with
      | [lvl] =>
          let rows := map fst lvl in
          let rq := combine rows (cf_qvalues rows) in
          Some (filter (fun p => Bool.eqb (cf_target (fst p)) (negb decoy)) (nth b (pc_chunks c rq) []))
      | _ => None
      end
  | KProteins ids rows =>
      match inputs with
      | [peps] => if fs_zlist_eqb (map (fun p => cf_id (fst p)) peps) ids then Some (fs_plain rows) else None
      | _ => None
      end
  end.

Definition cop := op cfn.

(* chunk files of one collection: `chunk_writer.write(df)` = initialize + append for text,
   one to_parquet call for Parquet *)
Definition fs_chunk_rows (g : fs_cfg) (rows : list cf_row) : list (list cf_row) :=
  cf_chunk_files cf_row cf_score cf_lkey (fg_c g) (fg_dedup g) rows.

Definition fs_chunk_names (g : fs_cfg) (pfx : Z) (rows : list cf_row) : list fname :=
  map (fun i => NChunk pfx i (fg_ext g)) (seq 0 (length (fs_chunk_rows g rows))).

Definition fs_chunk_ops (g : fs_cfg) (pfx : Z) (rows : list cf_row) : list cop :=
  flat_map (fun ic => let '(i, ch) := ic in
                      let n := NChunk pfx i (fg_ext g) in
                      if fg_ext g then [OWrite n [] (KConst ch)]
                      else [OWrite n [] KEmpty; OAppend n [] (KConst ch)])
           (combine (seq 0 (length (fs_chunk_rows g rows))) (fs_chunk_rows g rows)).

(* the levels that have result files: psms, the rollup levels and, when proteins are given, the protein level *)
Definition fs_res_levels (g : fs_cfg) : list nat :=
  if fg_proteins g then seq 0 (S (fg_nlevels g)) else seq 0 (fg_nlevels g).

(* result files are created (header only) unless results are appended to existing files *)
Definition fs_result_inits (g : fs_cfg) (pfx : Z) (append : bool) : list cop :=
  if append then [] else
  flat_map (fun lv => OWrite (NResult pfx false lv) [] KEmpty ::
                      (if fg_decoys g then [OWrite (NResult pfx true lv) [] KEmpty] else []))
           (fs_res_levels g).

(* the level loop, transcribed with its flushes: rows are added to the batch of a level; a batch
   that reaches CONFIDENCE_CHUNK_SIZE rows is appended to the level file at once *)
Fixpoint fs_levels_ev_step (c : nat) (dedup : bool) (r : cf_row) (lv todo : nat)
         (seen : list (list Z)) (added : list nat) (ev : list (nat * nat))
  : list (list Z) * list nat * list (nat * nat) :=
  match todo with
  | O => (seen, added, ev)
  | S todo' =>
    let s := nth lv seen [] in
    let a := S (nth lv added 0%nat) in
    let ev' := if Nat.eqb (a mod c) 0 then ev ++ [(lv, (a / c - 1)%nat)] else ev in
    if (negb (Nat.eqb lv 0) || dedup)%bool then
      if cf_memz (cf_lkey lv r) s then
        if Nat.eqb lv 0 then (seen, added, ev)
        else fs_levels_ev_step c dedup r (S lv) todo' seen added ev
      else fs_levels_ev_step c dedup r (S lv) todo'
             (cf_replace_nth lv (cf_lkey lv r :: s) seen) (cf_replace_nth lv a added) ev'
    else fs_levels_ev_step c dedup r (S lv) todo' seen (cf_replace_nth lv a added) ev'
  end.

(* (level, batch index) of every append to a level file, in the order the code performs them:
   full batches as they fill up, then one final (possibly empty) flush per level *)
Definition fs_level_events (c : nat) (dedup : bool) (nl : nat) (stream : list cf_row) : list (nat * nat) :=
  let '(_, added, ev) :=
    fold_left (fun st r => let '(seen, added, ev) := st in fs_levels_ev_step c dedup r 0 nl seen added ev)
              stream (repeat [] nl, repeat 0%nat nl, []) in
  ev ++ map (fun lv => (lv, (nth lv added 0%nat / c)%nat)) (seq 0 nl).

Definition fs_level_ops (g : fs_cfg) (pfx : Z) (rows : list cf_row) : list cop :=
  let chunks := fs_chunk_names g pfx rows in
  let stream := mg_merge_all cf_score (fs_chunk_rows g rows) in
  map (fun lv => OWrite (NLevel lv (fg_ext g)) [] KEmpty) (seq 0 (fg_nlevels g)) ++
  map (fun e => OAppend (NLevel (fst e) (fg_ext g)) chunks
                        (KLevelBatch (fg_c g) (fg_dedup g) (fg_nlevels g) (fst e) (snd e)))
      (fs_level_events (fg_c g) (fg_dedup g) (fg_nlevels g) stream).

(* the same phase when the chunk files are found by glob: what is read is whatever matches *)
Definition fs_level_ops_glob (g : fs_cfg) (pfx : Z) : list cop :=
  map (fun lv => OWrite (NLevel lv (fg_ext g)) [] KEmpty) (seq 0 (fg_nlevels g)) ++
  map (fun lv => OWriteGlob (NLevel lv (fg_ext g)) (PChunks pfx)
                            (KLevelAll (fg_dedup g) (fg_nlevels g) lv))
      (seq 0 (fg_nlevels g)).

(* LinearConfidence._assign_confidence + write_to_disk for one level: the level file is read,
   q-values are computed, the rows go chunk-wise to the target (and decoy) result file, the level
   file is removed *)
Definition fs_result_ops (g : fs_cfg) (pfx : Z) (levels : list (list cf_row)) : list cop :=
  flat_map (fun il => let '(lv, rows) := il in
      flat_map (fun b => OAppend (NResult pfx false lv) [NLevel lv (fg_ext g)] (KResultBatch (fg_c g) lv false b) ::
                         (if fg_decoys g
                          then [OAppend (NResult pfx true lv) [NLevel lv (fg_ext g)] (KResultBatch (fg_c g) lv true b)]
                          else []))
               (seq 0 (length (pc_chunks (fg_c g) rows)))
      ++ [OUnlink (NLevel lv (fg_ext g))])
    (combine (fs_res_levels g) levels).

(* LinearConfidence with proteins: the peptide-level file (level 1) is read, the picked proteins are written to the
   protein-level file; that file is then treated like every other level file *)
Definition fs_prot_ops (g : fs_cfg) (cl : fs_coll) : list cop :=
  if fg_proteins g then
    match fc_prot cl with
    | Some (ids, rows) => [OWrite (NLevel (fg_nlevels g) (fg_ext g)) [NLevel 1 (fg_ext g)] (KProteins ids rows)]
    | None => []
    end
  else [].
Definition fs_prot_levels (g : fs_cfg) (cl : fs_coll) : list (list cf_row) :=
  if fg_proteins g then match fc_prot cl with Some (_, rows) => [rows] | None => [] end else [].

Definition fs_coll_ops (g : fs_cfg) (append : bool) (cl : fs_coll) : list cop :=
  let pfx := fc_pfx cl in
  let rows := fc_rows cl in
  let levels := cf_levels cf_row cf_score cf_lkey (fg_c g) (fg_dedup g) (fg_dedup g) (fg_nlevels g) rows in
  fs_result_inits g pfx append ++
  fs_chunk_ops g pfx rows ++
  (if fg_glob g
   then fs_level_ops_glob g pfx ++ [OUnlinkGlob (PChunks pfx)]
   else fs_level_ops g pfx rows ++ map OUnlink (fs_chunk_names g pfx rows)) ++
  fs_prot_ops g cl ++
  fs_result_ops g pfx (levels ++ fs_prot_levels g cl).

(* collections one after the other.  Collections without prefix share their result files: once one of
   them has been written, the following ones append.  A collection with a prefix has result files of its
   own, which are created afresh (unless the caller asked for appending). *)
Fixpoint fs_colls_ops (g : fs_cfg) (seen : bool) (cls : list fs_coll) : list cop :=
  match cls with
  | [] => []
  | cl :: r => fs_coll_ops g (fg_append g || (seen && (fc_pfx cl =? 0)))%bool cl ++
               fs_colls_ops g (seen || (fc_pfx cl =? 0))%bool r
  end.

Definition fs_run_ops (g : fs_cfg) : list cop := fs_colls_ops g false (fg_colls g).

Definition ccat (a b : ccontent) : ccontent := a ++ b.
Definition cfs := fs ccontent.
Definition fs_run (g : fs_cfg) (k : option nat) (s : cfs) : option cfs :=
  match k with
  | None => exec ccontent cfn capply ccat (fs_run_ops g) s
  | Some k => exec_crash ccontent cfn capply ccat k (fs_run_ops g) s
  end.

(* the result files of the run *)
Definition fs_result_names (g : fs_cfg) : list fname :=
  flat_map (fun cl => flat_map (fun lv => NResult (fc_pfx cl) false lv ::
                                          (if fg_decoys g then [NResult (fc_pfx cl) true lv] else []))
                               (fs_res_levels g))
           (fg_colls g).

(* printable trace: kind (0 write, 1 append, 2 unlink, 3 move) and file name *)
Definition fs_op_trace {F} (o : op F) : list (nat * fname) :=
  match o with
  | OWrite n _ _ => [(0%nat, n)]
  | OAppend n _ _ => [(1%nat, n)]
  | OUnlink n => [(2%nat, n)]
  | OMove a b => [(3%nat, a); (3%nat, b)]
  | OWriteGlob n _ _ => [(0%nat, n)]
  | OUnlinkGlob _ => []
  end.
Definition fs_run_trace (g : fs_cfg) : list (nat * fname) := flat_map fs_op_trace (fs_run_ops g).

(* ======================= the CLI's PIN verify step ======================= *)
(* content = the text of a file *)
Inductive pfn : Type := PConvert.
Definition papply (f : pfn) (inputs : list str) : option str :=
  match f, inputs with
  | PConvert, [txt] => match convert_file txt with Ok t => Some t | Err _ => None end
  | _, _ => None
  end.
Definition pcat (a b : str) : str := a ++ b.

(* [append_mode]: the temporary file is opened with mode 'a' (the code before the repair) *)
Definition fs_verify_ops (append_mode : bool) (p : Z) (txt : str) : list (op pfn) :=
  match is_valid txt with
  | Ok false =>
      [ (if append_mode then OAppend (NTmpTsv p) [NPin p] PConvert else OWrite (NTmpTsv p) [NPin p] PConvert);
        OMove (NTmpTsv p) (NPin p) ]
  | _ => []
  end.

Definition fs_verify (append_mode : bool) (p : Z) (s : fs str) : option (fs str) :=
  match fs_get str s (NPin p) with
  | Some txt => exec str pfn papply pcat (fs_verify_ops append_mode p txt) s
  | None => None
  end.
