(* Pepxml.v — model of mokapot/parsers/pepxml.py (C20).  Definitions only.

   Input of the model is the *document tree* that lxml hands to the code:
   files -> msms_run_summary -> spectrum_query -> search_result -> search_hit, each hit with
   its attributes, its modification_info children (each a list of (position, mass-string)),
   its alternative_protein children and its search_score children.  lxml itself is an oracle.
   Numeric attribute values (scan, charge, retention time, masses) are opaque integers for
   the model: the code only moves them around.  An attribute the code converts with
   int()/float() and that is absent is [None] (the code raises TypeError). *)
From Mokaverif Require Import Model.Base.
Open Scope Z_scope.

Definition px_SP : Z := 32.
Definition px_TAB : Z := 9.
Definition px_LB : Z := 91.     (* "[" *)
Definition px_RB : Z := 93.     (* "]" *)

(* ---------- the document tree ---------- *)
Record px_hit := {
  h_peptide : str;                          (* peptide="..." *)
  h_protein : str;                          (* protein="..." (accession + description) *)
  h_calc : option Z;                        (* calc_neutral_pep_mass *)
  h_mc : option Z;                          (* num_missed_cleavages (optional) *)
  h_ntt : option Z;                         (* num_tol_term (optional) *)
  h_nmp : option Z;                         (* num_matched_peptides (optional) *)
  h_modinfos : list (list (Z * str));       (* modification_info*: mod_aminoacid_mass (position, mass) *)
  h_alts : list str;                        (* alternative_protein/@protein, document order *)
  h_scores : list (str * str) }.            (* search_score (name, value), document order *)

Record px_spectrum := {
  s_scan : option Z;                        (* end_scan *)
  s_charge : option Z;                      (* assumed_charge *)
  s_rt : option Z;                          (* retention_time_sec *)
  s_mass : option Z;                        (* precursor_neutral_mass *)
  s_results : list (list px_hit) }.         (* search_result* -> search_hit* *)

Record px_run := {
  r_base : str;                             (* base_name *)
  r_raw : option str;                       (* raw_data *)
  r_spectra : list px_spectrum }.

Record px_file := {
  f_runs : list px_run;                     (* the complete msms_run_summary elements *)
  f_broken : bool }.                        (* the parser hits a syntax error after them *)

(* ---------- one PSM (a row of the data frame) ---------- *)
Record px_psm := {
  p_file : str; p_scan : Z; p_charge : Z; p_rt : Z; p_exp : Z; p_calc : Z;
  p_peptide : str; p_proteins : list str; p_label : bool;
  p_mc : option Z; p_ntt : option Z; p_nmp : option Z;
  p_scores : list (str * str) }.

(* ---------- helpers ---------- *)
(* s.endswith(suf) *)
Definition px_suffixb (suf s : str) : bool := prefixb (rev suf) (rev s).

(* ms_data_file: base_name, with raw_data appended unless it already ends with it *)
Definition px_file_name (base raw : str) : str :=
  if px_suffixb raw base then base else base ++ raw.

(* s.split(" ")[0] *)
Fixpoint px_first_token (s : str) : str :=
  match s with
  | [] => []
  | c :: r => if c =? px_SP then [] else c :: px_first_token r
  end.

(* "\t".join(l) *)
Fixpoint px_join_tab (l : list str) : str :=
  match l with
  | [] => []
  | [x] => x
  | x :: r => x ++ px_TAB :: px_join_tab r
  end.

(* s[:idx] + ins + s[idx:]  (Python slice semantics: negative idx counts from the end, all clamped) *)
Definition px_insert_at (s : str) (idx : Z) (ins : str) : str :=
  let n := norm_bound (length s) idx in
  firstn n s ++ ins ++ skipn n s.

Definition px_tag (mass : str) : str := px_LB :: mass ++ [px_RB].

(* the loop over mod_aminoacid_mass inside one modification_info *)
Fixpoint px_mods_loop (pep : str) (offset : Z) (mods : list (Z * str)) : str :=
  match mods with
  | [] => pep
  | (pos, mass) :: r =>
    px_mods_loop (px_insert_at pep (offset + pos) (px_tag mass))
                 (offset + 2 + Z.of_nat (length mass)) r
  end.

Definition px_insert_mods (pep : str) (mods : list (Z * str)) : str := px_mods_loop pep 0 mods.

(* every modification_info restarts from the current psm["peptide"] with offset 0 *)
Definition px_peptide (pep : str) (infos : list (list (Z * str))) : str :=
  fold_left px_insert_mods infos pep.

(* label: primary protein, then each alternative protein while the label is still False *)
Fixpoint px_label_loop (prefix : str) (label : bool) (alts : list str) : bool :=
  match alts with
  | [] => label
  | a :: r =>
    px_label_loop prefix
      (if label then label else negb (prefixb prefix (px_first_token a))) r
  end.

Definition px_label (prefix : str) (primary : str) (alts : list str) : bool :=
  px_label_loop prefix (negb (prefixb prefix (px_first_token primary))) alts.

(* psm[name] = value on a dict: existing key keeps its place, new key goes last *)
Fixpoint px_dict_set (d : list (str * str)) (k v : str) : list (str * str) :=
  match d with
  | [] => [(k, v)]
  | (k', v') :: r => if str_eqb k k' then (k', v) :: r else (k', v') :: px_dict_set r k v
  end.

Definition px_scores_dict (l : list (str * str)) : list (str * str) :=
  fold_left (fun d kv => px_dict_set d (fst kv) (snd kv)) l [].

(* chain.from_iterable over generators that may raise: first error wins *)
Fixpoint px_collect {A B} (f : A -> result (list B)) (l : list A) : result (list B) :=
  match l with
  | [] => Ok []
  | x :: r =>
    match f x with
    | Err e => Err e
    | Ok a => match px_collect f r with Err e => Err e | Ok b => Ok (a ++ b) end
    end
  end.

Definition px_need (o : option Z) : result Z :=
  match o with Some v => Ok v | None => Err EType end.    (* int(None) / float(None) *)

(* ---------- _parse_psm ---------- *)
Definition px_parse_hit (prefix file : str) (scan charge rt mass : Z) (h : px_hit) : result (list px_psm) :=
  match h_calc h with
  | None => Err EType
  | Some calc =>
    Ok [ {| p_file := file; p_scan := scan; p_charge := charge; p_rt := rt; p_exp := mass;
            p_calc := calc;
            p_peptide := px_peptide (h_peptide h) (h_modinfos h);
            p_proteins := px_first_token (h_protein h) :: map px_first_token (h_alts h);
            p_label := px_label prefix (h_protein h) (h_alts h);
            p_mc := h_mc h; p_ntt := h_ntt h; p_nmp := h_nmp h;
            p_scores := px_scores_dict (h_scores h) |} ]
  end.

(* ---------- _parse_spectrum ---------- *)
Definition px_parse_spectrum (prefix file : str) (s : px_spectrum) : result (list px_psm) :=
  bind (px_need (s_scan s)) (fun scan =>
  bind (px_need (s_charge s)) (fun charge =>
  bind (px_need (s_rt s)) (fun rt =>
  bind (px_need (s_mass s)) (fun mass =>
    px_collect (px_collect (px_parse_hit prefix file scan charge rt mass)) (s_results s))))).

(* ---------- _parse_msms_run ---------- *)
Definition px_parse_run (prefix : str) (r : px_run) : result (list px_psm) :=
  match r_raw r with
  | None => Err EType                       (* str.endswith(None) *)
  | Some raw => px_collect (px_parse_spectrum prefix (px_file_name (r_base r) raw)) (r_spectra r)
  end.

(* ---------- _parse_pepxml ---------- *)
Definition px_parse_file (prefix : str) (f : px_file) : result (list px_psm) :=
  match px_collect (px_parse_run prefix) (f_runs f) with
  | Err e => Err e
  | Ok rows =>
    if f_broken f then Err EValue           (* XMLSyntaxError -> ValueError *)
    else match rows with
         | [] => Err EKey                   (* df["ms_data_file"] on an empty frame *)
         | _ => Ok rows
         end
  end.

(* "Percolator q-Value", "Percolator PEP", "Percolator SVMScore" *)
Definition px_PERC_Q : str := [80;101;114;99;111;108;97;116;111;114;32;113;45;86;97;108;117;101].
Definition px_PERC_PEP : str := [80;101;114;99;111;108;97;116;111;114;32;80;69;80].
Definition px_PERC_SVM : str := [80;101;114;99;111;108;97;116;111;114;32;83;86;77;83;99;111;114;101].
Definition px_illegal (name : str) : bool :=
  str_eqb name px_PERC_Q || str_eqb name px_PERC_PEP || str_eqb name px_PERC_SVM.

Definition px_has_illegal (rows : list px_psm) : bool :=
  existsb (fun p => existsb (fun kv => px_illegal (fst kv)) (p_scores p)) rows.

(* ---------- read_pepxml(files, decoy_prefix, to_df=True): the rows, before the numeric
   feature post-processing (which is an oracle) ---------- *)
Definition px_read (prefix : str) (files : list px_file) : result (list px_psm) :=
  match px_collect (px_parse_file prefix) files with
  | Err e => Err e
  | Ok rows =>
    match files with
    | [] => Err EValue                      (* pd.concat([]) *)
    | _ => if px_has_illegal rows then Err EValue else Ok rows
    end
  end.
