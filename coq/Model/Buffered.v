(* Buffered.v — mokapot.tabular_data.BufferedWriter / TabularDataWriter.from_suffix as a state
   machine over abstract rows (C13).  Definitions only; names prefixed bw_. *)
From Mokaverif Require Import Model.Base.

(* buffer_type: TableType.DataFrame / Dicts / Records.  On abstract rows the three kinds keep the
   buffer in the same way (copy/concat, list +=, np.append); they differ in what append_data
   accepts (typeguard): Records takes exactly one np.record per call. *)
Inductive bw_kind := BwFrame | BwDicts | BwRecords.

Section Bw.
Context {A : Type}.

(* buffer = None before the first append and after a forced flush of a non-empty rest;
   emitted = the batches handed to the inner writer's append_data, oldest first *)
Record bw_state := { bw_buffer : option (list A); bw_emitted : list (list A) }.

Definition bw_init : bw_state := {| bw_buffer := None; bw_emitted := [] |}.

(* while len(self.buffer) >= self.buffer_size:
       self.writer.append_data(buffer[:size]); self.buffer = buffer[size:]          *)
Fixpoint bw_flush (fuel b : nat) (buf : list A) (em : list (list A))
  : result (list A * list (list A)) :=
  match fuel with
  | O => Err EFuel
  | S f => if Nat.leb b (length buf)
           then bw_flush f b (skipn b buf) (em ++ [firstn b buf])
           else Ok (buf, em)
  end.

(* what typeguard lets through append_data for this buffer kind *)
Definition bw_accepts (k : bw_kind) (d : list A) : bool :=
  match k with
  | BwRecords => Nat.eqb (length d) 1
  | _ => true
  end.

(* BufferedWriter.append_data *)
Definition bw_append (b : nat) (k : bw_kind) (s : bw_state) (d : list A) : result bw_state :=
  if bw_accepts k d then
    let buf := match bw_buffer s with None => d | Some x => x ++ d end in
    match bw_flush (S (length buf)) b buf (bw_emitted s) with
    | Err e => Err e
    | Ok (buf', em') => Ok {| bw_buffer := Some buf'; bw_emitted := em' |}
    end
  else Err EType.

(* BufferedWriter.finalize = _write_buffer(force=True) *)
Definition bw_finalize (b : nat) (s : bw_state) : result bw_state :=
  match bw_buffer s with
  | None => Ok s
  | Some buf =>
    match bw_flush (S (length buf)) b buf (bw_emitted s) with
    | Err e => Err e
    | Ok (buf', em') =>
      match buf' with
      | [] => Ok {| bw_buffer := Some []; bw_emitted := em' |}
      | _ :: _ => Ok {| bw_buffer := None; bw_emitted := em' ++ [buf'] |}
      end
    end
  end.

Fixpoint bw_appends (b : nat) (k : bw_kind) (s : bw_state) (ds : list (list A)) : result bw_state :=
  match ds with
  | [] => Ok s
  | d :: r => match bw_append b k s d with Err e => Err e | Ok s' => bw_appends b k s' r end
  end.

(* initialize; append_data(d) for d in ds; finalize  — on a BufferedWriter *)
Definition bw_run (b : nat) (k : bw_kind) (ds : list (list A)) : result bw_state :=
  match bw_appends b k bw_init ds with Err e => Err e | Ok s => bw_finalize b s end.

(* rows still held back *)
Definition bw_pending (s : bw_state) : list A :=
  match bw_buffer s with None => [] | Some x => x end.

(* TabularDataWriter.from_suffix(path, columns, buffer_size=b, buffer_type=k): a BufferedWriter
   only when b > 1, otherwise the file writer itself, whose append_data takes DataFrames only and
   hands every append (also an empty one) straight to the file.
   Result: (batches written to the file in order, number of rows left in a buffer). *)
Definition bw_from_suffix (b : nat) (k : bw_kind) (ds : list (list A)) : result (list (list A) * nat) :=
  if Nat.ltb 1 b then
    match bw_run b k ds with
    | Err e => Err e
    | Ok s => Ok (bw_emitted s, length (bw_pending s))
    end
  else
    match k, ds with
    | BwFrame, _ => Ok (ds, O)
    | _, [] => Ok ([], O)
    | _, _ :: _ => Err EType
    end.

(* reading the finalised file back: the batches one after the other *)
Definition bw_file (batches : list (list A)) : list A := concat batches.
End Bw.

Arguments bw_state : clear implicits.
