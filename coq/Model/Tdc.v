(* Tdc.v — model of mokapot.qvalues.tdc / _fdr2qvalue and dataset._update_labels (C01).
   Definitions only.  Scores are exact integers (the harness scales floats by a power of two,
   which preserves order and ties exactly); q-values are exact rationals. *)
From Mokaverif Require Import Model.Base.
Open Scope Z_scope.

(* ---------- rationals ---------- *)
Definition qmin (a b : Q) : Q := if Qle_bool a b then a else b.

(* FDR estimate from cumulative counts: np.divide((cum_decoys + 1), cum_targets,
   out=ones, where=(cum_targets != 0)) *)
Definition tdc_fdr (ct cd : Z) : Q :=
  if ct =? 0 then 1%Q else ((cd + 1) # (Z.to_pos ct))%Q.

(* ---------- label normalisation (the dtype checks at the top of tdc) ---------- *)
Inductive label_kind := LBool | LInt | LFloat.   (* LFloat: value v stands for the float v/2 *)

Definition all_in_range01 (l : list Z) : bool := forallb (fun v => (0 <=? v) && (v <=? 1)) l.

Definition normalize_labels (k : label_kind) (vals : list Z) : result (list bool) :=
  match k with
  | LBool => Ok (map (fun v => negb (v =? 0)) vals)
  | LInt =>
      match vals with
      | [] => Err EValue                     (* target.max() of an empty array raises ValueError *)
      | _ => if all_in_range01 vals then Ok (map (fun v => v =? 1) vals) else Err EValue
      end
  | LFloat =>
      if forallb (fun v => (v =? 0) || (v =? 2)) vals then Ok (map (fun v => v =? 2) vals)
      else Err EValue
  end.

(* ---------- sort (np.argsort on the keys; any order among ties) ---------- *)
Definition krow := (Z * (bool * nat))%type.       (* key, (target, original index) *)
Definition kkey (x : krow) : Z := fst x.
Definition ktarget (x : krow) : bool := fst (snd x).
Definition kidx (x : krow) : nat := snd (snd x).

Fixpoint tdc_insert (x : krow) (l : list krow) : list krow :=
  match l with
  | [] => [x]
  | y :: t => if kkey x <=? kkey y then x :: l else y :: tdc_insert x t
  end.
Definition tdc_sort (l : list krow) : list krow := fold_right tdc_insert [] l.

(* ---------- cumulative counts forward, running minimum backward ----------
   One structurally recursive pass over the sorted rows (best first):
   going down, (ct, cd) are target.cumsum() / decoy cumsum;
   coming back (worst to best, as _fdr2qvalue walks), a row that is the last of its tie
   group takes min(fdr at that row, q of the next-worse group (or 1)); other rows of the
   group copy the value of their successor. *)
Fixpoint tdc_walk (ct cd : Z) (l : list krow) : list Q :=
  match l with
  | [] => []
  | x :: r =>
      let ct' := if ktarget x then ct + 1 else ct in
      let cd' := if ktarget x then cd else cd + 1 in
      let qr := tdc_walk ct' cd' r in
      match r, qr with
      | y :: _, q' :: _ => if kkey x =? kkey y then q' :: qr
                           else qmin (tdc_fdr ct' cd') q' :: qr
      | _, _ => qmin (tdc_fdr ct' cd') 1%Q :: qr
      end
  end.

Fixpoint index_of (i : nat) (l : list nat) : nat :=
  match l with [] => 0%nat | x :: r => if Nat.eqb x i then 0%nat else S (index_of i r) end.

(* qvals[np.argsort(srt_idx)] *)
Definition tdc_unsort (idxs : list nat) (qs : list Q) (n : nat) : list Q :=
  map (fun i => nth (index_of i idxs) qs 1%Q) (seq 0 n).

Definition tdc_key (desc : bool) (s : Z) : Z := if desc then - s else s.

Definition tdc_rows (desc : bool) (scores : list Z) (targets : list bool) : list krow :=
  combine (map (tdc_key desc) scores) (combine targets (seq 0 (length scores))).

Definition tdc_core (desc : bool) (scores : list Z) (targets : list bool) : list Q :=
  let srt := tdc_sort (tdc_rows desc scores targets) in
  tdc_unsort (map kidx srt) (tdc_walk 0 0 srt) (length scores).

(* the public entry point *)
Definition tdc (desc : bool) (scores : list Z) (k : label_kind) (labels : list Z) : result (list Q) :=
  match normalize_labels k labels with
  | Err e => Err e
  | Ok targets =>
      if negb (Nat.eqb (length scores) (length targets)) then Err EValue
      else Ok (tdc_core desc scores targets)
  end.

(* ---------- training labels (dataset._update_labels) ---------- *)
Definition tdc_label (thr : Q) (q : Q) (t : bool) : Z :=
  if negb t then -1 else if Qle_bool q thr then 1 else 0.

Definition update_labels (desc : bool) (scores : list Z) (targets : list bool) (thr : Q)
  : result (list Z) :=
  if negb (Nat.eqb (length scores) (length targets)) then Err EValue
  else Ok (map (fun qt => tdc_label thr (fst qt) (snd qt))
               (combine (tdc_core desc scores targets) targets)).
