(* Merge.v — model of the two k-way merges of mokapot (C14; reused by C03).  Definitions only.

   (1) mokapot/utils.py  get_next_row / merge_sort : the "row-dict merge".
       State: two dicts keyed by input number (insertion order = input order; re-assigning an
       existing key keeps its place, `del` removes it).  Each step scans the current rows in
       dict order, keeps the FIRST maximum (update only on strict `max_score < score`), emits
       that row, then fetches the next row of that input or deletes the input.  No sortedness
       check.  -> mg_merge / mg_merge_all / mg_merge_sort.

   (2) mokapot/streaming.py  MergedTabularDataReader.get_row_iterator : the "table merger".
       State: three parallel lists (iterators, current rows, current values).  Each step takes
       np.argmax(values) (descending) or np.argmin(values) (ascending) — both return the first
       extremum —, YIELDS that row, then fetches the next row of that input and compares its
       value with the previous value of the same input (ValueError on an inversion), or
       deletes the input from the three lists.  -> mg_chk_loop / mg_merge_stream /
       mg_merge_checked.

   Everything is a Section over an abstract row type with `score : row -> Z`; the model only
   compares scores.  There is no chunking in the model: both merges consume per-input ROW
   iterators, the chunk size of the underlying readers only determines how those iterators are
   fed (independence of it is part of the correspondence check). *)
From Mokaverif Require Import Model.Base.
Open Scope Z_scope.

(* ---------- list surgery used by both merges ---------- *)
Fixpoint mg_remove_nth {A} (i : nat) (l : list A) : list A :=      (* del l[i] *)
  match l, i with
  | [], _ => []
  | _ :: t, O => t
  | x :: t, S j => x :: mg_remove_nth j t
  end.
Fixpoint mg_replace_nth {A} (i : nat) (v : A) (l : list A) : list A :=   (* l[i] = v *)
  match l, i with
  | [], _ => []
  | _ :: t, O => v :: t
  | x :: t, S j => x :: mg_replace_nth j v t
  end.

(* index of the FIRST maximum: running best, updated only on strict improvement
   (get_next_row: `if max_score is None or max_score < score`; np.argmax: first occurrence) *)
Fixpoint mg_argmax_first_aux (best : Z) (bi i : nat) (l : list Z) : nat :=
  match l with
  | [] => bi
  | x :: r => if best <? x then mg_argmax_first_aux x i (S i) r
              else mg_argmax_first_aux best bi (S i) r
  end.
Definition mg_argmax_first (l : list Z) : nat :=
  match l with [] => 0%nat | x :: r => mg_argmax_first_aux x 0%nat 1%nat r end.

(* index of the FIRST minimum (np.argmin) *)
Fixpoint mg_argmin_first_aux (best : Z) (bi i : nat) (l : list Z) : nat :=
  match l with
  | [] => bi
  | x :: r => if x <? best then mg_argmin_first_aux x i (S i) r
              else mg_argmin_first_aux best bi (S i) r
  end.
Definition mg_argmin_first (l : list Z) : nat :=
  match l with [] => 0%nat | x :: r => mg_argmin_first_aux x 0%nat 1%nat r end.

Definition mg_is_nil {A} (l : list A) : bool := match l with [] => true | _ => false end.

Section Merge.
Variable row : Type.
Variable score : row -> Z.

(* one live input: its current row and the rows its iterator will still deliver *)
Definition mg_live := (row * list row)%type.

(* what becomes of input slot i after its current row was taken *)
Definition mg_advance (i : nat) (rest : list row) (st : list mg_live) : list mg_live :=
  match rest with
  | [] => mg_remove_nth i st                       (* StopIteration: delete the input *)
  | r' :: rest' => mg_replace_nth i (r', rest') st (* same slot, next row *)
  end.

(* live inputs in input order; an input without rows contributes nothing *)
Definition mg_init (inputs : list (list row)) : list mg_live :=
  flat_map (fun l => match l with [] => [] | r :: t => [(r, t)] end) inputs.

(* ---------- (1) utils.get_next_row / merge_sort ---------- *)
(* fuel = number of rows still to deliver; running out of it would truncate the output —
   Proofs/MergeP.v shows that this does not happen from the initial fuel (mg_merge_fuel_irrel,
   mg_merge_all_fuel_spec) *)
Fixpoint mg_merge (fuel : nat) (st : list mg_live) : list row :=
  match fuel with
  | O => []
  | S f =>
    match st with
    | [] => []
    | d :: _ =>
      let i := mg_argmax_first (map (fun p => score (fst p)) st) in
      let '(r, rest) := nth i st d in      (* i < length st: MergeP.mg_argmax_first_lt *)
      r :: mg_merge f (mg_advance i rest st)
    end
  end.

(* the general entry point: any inputs (empty ones are skipped), no check *)
Definition mg_merge_all (inputs : list (list row)) : list row :=
  mg_merge (length (concat inputs)) (mg_init inputs).

(* utils.merge_sort as it is: `paths[0]` on an empty list is an IndexError; `next()` on an input
   without rows is a StopIteration inside the generator = RuntimeError; both before any row *)
Definition mg_merge_sort (inputs : list (list row)) : result (list row) :=
  match inputs with
  | [] => Err EIndex
  | _ => if existsb mg_is_nil inputs then Err ERuntime else Ok (mg_merge_all inputs)
  end.

(* ---------- (2) streaming.MergedTabularDataReader ---------- *)
Definition mg_pick (desc : bool) (vals : list Z) : nat :=
  if desc then mg_argmax_first vals else mg_argmin_first vals.

(* the sortedness check on a newly fetched value against the previous value of the same input *)
Definition mg_inversion (desc : bool) (new_value old_value : Z) : bool :=
  if desc then old_value <? new_value else new_value <? old_value.

(* returns the rows yielded so far and how the iteration ended (None = exhausted normally) *)
Fixpoint mg_chk_loop (desc : bool) (fuel : nat) (st : list mg_live) : list row * option err :=
  match st with
  | [] => ([], None)
  | d :: _ =>
    match fuel with
    | O => ([], Some EFuel)
    | S f =>
      let i := mg_pick desc (map (fun p => score (fst p)) st) in
      let '(r, rest) := nth i st d in
      let inv := match rest with
                 | [] => false
                 | r' :: _ => mg_inversion desc (score r') (score r)
                 end in
      if inv then ([r], Some EValue)              (* r was yielded before the check *)
      else let '(out, e) := mg_chk_loop desc f (mg_advance i rest st) in (r :: out, e)
    end
  end.

(* get_row_iterator as a stream: (rows yielded, terminating exception).
   No readers: AssertionError (constructor); a reader without rows: RuntimeError *)
Definition mg_merge_stream (desc : bool) (inputs : list (list row)) : list row * option err :=
  match inputs with
  | [] => ([], Some EAssertion)
  | _ => if existsb mg_is_nil inputs then ([], Some ERuntime)
         else mg_chk_loop desc (length (concat inputs)) (mg_init inputs)
  end.

(* read() / a fully consumed get_chunked_data_iterator / merge_readers: all rows or the exception *)
Definition mg_merge_checked (desc : bool) (inputs : list (list row)) : result (list row) :=
  match mg_merge_stream desc inputs with
  | (out, None) => Ok out
  | (_, Some e) => Err e
  end.

End Merge.

Arguments mg_live : clear implicits.
Arguments mg_advance {row} i rest st.
Arguments mg_init {row} inputs.
Arguments mg_merge {row} score fuel st.
Arguments mg_merge_all {row} score inputs.
Arguments mg_merge_sort {row} score inputs.
Arguments mg_chk_loop {row} score desc fuel st.
Arguments mg_merge_stream {row} score desc inputs.
Arguments mg_merge_checked {row} score desc inputs.

(* ---------- instance used for extraction: row = (exact score image, row id) ---------- *)
Definition mg_zrow := (Z * Z)%type.
Definition mg_zscore (r : mg_zrow) : Z := fst r.
Definition mg_merge_all_z : list (list mg_zrow) -> list mg_zrow := mg_merge_all mg_zscore.
Definition mg_merge_sort_z : list (list mg_zrow) -> result (list mg_zrow) := mg_merge_sort mg_zscore.
Definition mg_merge_stream_z : bool -> list (list mg_zrow) -> list mg_zrow * option err :=
  mg_merge_stream mg_zscore.
Definition mg_merge_checked_z : bool -> list (list mg_zrow) -> result (list mg_zrow) :=
  mg_merge_checked mg_zscore.
