(* MatchDecoy.v — model of mokapot.peptides.match_decoy / residue_sort / _sort (C15, C08).  Definitions only.
   match_decoy(decoys, targets, ignore_mods, rng):
     targets = targets.sort_values()                       md_sort_strs      (since /repo 9b4fbd9)
     targets = targets.sample(frac=1, random_state=rng)    md_shuffle perm   — the ONLY random step; [perm] is the
               .reset_index(drop=True)                                         recorded oracle: the positions (in the
                                                                               sorted list) in the order sample drew them
     targ_comps = residue_sort(targets, ignore_mods)       md_residue_sort   composition key -> peptides, in shuffled order
     for decoy in decoys: decoy_map[decoy] = targ_comps[key(decoy)].pop()   md_loop / md_dict
                          (IndexError -> continue)
   Oracle contract of [perm]: a permutation of 0..n-1, n = number of targets (md_is_perm; Proofs/MatchDecoyP.v shows
   that this is [Permutation perm (seq 0 n)]).  A [perm] that breaks it gives [Err EValue] (never silently used).
   Composition keys as written in the code:
     decoys (always) and targets with ignore_mods=False:  "".join(sorted(s.split("(?=[A-Z])")))    md_key_mods
     targets with ignore_mods=True (the only call in mokapot):  "".join(sorted(s))                    md_key_plain
   For a string of upper-case letters the two agree (MatchDecoyP.md_key_mods_upper); for others they need not
   ("AcB" has the keys "AcB" and "ABc"), and the model keeps them apart as the code does. *)
From Mokaverif Require Import Model.Base.
Open Scope Z_scope.

(* ---------- order and sorting ---------- *)
(* code-point order of Python strings: a <= b *)
Fixpoint md_str_leb (a b : str) : bool :=
  match a, b with
  | [], _ => true
  | _ :: _, [] => false
  | x :: r, y :: s => if x <? y then true else if x =? y then md_str_leb r s else false
  end.

(* insertion sort; any correct sort returns the same list (MatchDecoyP.md_sorted_perm_eq) *)
Fixpoint md_insert {A : Type} (leb : A -> A -> bool) (x : A) (l : list A) : list A :=
  match l with
  | [] => [x]
  | y :: t => if leb x y then x :: l else y :: md_insert leb x t
  end.
Definition md_isort {A : Type} (leb : A -> A -> bool) (l : list A) : list A := fold_right (md_insert leb) [] l.

Definition md_sort_strs (l : list str) : list str := md_isort md_str_leb l.     (* sort_values(); sorted(list of str) *)
Definition md_sort_chars (s : str) : str := md_isort Z.leb s.                   (* sorted(str) *)

(* ---------- composition keys ---------- *)
Definition md_is_upper (c : Z) : bool := (65 <=? c) && (c <=? 90).

(* re.split("(?=[A-Z])", s): a cut before every A..Z (also before the first character: a leading "" piece);
   never an empty list.  [cur] is the current piece, reversed *)
Fixpoint md_split_go (cur : str) (s : str) : list str :=
  match s with
  | [] => [rev cur]
  | c :: r => if md_is_upper c then rev cur :: md_split_go [c] r else md_split_go (c :: cur) r
  end.
Definition md_split_upper (s : str) : list str := md_split_go [] s.

Definition md_key_mods (s : str) : str := concat (md_sort_strs (md_split_upper s)).
Definition md_key_plain (s : str) : str := md_sort_chars s.

Definition md_dkey (d : str) : str := md_key_mods d.
Definition md_tkey (ignore_mods : bool) (t : str) : str := if ignore_mods then md_key_plain t else md_key_mods t.

(* ---------- the shuffle: Series.sample(frac=1) = take(recorded positions) ---------- *)
Definition md_is_perm (perm : list nat) (n : nat) : bool :=
  Nat.eqb (length perm) n && forallb (fun i => existsb (Nat.eqb i) perm) (seq 0 n).

Fixpoint md_take {A : Type} (l : list A) (perm : list nat) : option (list A) :=
  match perm with
  | [] => Some []
  | i :: r =>
      match nth_error l i, md_take l r with
      | Some x, Some xs => Some (x :: xs)
      | _, _ => None
      end
  end.

Definition md_shuffle (perm : list nat) (sorted : list str) : result (list str) :=
  if md_is_perm perm (length sorted) then
    match md_take sorted perm with Some l => Ok l | None => Err EValue end
  else Err EValue.

(* ---------- residue_sort: defaultdict(list), comp_map[key].append(pep) ---------- *)
(* a group's list is kept NEWEST FIRST: append = cons, list.pop() = head *)
Definition md_groups := list (str * list str).

Fixpoint md_add (k p : str) (g : md_groups) : md_groups :=
  match g with
  | [] => [(k, [p])]
  | (k', l) :: r => if str_eqb k k' then (k', p :: l) :: r else (k', l) :: md_add k p r
  end.

Definition md_residue_sort (key : str -> str) (peps : list str) : md_groups :=
  fold_left (fun g p => md_add (key p) p g) peps [].

(* targ_comps[k].pop(): None = IndexError (an empty or — defaultdict — freshly created list) *)
Fixpoint md_pop (k : str) (g : md_groups) : option (str * md_groups) :=
  match g with
  | [] => None
  | (k', l) :: r =>
      if str_eqb k k' then
        match l with [] => None | t :: l' => Some (t, (k', l') :: r) end
      else
        match md_pop k r with None => None | Some (t, r') => Some (t, (k', l) :: r') end
  end.

(* the loop over the decoys, one step per decoy OCCURRENCE: its match, or None (IndexError -> continue) *)
Fixpoint md_loop (g : md_groups) (ds : list str) : list (str * option str) :=
  match ds with
  | [] => []
  | d :: r =>
      match md_pop (md_dkey d) g with
      | None => (d, None) :: md_loop g r
      | Some (t, g') => (d, Some t) :: md_loop g' r
      end
  end.

Definition md_matched (steps : list (str * option str)) : list (str * str) :=
  flat_map (fun s => match snd s with Some t => [(fst s, t)] | None => [] end) steps.

(* decoy_map[decoy] = target: a dict keeps the position of the first assignment and the value of the last *)
Fixpoint md_set (k v : str) (m : list (str * str)) : list (str * str) :=
  match m with
  | [] => [(k, v)]
  | (a, b) :: r => if str_eqb k a then (a, v) :: r else (a, b) :: md_set k v r
  end.
Definition md_dict (l : list (str * str)) : list (str * str) :=
  fold_left (fun m kv => md_set (fst kv) (snd kv) m) l [].

(* ---------- match_decoy ---------- *)
(* what happens to each decoy occurrence *)
Definition md_steps (ignore_mods : bool) (perm : list nat) (decoys targets : list str)
  : result (list (str * option str)) :=
  match md_shuffle perm (md_sort_strs targets) with
  | Err e => Err e
  | Ok sh => Ok (md_loop (md_residue_sort (md_tkey ignore_mods) sh) decoys)
  end.

(* the returned dict as its item list *)
Definition md_match (ignore_mods : bool) (perm : list nat) (decoys targets : list str)
  : result (list (str * str)) :=
  match md_steps ignore_mods perm decoys targets with
  | Err e => Err e
  | Ok st => Ok (md_dict (md_matched st))
  end.
