(* PinTsv.v — model of mokapot/parsers/pin_to_tsv.py (C19).  Definitions only. *)
From Mokaverif Require Import Model.Base.
Open Scope Z_scope.

Definition TAB : Z := 9.
Definition NL : Z := 10.
Definition COLON : Z := 58.

(* str.strip() with no argument, restricted to the characters that can occur in
   the inputs we consider (ASCII): \t \n \v \f \r, FS GS RS US, space *)
Definition is_ws (c : Z) : bool :=
  ((9 <=? c) && (c <=? 13)) || ((28 <=? c) && (c <=? 32)).

Fixpoint lstrip (s : str) : str :=
  match s with
  | [] => []
  | c :: r => if is_ws c then lstrip r else s
  end.
Definition rstrip (s : str) : str := rev (lstrip (rev s)).
Definition strip (s : str) : str := rstrip (lstrip s).

(* str.split(sep) for a one-character separator *)
Fixpoint split_aux (sep : Z) (cur : str) (s : str) : list str :=
  match s with
  | [] => [rev cur]
  | c :: r => if c =? sep then rev cur :: split_aux sep [] r else split_aux sep (c :: cur) r
  end.
Definition split (sep : Z) (s : str) : list str := split_aux sep [] s.

(* sep.join(fields) *)
Fixpoint join (sep : Z) (fs : list str) : str :=
  match fs with
  | [] => []
  | [f] => f
  | f :: r => f ++ sep :: join sep r
  end.

(* iteration over a text stream: lines keep their terminating NL; a final line
   without NL is delivered as is; no line after a final NL *)
Fixpoint lines_aux (cur : str) (s : str) : list str :=
  match s with
  | [] => match cur with [] => [] | _ => [rev cur] end
  | c :: r => if c =? NL then rev (c :: cur) :: lines_aux [] r else lines_aux (c :: cur) r
  end.
Definition lines_of (s : str) : list str := lines_aux [] s.

(* "Proteins", "DefaultDirection" *)
Definition PROTEINS : str := [80;114;111;116;101;105;110;115].
Definition DEFAULTDIRECTION : str :=
  [68;101;102;97;117;108;116;68;105;114;101;99;116;105;111;110].

(* sep_protein.join(fields): the separator is a string (several characters, or none) *)
Fixpoint joins (sep : str) (fs : list str) : str :=
  match fs with
  | [] => []
  | [f] => f
  | f :: r => f ++ sep ++ joins sep r
  end.

(* The functions below take the separators as the Python functions do:
   [sepc] = sep_column (one character), [sepp] = sep_protein (any string). *)

(* parse_pin_header_columns(header, sep_column): (n_col, idx_protein_col) *)
Definition parse_header_sep (sepc : Z) (header : str) : result (nat * nat) :=
  let cols := split sepc (strip header) in
  match index_str PROTEINS cols with
  | None => Err EAssertion
  | Some i => Ok (length cols, i)
  end.

(* convert_line_pin_to_tsv(line, idx_protein_col, n_col, sep_column, sep_protein) *)
Definition convert_line_sep (sepc : Z) (sepp : str) (line : str) (idx ncol : nat) : str :=
  let el := split sepc line in
  let n := length el in
  let n_prot := (Z.of_nat n - Z.of_nat ncol)%Z in
  let e := norm_bound n (Z.of_nat idx + n_prot + 1)%Z in
  let proteins := joins sepp (pyslice el idx e) in
  join sepc (firstn idx el ++ [proteins] ++ skipn e el).

Definition nfields_sep (sepc : Z) (line : str) : nat := length (split sepc line).

(* is_valid_tsv(f_in, sep_column): next(f_in) raises StopIteration on a text without any line;
   line_2 = next(f_in, None): a text that is only its header is valid *)
Definition is_valid_sep (sepc : Z) (txt : str) : result bool :=
  match lines_of txt with
  | [] => Err EStopIteration
  | h :: rest =>
    match rest with
    | [] => Ok true
    | l2 :: more =>
      if prefixb DEFAULTDIRECTION l2 then Ok false
      else if negb (Nat.eqb (nfields_sep sepc l2) (nfields_sep sepc h)) then Ok false
      else Ok (forallb (fun l => Nat.eqb (nfields_sep sepc l) (nfields_sep sepc h)) more)
    end
  end.

(* pin_to_valid_tsv(f_in, f_out, sep_column, sep_protein): everything written to f_out.
   Both call sites of convert_line_pin_to_tsv (second line, remaining lines) pass
   sep_column and sep_protein on.  second_line = next(f_in, None): a text that is only its
   header is converted to the (stripped) header line; no line at all: StopIteration. *)
Definition convert_file_sep (sepc : Z) (sepp : str) (txt : str) : result str :=
  match lines_of txt with
  | [] => Err EStopIteration
  | h :: rest =>
    let header := strip h in
    match parse_header_sep sepc header with
    | Err e => Err e
    | Ok (ncol, idx) =>
      match rest with
      | [] => Ok (header ++ [NL])
      | l2 :: more =>
        let second := strip l2 in
        Ok (header ++ [NL]
            ++ (if prefixb DEFAULTDIRECTION second then []
                else convert_line_sep sepc sepp second idx ncol ++ [NL])
            ++ flat_map (fun l => convert_line_sep sepc sepp (strip l) idx ncol ++ [NL]) more)
      end
    end
  end.

(* the default arguments sep_column="\t", sep_protein=":" (the CLI verify step, Model/Fs.v) *)
Definition parse_header (header : str) : result (nat * nat) := parse_header_sep TAB header.
Definition convert_line (line : str) (idx ncol : nat) : str := convert_line_sep TAB [COLON] line idx ncol.
Definition nfields (line : str) : nat := nfields_sep TAB line.
Definition is_valid (txt : str) : result bool := is_valid_sep TAB txt.
Definition convert_file (txt : str) : result str := convert_file_sep TAB [COLON] txt.

(* ---------- structured PIN documents (used to state the theorems) ---------- *)
Record pinrow := { pre : list str; prots : list str; post : list str }.
Record pin := { hdr_pre : list str; hdr_post : list str;   (* header = hdr_pre ++ [Proteins] ++ hdr_post *)
                dd : option str;                           (* DefaultDirection line, without NL *)
                rows : list pinrow }.

Definition hdr (p : pin) : list str := hdr_pre p ++ [PROTEINS] ++ hdr_post p.
Definition row_line (sepc : Z) (r : pinrow) : str := join sepc (pre r ++ prots r ++ post r).
Definition row_tsv (sepc : Z) (sepp : str) (r : pinrow) : str :=
  join sepc (pre r ++ [joins sepp (prots r)] ++ post r).

(* every line NL-terminated, except that the last one is when [final_nl] is false *)
Fixpoint render_lines (final_nl : bool) (ls : list str) : str :=
  match ls with
  | [] => []
  | [l] => if final_nl then l ++ [NL] else l
  | l :: r => l ++ NL :: render_lines final_nl r
  end.

Definition pin_lines (sepc : Z) (p : pin) : list str :=
  join sepc (hdr p) :: (match dd p with Some d => [d] | None => [] end) ++ map (row_line sepc) (rows p).
Definition tsv_lines (sepc : Z) (sepp : str) (p : pin) : list str :=
  join sepc (hdr p) :: map (row_tsv sepc sepp) (rows p).
Definition render_pin (sepc : Z) (final_nl : bool) (p : pin) : str := render_lines final_nl (pin_lines sepc p).
Definition render_tsv (sepc : Z) (sepp : str) (p : pin) : str := render_lines true (tsv_lines sepc sepp p).

(* the converted document, as a pin again *)
Definition tsv_row (sepp : str) (r : pinrow) : pinrow :=
  {| pre := pre r; prots := [joins sepp (prots r)]; post := post r |}.
Definition tsv_pin (sepp : str) (p : pin) : pin :=
  {| hdr_pre := hdr_pre p; hdr_post := hdr_post p; dd := None; rows := map (tsv_row sepp) (rows p) |}.
