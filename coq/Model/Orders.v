(* Orders.v — order-independence bookkeeping of mokapot.brew (C05, C08): training-row reading in
   chunks by worker threads (parsers.pin.parse_in_chunks) and the sort of fitted models by fold.
   Definitions only. *)
From Mokaverif Require Import Model.Base Model.PinCols Model.Confidence.
Open Scope nat_scope.

Section TrainRead.
Variable row : Type.

(* the table with its row index *)
Definition or_indexed (tbl : list row) : list (nat * row) := combine (seq 0 (length tbl)) tbl.

(* get_rows_from_dataframe: the rows of one chunk whose index is a training index *)
Definition or_select (idx : list nat) (chunk : list (nat * row)) : list (nat * row) :=
  filter (fun p => existsb (Nat.eqb (fst p)) idx) chunk.

(* pd.concat(pieces).reindex(idx): look every training index up in the collected pieces *)
Fixpoint or_lookup (i : nat) (ps : list (nat * row)) : option row :=
  match ps with
  | [] => None
  | (j, r) :: t => if Nat.eqb j i then Some r else or_lookup i t
  end.
Definition or_reindex (idx : list nat) (ps : list (nat * row)) : list (option row) :=
  map (fun i => or_lookup i ps) idx.

(* chunks of c rows, each filtered; [order] is the order in which the worker threads happen to
   append their pieces (any permutation: oracle), applied to the list of pieces *)
Definition or_parse (c : nat) (order : list (list (nat * row)) -> list (list (nat * row)))
           (idx : list nat) (tbl : list row) : list (option row) :=
  or_reindex idx (concat (order (map (or_select idx) (pc_chunks c (or_indexed tbl))))).
End TrainRead.

(* fitted.sort(key=lambda x: x[0].fold): models as (fold, payload) *)
Definition or_sort_models {A} (ms : list (nat * A)) : list (nat * A) :=
  cf_sort_desc (nat * A) (fun m => (- Z.of_nat (fst m))%Z) ms.
