(* Picked.v — model of mokapot.picked_protein.picked_protein, utils.groupby_max and the protein
   q-values of confidence.py (C15).  Definitions only.
   The Proteins container (made by read_fasta, verified as C16) is input data.  Oracles passed as data:
     [dm]    : what peptides.match_decoy returned (decoy peptide -> target peptide; target-only FASTA),
     [order] : the row labels in the order left by DataFrame.sample(frac=1) inside groupby_max.
   picked_protein relabels its trimmed copy of the peptide table 0..n-1 first thing (reset_index(drop=True),
   /repo d0dad84), so a row's label IS its position in the table, whatever labels the caller's table carries
   (permuted, strings, repeated, MultiIndex): pk_annotate numbers the rows with seq 0 n. *)
From Mokaverif Require Import Model.Base Model.Strip Model.Tdc.
Open Scope Z_scope.

Record pk_row := { pk_target : bool; pk_pep : str; pk_score : Z }.

Record pk_proteins := {
  pk_pepmap : list (str * str);      (* peptide_map: unique peptide -> protein group name *)
  pk_shared : list str;              (* keys of shared_peptides *)
  pk_protmap : list (str * str);     (* protein_map: target protein -> decoy protein *)
  pk_has_decoys : bool;
  pk_prefix : str }.                 (* decoy_prefix *)

(* a row of the returned frame *)
Record pk_entry := { pk_group : str; pk_best : str; pk_stripped : str; pk_escore : Z; pk_etarget : bool }.

(* dict.get *)
Fixpoint pk_get (k : str) (m : list (str * str)) : option str :=
  match m with
  | [] => None
  | (a, v) :: r => if str_eqb k a then Some v else pk_get k r
  end.

(* ", ".join(prefix + p for p in g.split(", ")), without its leading prefix *)
Fixpoint pk_prefix_tail (pre : str) (g : str) : str :=
  match g with
  | [] => []
  | c :: r =>
      match r with
      | c2 :: r2 => if (c =? 44) && (c2 =? 32) then c :: c2 :: pre ++ pk_prefix_tail pre r2
                    else c :: pk_prefix_tail pre r
      | [] => [c]
      end
  end.
Definition pk_prefix_members (pre g : str) : str := pre ++ pk_prefix_tail pre g.

(* group_without_decoys: decoy_map[decoy_peptide] = prefixed group of the matched target peptide *)
Fixpoint pk_decoy_map (P : pk_proteins) (dm : list (str * str)) : result (list (str * str)) :=
  match dm with
  | [] => Ok []
  | (d, t) :: r =>
      match pk_get t (pk_pepmap P) with
      | None => Err EKey
      | Some g =>
          match pk_decoy_map P r with
          | Err e => Err e
          | Ok m => Ok ((d, pk_prefix_members (pk_prefix P) g) :: m)
          end
      end
  end.

(* the protein group of a stripped sequence: the unique-peptide map first; with a target-only
   FASTA the decoy map second (for every row, target or not) *)
Definition pk_group_of (P : pk_proteins) (dmap : list (str * str)) (s : str) : option str :=
  match pk_get s (pk_pepmap P) with
  | Some g => Some g
  | None => if pk_has_decoys P then None else pk_get s dmap
  end.

(* group.split(",")[0] *)
Fixpoint pk_first_member (g : str) : str :=
  match g with
  | [] => []
  | c :: r => if c =? 44 then [] else c :: pk_first_member r
  end.

(* the pairing key: protein_map.get(x, x) of the first member *)
Definition pk_pair_key (P : pk_proteins) (g : str) : str :=
  let f := pk_first_member g in
  match pk_get f (pk_protmap P) with Some d => d | None => f end.

(* rows with their label (= position, see above), stripped sequence and group *)
Record pk_arow := { pk_idx : nat; pk_r : pk_row; pk_strip : str; pk_grp : option str }.

Definition pk_annotate (P : pk_proteins) (dmap : list (str * str)) (rows : list pk_row) : list pk_arow :=
  map (fun irs => {| pk_idx := fst irs; pk_r := fst (snd irs); pk_strip := snd (snd irs);
                     pk_grp := pk_group_of P dmap (snd (snd irs)) |})
      (combine (seq 0 (length rows)) (combine rows (st_strip_all (map pk_pep rows)))).

(* "unmatched" as the sanity checks see it: unmatched decoys do not count with a target-only FASTA *)
Definition pk_unmatched (P : pk_proteins) (a : pk_arow) : bool :=
  match pk_grp a with
  | Some _ => false
  | None => if pk_has_decoys P then true else pk_target (pk_r a)
  end.
Definition pk_is_shared (P : pk_proteins) (a : pk_arow) : bool := mem_str (pk_strip a) (pk_shared P).

Definition pk_count (f : pk_arow -> bool) (l : list pk_arow) : Z := Z.of_nat (length (filter f l)).

(* shared_unmatched / len(prots) > 0.10 *)
Definition pk_check_mapped (P : pk_proteins) (ar : list pk_arow) : bool :=
  let su := pk_count (fun a => pk_unmatched P a && negb (pk_is_shared P a)) ar in
  (0 <? su) && (Z.of_nat (length ar) <? 10 * su).

(* num_unmatched_decoys / total_decoys > 0.05 as written: the numerator sums the TARGET column over
   the unmatched non-shared rows; int64 division by zero gives inf (k/0) or nan (0/0) *)
Definition pk_check_decoys (P : pk_proteins) (ar : list pk_arow) : bool :=
  let nud := pk_count (fun a => pk_unmatched P a && negb (pk_is_shared P a) && pk_target (pk_r a)) ar in
  let td := pk_count (fun a => negb (pk_target (pk_r a))) ar in
  if td =? 0 then 0 <? nud else td <? 20 * nud.

(* retained rows with group name and pairing key *)
Record pk_krow := { pk_a : pk_arow; pk_g : str; pk_key : str }.

Definition pk_keyed (P : pk_proteins) (a : pk_arow) : list pk_krow :=
  match pk_grp a with
  | Some g => [{| pk_a := a; pk_g := g; pk_key := pk_pair_key P g |}]
  | None => []
  end.
Definition pk_retained (P : pk_proteins) (ar : list pk_arow) : list pk_krow := flat_map (pk_keyed P) ar.

Definition pk_kscore (k : pk_krow) : Z := pk_score (pk_r (pk_a k)).

(* ---------- utils.groupby_max ---------- *)
(* df.sample(frac=1): the rows in the order of the recorded labels *)
Definition pk_shuffle (order : list nat) (l : list pk_krow) : list pk_krow :=
  flat_map (fun i => filter (fun k => Nat.eqb (pk_idx (pk_a k)) i) l) order.

(* code-point order of Python strings *)
Fixpoint pk_str_cmp (a b : str) : comparison :=
  match a, b with
  | [], [] => Eq
  | [], _ :: _ => Lt
  | _ :: _, [] => Gt
  | x :: r, y :: s => match x ?= y with Eq => pk_str_cmp r s | Lt => Lt | Gt => Gt end
  end.

(* sort_values(["decoy", score]) *)
Definition pk_row_le (x y : pk_krow) : bool :=
  match pk_str_cmp (pk_key x) (pk_key y) with
  | Lt => true
  | Gt => false
  | Eq => pk_kscore x <=? pk_kscore y
  end.
Fixpoint pk_insert (x : pk_krow) (l : list pk_krow) : list pk_krow :=
  match l with
  | [] => [x]
  | y :: t => if pk_row_le x y then x :: l else y :: pk_insert x t
  end.
Definition pk_sort (l : list pk_krow) : list pk_krow := fold_right pk_insert [] l.

(* drop_duplicates(["decoy"], keep="last") *)
Fixpoint pk_keep_last (l : list pk_krow) : list pk_krow :=
  match l with
  | [] => []
  | x :: r => if existsb (fun y => str_eqb (pk_key y) (pk_key x)) r then pk_keep_last r
              else x :: pk_keep_last r
  end.

Definition pk_groupby_max (order : list nat) (l : list pk_krow) : list pk_krow :=
  pk_keep_last (pk_sort (pk_shuffle order l)).

Definition pk_to_entry (k : pk_krow) : pk_entry :=
  {| pk_group := pk_g k; pk_best := pk_pep (pk_r (pk_a k)); pk_stripped := pk_strip (pk_a k);
     pk_escore := pk_kscore k; pk_etarget := pk_target (pk_r (pk_a k)) |}.

(* ---------- picked_protein ---------- *)
Definition pk_picked (P : pk_proteins) (dm : list (str * str)) (order : list nat) (rows : list pk_row)
  : result (list pk_entry) :=
  match (if pk_has_decoys P then Ok [] else pk_decoy_map P dm) with
  | Err e => Err e
  | Ok dmap =>
      let ar := pk_annotate P dmap rows in
      if pk_check_mapped P ar then Err EValue
      else if pk_has_decoys P && pk_check_decoys P ar then Err EValue
      else
        match pk_retained P ar with
        | [] => Err EKey          (* .str.split(",", expand=True)[0] on an empty frame *)
        | kept => Ok (map pk_to_entry (pk_groupby_max order kept))
        end
  end.

(* ---------- protein q-values (confidence.py: tdc on the protein table, high scores first) ---------- *)
Definition pk_protein_q (es : list pk_entry) : list Q :=
  tdc_core true (map pk_escore es) (map pk_etarget es).

Definition pk_picked_q (P : pk_proteins) (dm : list (str * str)) (order : list nat) (rows : list pk_row)
  : result (list (pk_entry * Q)) :=
  match pk_picked P dm order rows with
  | Err e => Err e
  | Ok es => Ok (combine es (pk_protein_q es))
  end.
