(* Brew.v — model of the cross-validation bookkeeping of mokapot.brew (C02, C05, C11):
   OnDiskPsmDataset._split, the row -> fold-model map, make_train_sets, _predict.
   Definitions only. *)
From Mokaverif Require Import Model.Base Model.Tdc Model.Calibrate Model.PinCols.
Open Scope nat_scope.

(* ---------- _split ---------- *)
(* np.argsort of the spectrum hashes (order inside a tie group is irrelevant, see proofs) *)
Fixpoint bw_insert (x : Z * nat) (l : list (Z * nat)) : list (Z * nat) :=
  match l with
  | [] => [x]
  | y :: t => if (fst x <=? fst y)%Z then x :: l else y :: bw_insert x t
  end.
Definition bw_argsort (keys : list Z) : list (Z * nat) :=
  fold_right bw_insert [] (combine keys (seq 0 (length keys))).

(* np.unique(sorted, return_index=True)[1]: first position of every distinct hash *)
Fixpoint bw_starts_aux (prev : Z) (i : nat) (l : list Z) : list nat :=
  match l with
  | [] => []
  | x :: r => (if (x =? prev)%Z then [] else [i]) ++ bw_starts_aux x (S i) r
  end.
Definition bw_starts (ks : list Z) : list nat :=
  match ks with [] => [] | x :: r => 0 :: bw_starts_aux x 1 r end.

(* nominal split points: start + fold_size + (1 if i < remainder) for i in range(folds - 1) *)
Fixpoint bw_points (fold_size rem i start todo : nat) : list nat :=
  match todo with
  | O => []
  | S t => let e := start + fold_size + (if i <? rem then 1 else 0) in
           e :: bw_points fold_size rem (S i) e t
  end.

(* idx_start_unique[np.searchsorted(idx_start_unique, p)]: smallest group start >= p;
   None = IndexError *)
Fixpoint bw_round_up (ss : list nat) (p : nat) : option nat :=
  match ss with
  | [] => None
  | s :: r => if p <=? s then Some s else bw_round_up r p
  end.

Fixpoint bw_all_some {A} (l : list (option A)) : option (list A) :=
  match l with
  | [] => Some []
  | None :: _ => None
  | Some x :: r => match bw_all_some r with None => None | Some t => Some (x :: t) end
  end.

(* np.split(arr, cut) *)
Fixpoint bw_np_split {A} (l : list A) (prev : nat) (pts : list nat) : list (list A) :=
  match pts with
  | [] => [skipn prev l]
  | p :: r => firstn (p - prev) (skipn prev l) :: bw_np_split l p r
  end.

Definition bw_split (keys : list Z) (k : nat) : result (list (list nat)) :=
  match k with
  | O => Err EValue
  | _ =>
    let srt := bw_argsort keys in
    let n := length srt in
    let pts := bw_points (n / k) (n mod k) 0 0 (k - 1) in
    match bw_all_some (map (bw_round_up (bw_starts (map fst srt))) pts) with
    | None => Err EIndex
    | Some cut => Ok (bw_np_split (map snd srt) 0 cut)
    end
  end.

(* ---------- row -> model index ----------
   np.concatenate([[i]*len(fold_i)])[np.argsort(flatten(folds))] *)
Fixpoint bw_tag (i : nat) (folds : list (list nat)) : list nat :=
  match folds with
  | [] => []
  | f :: r => repeat i (length f) ++ bw_tag (S i) r
  end.
Definition bw_fold_of (folds : list (list nat)) (n : nat) : list nat :=
  map (fun r => nth (index_of r (concat folds)) (bw_tag 0 folds) 0) (seq 0 n).

(* ---------- make_train_sets ---------- *)
Definition bw_mem (x : nat) (l : list nat) : bool := existsb (Nat.eqb x) l.
(* set(range(0, ds)) - set(idx), as an ascending list (the code's order is set-iteration order) *)
Definition bw_complement (n : nat) (fold : list nat) : list nat :=
  filter (fun r => negb (bw_mem r fold)) (seq 0 n).
Definition bw_train_sets (folds : list (list nat)) (n : nat) : list (list nat) :=
  map (bw_complement n) folds.

Definition bw_quotas (cap nfiles : nat) : list nat :=
  let q := cap / nfiles in
  repeat q (nfiles - 1) ++ [q + (cap - q * nfiles)].

(* per fold: which files are sub-sampled, and to how many rows.  rng.choice(replace=False)
   raises ValueError when asked for more rows than there are *)
Fixpoint bw_plan_files (total : nat) (qs sizes : list nat) : result (list (option nat)) :=
  match qs, sizes with
  | q :: qr, s :: sr =>
      match bw_plan_files total qr sr with
      | Err e => Err e
      | Ok rest =>
          if q <? total then (if q <=? s then Ok (Some q :: rest) else Err EValue)
          else Ok (None :: rest)
      end
  | _, _ => Ok []
  end.
Definition bw_subset_plan (cap : option nat) (train_sizes : list nat) : result (list (option nat)) :=
  match cap with
  | None => Ok (map (fun _ => None) train_sizes)
  | Some c =>
      let qs := bw_quotas c (length train_sizes) in
      let total := list_sum train_sizes in
      if total <=? list_sum qs then Ok (map (fun _ => None) train_sizes)
      else bw_plan_files total qs train_sizes
  end.

(* ---------- _predict ---------- *)
(* utils.create_chunks / chunked reading: same function as in Model/PinCols.v *)
Definition bw_chunks {A} (c : nat) (l : list A) : list (list A) := pc_chunks c l.

(* a row of the table during prediction: original index, fold (= model index), target flag *)
Definition bw_prow := (nat * (nat * bool))%type.
Definition bw_idx (x : bw_prow) : nat := fst x.
Definition bw_fold (x : bw_prow) : nat := fst (snd x).
Definition bw_target (x : bw_prow) : bool := snd (snd x).

(* first RuntimeError wins (it is raised); a non-finite fold does not stop the loop *)
Fixpoint bw_collect (l : list (result (list Q))) : result (list (list Q)) :=
  match l with
  | [] => Ok []
  | Err ERuntime :: _ => Err ERuntime
  | Err e :: r => match bw_collect r with Err ERuntime => Err ERuntime | _ => Err e end
  | Ok x :: r => match bw_collect r with Ok t => Ok (x :: t) | Err e => Err e end
  end.

(* raw f r = decision value of fold model f on row r *)
Definition bw_predict (do_cal : bool) (c nfolds : nat) (thr : Q) (fold_of : list nat) (targets : list bool)
           (raw : list (list Z)) : result (list Q) :=
  let n := length fold_of in
  let rows : list bw_prow := combine (seq 0 n) (combine fold_of targets) in
  if Nat.eqb c 0 then Err EValue else
  let chs := bw_chunks c rows in
  let per_fold f := flat_map (filter (fun x => Nat.eqb (bw_fold x) f)) chs in
  let score f (x : bw_prow) := nth (bw_idx x) (nth f raw []) 0%Z in
  (* estimators without decision_function are not calibrated *)
  let cal f := if do_cal then calibrate (map (score f) (per_fold f)) (map bw_target (per_fold f)) thr
               else Ok (map (fun x => inject_Z (score f x)) (per_fold f)) in
  match bw_collect (map cal (seq 0 nfolds)) with
  | Err e => Err e
  | Ok cals =>
      let orig := flat_map (fun f => map bw_idx (per_fold f)) (seq 0 nfolds) in
      Ok (map (fun r => nth (index_of r orig) (concat cals) 0%Q) (seq 0 n))
  end.

(* the whole scoring path of one file: split, route, predict, calibrate *)
Definition bw_brew_scores (do_cal : bool) (c k : nat) (thr : Q) (keys : list Z) (targets : list bool)
           (raw : list (list Z)) : result (list Q) :=
  match bw_split keys k with
  | Err e => Err e
  | Ok folds => bw_predict do_cal c k thr (bw_fold_of folds (length keys)) targets raw
  end.
