(* Brew.v — model of the cross-validation bookkeeping of mokapot.brew (C02, C05, C11):
   OnDiskPsmDataset._split, the row -> fold-model map, make_train_sets, _predict, and (R2.22) the
   ensemble=True branch: _predict_with_ensemble and what brew returns in that mode (C04, C05, C07, C08).
   Definitions only. *)
From Mokaverif Require Import Model.Base Model.Tdc Model.Calibrate Model.PinCols Model.Orders Model.BrewDecision.
Open Scope nat_scope.

(* ---------- _split ---------- *)
(* np.argsort of the spectrum hashes (order inside a tie group is irrelevant, see proofs) *)
Fixpoint bw_insert (x : Z * nat) (l : list (Z * nat)) : list (Z * nat) :=
  match l with
  | [] => [x]
  | y :: t => if (fst x <=? fst y)%Z then x :: l else y :: bw_insert x t
  end.
Definition bw_argsort (keys : list Z) : list (Z * nat) :=
  fold_right bw_insert [] (combine keys (seq 0 (length keys))).

(* np.unique(sorted, return_index=True)[1]: first position of every distinct hash *)
Fixpoint bw_starts_aux (prev : Z) (i : nat) (l : list Z) : list nat :=
  match l with
  | [] => []
  | x :: r => (if (x =? prev)%Z then [] else [i]) ++ bw_starts_aux x (S i) r
  end.
Definition bw_starts (ks : list Z) : list nat :=
  match ks with [] => [] | x :: r => 0 :: bw_starts_aux x 1 r end.

(* nominal split points: start + fold_size + (1 if i < remainder) for i in range(folds - 1) *)
Fixpoint bw_points (fold_size rem i start todo : nat) : list nat :=
  match todo with
  | O => []
  | S t => let e := start + fold_size + (if i <? rem then 1 else 0) in
           e :: bw_points fold_size rem (S i) e t
  end.

(* idx_start_unique[np.searchsorted(idx_start_unique, p)]: smallest group start >= p;
   None = IndexError *)
Fixpoint bw_round_up (ss : list nat) (p : nat) : option nat :=
  match ss with
  | [] => None
  | s :: r => if p <=? s then Some s else bw_round_up r p
  end.

Fixpoint bw_all_some {A} (l : list (option A)) : option (list A) :=
  match l with
  | [] => Some []
  | None :: _ => None
  | Some x :: r => match bw_all_some r with None => None | Some t => Some (x :: t) end
  end.

(* np.split(arr, cut) *)
Fixpoint bw_np_split {A} (l : list A) (prev : nat) (pts : list nat) : list (list A) :=
  match pts with
  | [] => [skipn prev l]
  | p :: r => firstn (p - prev) (skipn prev l) :: bw_np_split l p r
  end.

Definition bw_split (keys : list Z) (k : nat) : result (list (list nat)) :=
  match k with
  | O => Err EValue
  | _ =>
    let srt := bw_argsort keys in
    let n := length srt in
    let pts := bw_points (n / k) (n mod k) 0 0 (k - 1) in
    match bw_all_some (map (bw_round_up (bw_starts (map fst srt))) pts) with
    | None => Err EIndex
    | Some cut => Ok (bw_np_split (map snd srt) 0 cut)
    end
  end.

(* ---------- row -> model index ----------
   np.concatenate([[i]*len(fold_i)])[np.argsort(flatten(folds))] *)
Fixpoint bw_tag (i : nat) (folds : list (list nat)) : list nat :=
  match folds with
  | [] => []
  | f :: r => repeat i (length f) ++ bw_tag (S i) r
  end.
Definition bw_fold_of (folds : list (list nat)) (n : nat) : list nat :=
  map (fun r => nth (index_of r (concat folds)) (bw_tag 0 folds) 0) (seq 0 n).

(* ---------- make_train_sets ---------- *)
Definition bw_mem (x : nat) (l : list nat) : bool := existsb (Nat.eqb x) l.
(* set(range(0, ds)) - set(idx), as an ascending list (the code's order is set-iteration order) *)
Definition bw_complement (n : nat) (fold : list nat) : list nat :=
  filter (fun r => negb (bw_mem r fold)) (seq 0 n).
Definition bw_train_sets (folds : list (list nat)) (n : nat) : list (list nat) :=
  map (bw_complement n) folds.

Definition bw_quotas (cap nfiles : nat) : list nat :=
  let q := cap / nfiles in
  repeat q (nfiles - 1) ++ [q + (cap - q * nfiles)].

(* per fold: which files are sub-sampled, and to how many rows.  rng.choice(replace=False)
   raises ValueError when asked for more rows than there are *)
Fixpoint bw_plan_files (total : nat) (qs sizes : list nat) : result (list (option nat)) :=
  match qs, sizes with
  | q :: qr, s :: sr =>
      match bw_plan_files total qr sr with
      | Err e => Err e
      | Ok rest =>
          if q <? total then (if q <=? s then Ok (Some q :: rest) else Err EValue)
          else Ok (None :: rest)
      end
  | _, _ => Ok []
  end.
Definition bw_subset_plan (cap : option nat) (train_sizes : list nat) : result (list (option nat)) :=
  match cap with
  | None => Ok (map (fun _ => None) train_sizes)
  | Some c =>
      let qs := bw_quotas c (length train_sizes) in
      let total := list_sum train_sizes in
      if total <=? list_sum qs then Ok (map (fun _ => None) train_sizes)
      else bw_plan_files total qs train_sizes
  end.

(* ---------- _predict ---------- *)
(* utils.create_chunks / chunked reading: same function as in Model/PinCols.v *)
Definition bw_chunks {A} (c : nat) (l : list A) : list (list A) := pc_chunks c l.

(* a row of the table during prediction: original index, fold (= model index), target flag *)
Definition bw_prow := (nat * (nat * bool))%type.
Definition bw_idx (x : bw_prow) : nat := fst x.
Definition bw_fold (x : bw_prow) : nat := fst (snd x).
Definition bw_target (x : bw_prow) : bool := snd (snd x).

(* first RuntimeError wins (it is raised); a non-finite fold does not stop the loop *)
Fixpoint bw_collect (l : list (result (list Q))) : result (list (list Q)) :=
  match l with
  | [] => Ok []
  | Err ERuntime :: _ => Err ERuntime
  | Err e :: r => match bw_collect r with Err ERuntime => Err ERuntime | _ => Err e end
  | Ok x :: r => match bw_collect r with Ok t => Ok (x :: t) | Err e => Err e end
  end.

(* raw f r = decision value of fold model f on row r *)
Definition bw_predict (do_cal : bool) (c nfolds : nat) (thr : Q) (fold_of : list nat) (targets : list bool)
           (raw : list (list Z)) : result (list Q) :=
  let n := length fold_of in
  let rows : list bw_prow := combine (seq 0 n) (combine fold_of targets) in
  if Nat.eqb c 0 then Err EValue else
  let chs := bw_chunks c rows in
  let per_fold f := flat_map (filter (fun x => Nat.eqb (bw_fold x) f)) chs in
  let score f (x : bw_prow) := nth (bw_idx x) (nth f raw []) 0%Z in
  (* estimators without decision_function are not calibrated *)
  let cal f := if do_cal then calibrate (map (score f) (per_fold f)) (map bw_target (per_fold f)) thr
               else Ok (map (fun x => inject_Z (score f x)) (per_fold f)) in
  match bw_collect (map cal (seq 0 nfolds)) with
  | Err e => Err e
  | Ok cals =>
      let orig := flat_map (fun f => map bw_idx (per_fold f)) (seq 0 nfolds) in
      Ok (map (fun r => nth (index_of r orig) (concat cals) 0%Q) (seq 0 n))
  end.

(* the whole scoring path of one file: split, route, predict, calibrate *)
Definition bw_brew_scores (do_cal : bool) (c k : nat) (thr : Q) (keys : list Z) (targets : list bool)
           (raw : list (list Z)) : result (list Q) :=
  match bw_split keys k with
  | Err e => Err e
  | Ok folds => bw_predict do_cal c k thr (bw_fold_of folds (length keys)) targets raw
  end.

(* ====================================================================================
   brew(ensemble=True)                                                        (R2.22)
   ==================================================================================== *)
(* ---------- _predict_with_ensemble(psms, models, max_workers) ----------
   raws : one list per model IN THE ORDER OF THE LIST `models` handed in; (nth m raws)[r] is the RAW
   decision value (Model.predict, no calibration) of that model on row r of the file.

   Contract of the numbers (transparent estimators of the harness): every decision value is an integer
   (or a dyadic rational; all values are then scaled by one common power of two), and k * max|value|
   stays below 2^53.  np.mean(scores, axis=0) turns the list of k float64 arrays into a (k, n) array,
   adds its rows in list order (np.add.reduce along axis 0: row 0, += row 1, ...) in float64 and divides
   by k: under the contract every partial sum is exact, so the returned float is the ONE correctly
   rounded quotient fl(exact sum / k).  The model returns the exact rational sum / k; the harness
   compares float(sum / k) bit for bit.  (Proofs/BrewEnsP.v: fl53_exact, ens_float_sum_exact.) *)

(* the predictions of one model: mod.predict(chunk) for every prediction chunk of the file, appended to
   that model's list, then np.hstack *)
Definition bw_ens_hstack (c n : nat) (raw_m : list Z) : list Z :=
  flat_map (map (fun r => nth r raw_m 0%Z)) (bw_chunks c (seq 0 n)).

(* np.add.reduce(axis=0) at row position i: starts from the first model, adds the others in list order *)
Definition bw_ens_sum_at (cols : list (list Z)) (i : nat) : Z :=
  match cols with
  | [] => 0%Z
  | c0 :: rest => fold_left Z.add (map (fun col => nth i col 0%Z) rest) (nth i c0 0%Z)
  end.

(* the column sums; errors: chunk size 0; no model: np.mean of an empty list is nan (non-finite: EType,
   as in Calibrate.v); a file delivering no chunk: np.hstack([]) raises ValueError; rows of different
   length cannot be stacked (ValueError; unreachable through brew: every model scores every chunk) *)
Definition bw_ens_sums (c n : nat) (raws : list (list Z)) : result (list Z) :=
  if Nat.eqb c 0 then Err EValue else
  match raws with
  | [] => Err EType
  | _ =>
    match bw_chunks c (seq 0 n) with
    | [] => Err EValue
    | _ => if forallb (fun rm => Nat.eqb (length rm) n) raws
           then Ok (map (bw_ens_sum_at (map (bw_ens_hstack c n) raws)) (seq 0 n))
           else Err EValue
    end
  end.

Definition bw_ens_mean (k : nat) (s : Z) : Q := (inject_Z s / inject_Z (Z.of_nat k))%Q.

Definition bw_predict_ens (c n : nat) (raws : list (list Z)) : result (list Q) :=
  match bw_ens_sums c n raws with
  | Err e => Err e
  | Ok sums => Ok (map (bw_ens_mean (length raws)) sums)
  end.

(* ---------- brew(..., ensemble=True), scores of one collection ----------
   fitted: the fitted models as (Model.fold, decision values on every row), in the order in which they
   were delivered (worker threads, or the list of trained models the caller passed).  _split is still
   called (its errors surface although the folds are not used for prediction);
   fitted.sort(key=fold); EVERY row is scored by ALL models; no calibration *)
Definition bw_brew_scores_ens (c k : nat) (keys : list Z) (fitted : list (nat * list Z)) : result (list Q) :=
  match bw_split keys k with
  | Err e => Err e
  | Ok _ => bw_predict_ens c (length keys) (map snd (or_sort_models fitted))
  end.

(* the reset branch (a pre-trained model that got worse by re-training; taken whatever `ensemble` says):
   calibrate_scores(_predict_with_ensemble(psms, [model]), test_fdr) — the ensemble of the ONE original
   model, calibrated over the whole collection.  The mean of one model is its raw score. *)
Definition bw_reset_scores (c : nat) (thr : Q) (targets : list bool) (raw : list Z) : result (list Q) :=
  match bw_ens_sums c (length targets) [raw] with
  | Err e => Err e
  | Ok sums => calibrate sums targets thr
  end.

(* ---------- brew(..., ensemble=True): models, scores, descs ----------
   a fitted fold model as brew sees it *)
Record bw_fitted : Type := {
  bf_fold : nat;                 (* Model.fold, 1-based *)
  bf_trained : bool;             (* is_trained *)
  bf_feat_pass : nat;            (* targets the best feature accepted on the training rows *)
  bf_override : bool;
  bf_best : nat;                 (* best feature: index into the feature columns *)
  bf_desc : bool;                (* its direction *)
  bf_raw : list (list Z)         (* per collection: decision value on every row *)
}.
(* a collection: spectrum hashes, target flags, feature columns *)
Record bw_coll : Type := { bc_keys : list Z; bc_targets : list bool; bc_feats : list (list Z) }.

Fixpoint bw_all_ok {A} (l : list (result A)) : result (list A) :=
  match l with
  | [] => Ok []
  | Err e :: _ => Err e
  | Ok x :: r => match bw_all_ok r with Ok t => Ok (x :: t) | Err e => Err e end
  end.

Definition bw_sort_fitted (fitted : list bw_fitted) : list bw_fitted :=
  map snd (or_sort_models (map (fun m => (bf_fold m, m)) fitted)).

(* the score SUMS of every collection under the sorted models (zeros when some model is untrained:
   scores = [np.zeros(x) for x in data_size]) *)
Definition bw_brew_ens_sums (c k : nat) (models : list bw_fitted) (files : list bw_coll) : result (list (list Z)) :=
  match bw_all_ok (map (fun fl => bw_split (bc_keys fl) k) files) with
  | Err e => Err e
  | Ok _ =>
    if forallb bf_trained models
    then bw_all_ok (map (fun jf => bw_ens_sums c (length (bc_keys (snd jf)))
                                      (map (fun m => nth (fst jf) (bf_raw m) []) models))
                        (combine (seq 0 (length files)) files))
    else Ok (map (fun fl => repeat 0%Z (length (bc_keys fl))) files)
  end.

(* the comparison with the best feature: update_labels ranks by score, and the mean sum / k (k >= 1)
   ranks exactly as the sum does (Proofs/BrewEnsP.v: ens_mean_order), so the accepted targets are counted
   on the integer sums; the decision itself is the SAME function bd_decide as in the per-fold mode *)
Definition bw_brew_ens_choice (thr : Q) (models : list bw_fitted) (files : list bw_coll) (sums : list (list Z))
  : result (nat * option nat) :=
  match bd_pred_total thr (combine sums (map bc_targets files)) with
  | Err e => Err e
  | Ok pt => Ok (pt, bd_decide (map (fun m => (bf_feat_pass m, bf_override m)) models) pt)
  end.

(* brew returns (psms, models, scores, descs): the folds of the returned models, the scores and the descs *)
Definition bw_brew_ens (c k : nat) (thr : Q) (fitted : list bw_fitted) (files : list bw_coll)
  : result (list nat * (list (list Q) * list bool)) :=
  let models := bw_sort_fitted fitted in
  match bw_brew_ens_sums c k models files with
  | Err e => Err e
  | Ok sums =>
    match bw_brew_ens_choice thr models files sums with
    | Err e => Err e
    | Ok (_, None) =>
        Ok (map bf_fold models,
            (map (map (bw_ens_mean (if forallb bf_trained models then length models else 1))) sums,
             map (fun _ => true) files))
    | Ok (_, Some i) =>
        match nth_error models i with
        | None => Err EIndex                      (* unreachable: bd_decide returns an index of the list *)
        | Some m =>
            (* _psms.read_data(columns=[feat]).values for every collection; KeyError when it is missing *)
            match bw_all_ok (map (fun fl => match nth_error (bc_feats fl) (bf_best m) with
                                            | Some col => Ok (map inject_Z col) | None => Err EKey end) files) with
            | Err e => Err e
            | Ok cols => Ok (map bf_fold models, (cols, map (fun _ => bf_desc m) files))
            end
        end
    end
  end.
