(* Grouping.v — model of mokapot/parsers/fasta.py: _group_proteins (515-563) and the part of
   read_fasta (79-187) that builds proteins / peptides, pairs targets with decoys and splits
   unique from shared peptides (C16).  Definitions only.

   Proteins are values of an arbitrary type P with a boolean equality (the extracted entry
   points use P = str, the real protein names); peptides are nat ids.  A group name is the
   list of its member proteins in the order in which ", ".join built the string
   ("A, B, C" = [A;B;C]); a protein that is not (yet) grouped is the one-element name.
   Python sets / dicts are lists without repetition in insertion order; the iteration order
   of the set [matches] is supplied by the oracle [pi] (indexed by the protein being
   processed, so that it may differ from step to step). *)
From Mokaverif Require Import Model.Base.

Section GrGrouping.
Variable P : Type.
Variable peqb : P -> P -> bool.

Fixpoint gr_name_eqb (a b : list P) : bool :=
  match a, b with
  | [], [] => true
  | x :: r, y :: s => peqb x y && gr_name_eqb r s
  | _, _ => false
  end.

Definition gr_memn (x : list P) (l : list (list P)) : bool := existsb (gr_name_eqb x) l.
Definition gr_memp (x : nat) (l : list nat) : bool := existsb (Nat.eqb x) l.

(* set(peps): first occurrences *)
Fixpoint gr_dedup (l : list nat) : list nat :=
  match l with
  | [] => []
  | x :: r => if gr_memp x r then gr_dedup r else x :: gr_dedup r
  end.

(* ---- peptides : dict pep -> set of names (a defaultdict(set)) ---- *)
Definition gr_pmap := list (nat * list (list P)).

Fixpoint gr_lookup (pep : nat) (pm : gr_pmap) : list (list P) :=
  match pm with
  | [] => []
  | (k, v) :: r => if Nat.eqb pep k then v else gr_lookup pep r
  end.

Fixpoint gr_update (pep : nat) (v : list (list P)) (pm : gr_pmap) : gr_pmap :=
  match pm with
  | [] => [(pep, v)]
  | (k, w) :: r => if Nat.eqb pep k then (k, v) :: r else (k, w) :: gr_update pep v r
  end.

Definition gr_set_add (x : list P) (s : list (list P)) : list (list P) :=
  if gr_memn x s then s else s ++ [x].
Definition gr_set_remove (x : list P) (s : list (list P)) : list (list P) :=
  filter (fun y => negb (gr_name_eqb x y)) s.

(* ---- grouped : dict name -> peptide set ---- *)
Definition gr_groups := list (list P * list nat).

Definition gr_haskey (m : list P) (g : gr_groups) : bool :=
  existsb (fun e => gr_name_eqb m (fst e)) g.

(* grouped.pop(m) *)
Fixpoint gr_pop (m : list P) (g : gr_groups) : option (list nat * gr_groups) :=
  match g with
  | [] => None
  | (k, v) :: r =>
    if gr_name_eqb m k then Some (v, r)
    else match gr_pop m r with
         | Some (w, r') => Some (w, (k, v) :: r')
         | None => None
         end
  end.

(* grouped[k] = v *)
Fixpoint gr_dict_set (k : list P) (v : list nat) (g : gr_groups) : gr_groups :=
  match g with
  | [] => [(k, v)]
  | (k', w) :: r => if gr_name_eqb k k' then (k', v) :: r else (k', w) :: gr_dict_set k v r
  end.

(* for pep in grouped[new]: peptides[pep].remove(match); discard prot; add new *)
Fixpoint gr_update_peps (m : list P) (p : P) (nw : list P) (gs : list nat) (pm : gr_pmap)
  : result gr_pmap :=
  match gs with
  | [] => Ok pm
  | pep :: r =>
    let s := gr_lookup pep pm in
    if gr_memn m s
    then gr_update_peps m p nw r
           (gr_update pep (gr_set_add nw (gr_set_remove [p] (gr_set_remove m s))) pm)
    else Err EKey
  end.

(* one iteration of "for match in matches" *)
Definition gr_rename (p : P) (st : gr_groups * gr_pmap) (m : list P)
  : result (gr_groups * gr_pmap) :=
  match gr_pop m (fst st) with
  | None => Err EKey
  | Some (gs, g') =>
    let nw := m ++ [p] in
    match gr_update_peps m p nw gs (snd st) with
    | Err e => Err e
    | Ok pm' => Ok (gr_dict_set nw gs g', pm')
    end
  end.

Fixpoint gr_renames (p : P) (st : gr_groups * gr_pmap) (ms : list (list P))
  : result (gr_groups * gr_pmap) :=
  match ms with
  | [] => Ok st
  | m :: r => match gr_rename p st m with
              | Err e => Err e
              | Ok st' => gr_renames p st' r
              end
  end.

Variable pi : P -> list (list P) -> list (list P).

(* the intersection of all peptides[p], p in peps, restricted to grouped.keys(), in iteration order *)
Definition gr_matches (p : P) (peps : list nat) (g : gr_groups) (pm : gr_pmap)
  : result (list (list P)) :=
  match peps with
  | [] => Err EType                  (* set.intersection() without arguments *)
  | pep0 :: rest =>
    let inter := filter (fun x => forallb (fun pp => gr_memn x (gr_lookup pp pm)) rest)
                        (gr_lookup pep0 pm) in
    Ok (filter (fun m => gr_haskey m g) (pi p inter))
  end.

(* the body of the loop over proteins *)
Definition gr_step (st : gr_groups * gr_pmap) (q : P * list nat) : result (gr_groups * gr_pmap) :=
  let p := fst q in
  let peps := snd q in
  match fst st with
  | [] => Ok ([([p], peps)], snd st)
  | _ :: _ =>
    match gr_matches p peps (fst st) (snd st) with
    | Err e => Err e
    | Ok [] => Ok (gr_dict_set [p] peps (fst st), snd st)
    | Ok ms => gr_renames p st ms
    end
  end.

Fixpoint gr_loop (st : gr_groups * gr_pmap) (qs : list (P * list nat))
  : result (gr_groups * gr_pmap) :=
  match qs with
  | [] => Ok st
  | q :: r => match gr_step st q with
              | Err e => Err e
              | Ok st' => gr_loop st' r
              end
  end.

(* sorted(items, key=lambda x: -len(x[1])): stable, largest first *)
Fixpoint gr_ins_desc (x : P * list nat) (l : list (P * list nat)) : list (P * list nat) :=
  match l with
  | [] => [x]
  | y :: t => if Nat.leb (length (snd y)) (length (snd x)) then x :: l else y :: gr_ins_desc x t
  end.
Definition gr_sort_desc (l : list (P * list nat)) : list (P * list nat) :=
  fold_right gr_ins_desc [] l.

(* sorted(items, key=lambda i: len(i[1])): stable, smallest first *)
Fixpoint gr_ins_asc (x : P * list nat) (l : list (P * list nat)) : list (P * list nat) :=
  match l with
  | [] => [x]
  | y :: t => if Nat.leb (length (snd x)) (length (snd y)) then x :: l else y :: gr_ins_asc x t
  end.
Definition gr_sort_asc (l : list (P * list nat)) : list (P * list nat) :=
  fold_right gr_ins_asc [] l.

(* _group_proteins(proteins, peptides) *)
Definition gr_group (prots : list (P * list nat)) (pm : gr_pmap) : result (gr_groups * gr_pmap) :=
  gr_loop ([], pm) (gr_sort_desc prots).

(* ---- read_fasta: the two initial maps ---- *)
(* proteins[prot] = peps : a repeated name keeps its first position and takes the last value *)
Fixpoint gr_prot_set (p : P) (peps : list nat) (d : list (P * list nat)) : list (P * list nat) :=
  match d with
  | [] => [(p, peps)]
  | (k, w) :: r => if peqb p k then (k, peps) :: r else (k, w) :: gr_prot_set p peps r
  end.

Definition gr_add_name (p : P) (pm : gr_pmap) (pep : nat) : gr_pmap :=
  gr_update pep (gr_set_add [p] (gr_lookup pep pm)) pm.

Fixpoint gr_build (entries : list (P * list nat)) (d : list (P * list nat)) (pm : gr_pmap)
  : list (P * list nat) * gr_pmap :=
  match entries with
  | [] => (d, pm)
  | (p, raw) :: r =>
    match gr_dedup raw with
    | [] => gr_build r d pm                     (* "if peps:" *)
    | peps => gr_build r (gr_prot_set p peps d) (fold_left (gr_add_name p) peps pm)
    end
  end.

(* ---- decoy pairing ---- *)
Variable is_decoy : P -> bool.       (* name.startswith(decoy_prefix) *)
Variable decoy_of : P -> P.          (* decoy_prefix + name *)

Definition gr_has_prot (p : P) (d : list (P * list nat)) : bool :=
  existsb (fun e => peqb p (fst e)) d.

Fixpoint gr_pair_set (k v : P) (d : list (P * P)) : list (P * P) :=
  match d with
  | [] => [(k, v)]
  | (k', w) :: r => if peqb k k' then (k', v) :: r else (k', w) :: gr_pair_set k v r
  end.

(* (decoy_map, has_decoys, has_targets) *)
Fixpoint gr_decoys (all names : list (P * list nat)) (acc : list (P * P) * bool * bool)
  : list (P * P) * bool * bool :=
  match names with
  | [] => acc
  | (p, _) :: r =>
    if is_decoy p then gr_decoys all r acc
    else let '(dm, hd, _) := acc in
         gr_decoys all r (gr_pair_set p (decoy_of p) dm,
                          (if gr_has_prot (decoy_of p) all then true else hd), true)
  end.

Record gr_out := {
  gr_unique : list (nat * list P);            (* peptide_map *)
  gr_shared : list (nat * list (list P));     (* shared_peptides: the names joined by "; " *)
  gr_protein_map : list (P * P);
  gr_has_decoys : bool }.

Fixpoint gr_split (pm : gr_pmap) : list (nat * list P) * list (nat * list (list P)) :=
  match pm with
  | [] => ([], [])
  | (pep, names) :: r =>
    let (u, s) := gr_split r in
    match names with
    | [n] => ((pep, n) :: u, s)
    | _ => (u, (pep, names) :: s)
    end
  end.

Definition gr_read_fasta (entries : list (P * list nat)) : result gr_out :=
  match entries with
  | [] => Err EIndex                          (* empty file: entry[0] of no lines *)
  | _ :: _ =>
    let (d0, pm0) := gr_build entries [] [] in
    let d := gr_sort_asc d0 in
    let '(dm, hd, ht) := gr_decoys d d ([], false, false) in
    if negb ht then Err EValue
    else match gr_group d pm0 with
         | Err e => Err e
         | Ok (_, pm) =>
           let (u, s) := gr_split pm in
           Ok {| gr_unique := u; gr_shared := s; gr_protein_map := dm; gr_has_decoys := hd |}
         end
  end.

End GrGrouping.

(* ---- the concrete instance that is extracted: protein names are strings ---- *)

(* a family of iteration orders: the k-th "pick" permutation (k mod n selects the next element) *)
Fixpoint gr_take_nth {A} (i : nat) (l : list A) : option (A * list A) :=
  match l with
  | [] => None
  | x :: r => match i with
              | O => Some (x, r)
              | S j => match gr_take_nth j r with
                       | Some (y, r') => Some (y, x :: r')
                       | None => None
                       end
              end
  end.

Fixpoint gr_perm_fuel {A} (fuel k : nat) (l : list A) : list A :=
  match fuel with
  | O => l
  | S f =>
    match l with
    | [] => []
    | _ :: _ =>
      let n := length l in
      match gr_take_nth (Nat.modulo k n) l with
      | Some (x, r) => x :: gr_perm_fuel f (Nat.div k n) r
      | None => l
      end
    end
  end.
Definition gr_perm {A} (k : nat) (l : list A) : list A := gr_perm_fuel (length l) k l.

Definition gr_read_fasta_str (k : nat) (prefix : str) (entries : list (str * list nat))
  : result (gr_out str) :=
  gr_read_fasta str str_eqb (fun _ l => gr_perm k l) (prefixb prefix) (fun n => prefix ++ n) entries.

Definition gr_group_str (k : nat) (prots : list (str * list nat)) (pm : gr_pmap str)
  : result (gr_groups str * gr_pmap str) :=
  gr_group str str_eqb (fun _ l => gr_perm k l) prots pm.
