(* CalibrateD.v — calibrate_scores with its [desc] argument (C11).  Definitions only.
   mokapot.dataset.calibrate_scores(scores, targets, eval_fdr, desc) hands [desc] to _update_labels
   (the ranking direction of the target-decoy competition) and to nothing else: the anchors stay
   np.min of the accepted targets and np.median of the decoys whatever the direction.
   Model/Calibrate.v is the instance desc = true, the only one brew uses (CalibrateDP.calibrate_d_true). *)
From Mokaverif Require Import Model.Base Model.Tdc Model.Calibrate.
Open Scope Z_scope.

Definition calibrate_d (desc : bool) (scores : list Z) (targets : list bool) (thr : Q) : result (list Q) :=
  match update_labels desc scores targets thr with
  | Err e => Err e
  | Ok labels =>
      let pos := map (fun l => l =? 1) labels in
      let neg := map (fun l => l =? -1) labels in
      match cal_select pos scores with
      | [] => Err ERuntime
      | p :: ps =>
          let t := inject_Z (cal_min p ps) in
          match cal_median (cal_select neg scores) with
          | None => Err EType
          | Some d =>
              if Qeq_bool t d then Err EType
              else Ok (map (fun s => ((inject_Z s - t) / (t - d))%Q) scores)
          end
      end
  end.
