(* Rollup.v — model of the stand-alone rollup tool mokapot/brew_rollup.py (C03).  Definitions only.

   compute_rollup_levels : the closure of the base level under a child -> parent table, in the
                           order in which the `while changed: for child, parent in items()` loop
                           appends the levels                               -> ru_compute_levels
   do_rollup             : file selection (both formats = RuntimeError, names starting with the
                           output root are skipped), column renaming (STANDARD_COLUMN_NAME_MAP),
                           computed is_decoy column, the checked k-way merge on `score`
                           (Model/Merge.v, readers = target files then decoy files), the levels
                           that occur as column names, ONE scan of the merged stream with one
                           `seen` set per level (no break: the levels are independent), the temp
                           files, and per level q-values (tdc) + split into targets / decoys.
                                                                -> ru_temp / ru_rollup

   Rows are Confidence.cf_row: cf_id = row number, cf_keys = one value id per column of the
   source files (equal ids = equal cell values, across all files), cf_score = exact image of
   the score; cf_spec is not used; cf_target is SET by the model from the kind of file. *)
From Mokaverif Require Import Model.Base Model.Tdc Model.Merge Model.Confidence.
Open Scope Z_scope.

(* ---------- names ---------- *)
Definition ru_s_psm : str := [112; 115; 109].
Definition ru_s_precursor : str := [112; 114; 101; 99; 117; 114; 115; 111; 114].
Definition ru_s_modified_peptide : str :=
  [109; 111; 100; 105; 102; 105; 101; 100; 95; 112; 101; 112; 116; 105; 100; 101].
Definition ru_s_peptide : str := [112; 101; 112; 116; 105; 100; 101].
Definition ru_s_peptide_group : str := [112; 101; 112; 116; 105; 100; 101; 95; 103; 114; 111; 117; 112].
Definition ru_s_psm_id : str := [112; 115; 109; 95; 105; 100].
Definition ru_s_SpecId : str := [83; 112; 101; 99; 73; 100].
Definition ru_s_PSMId : str := [80; 83; 77; 73; 100].
Definition ru_s_Precursor : str := [80; 114; 101; 99; 117; 114; 115; 111; 114].
Definition ru_s_pcm : str := [112; 99; 109].
Definition ru_s_PCM : str := [80; 67; 77].
Definition ru_s_Peptide : str := [80; 101; 112; 116; 105; 100; 101].
Definition ru_s_PeptideGroup : str := [80; 101; 112; 116; 105; 100; 101; 71; 114; 111; 117; 112].
Definition ru_s_peptidegroup : str := [112; 101; 112; 116; 105; 100; 101; 103; 114; 111; 117; 112].
Definition ru_s_ModifiedPeptide : str :=
  [77; 111; 100; 105; 102; 105; 101; 100; 80; 101; 112; 116; 105; 100; 101].
Definition ru_s_modifiedpeptide : str :=
  [109; 111; 100; 105; 102; 105; 101; 100; 112; 101; 112; 116; 105; 100; 101].
Definition ru_s_q_dash_value : str := [113; 45; 118; 97; 108; 117; 101].     (* "q-value" *)
Definition ru_s_q_value : str := [113; 95; 118; 97; 108; 117; 101].          (* "q_value" *)
Definition ru_s_score : str := [115; 99; 111; 114; 101].
Definition ru_s_is_decoy : str := [105; 115; 95; 100; 101; 99; 111; 121].
Definition ru_s_dot : str := [46].

(* DEFAULT_PARENT_LEVELS.items(): (child, parent) in dict order *)
Definition ru_default_parents : list (str * str) :=
  [ (ru_s_precursor, ru_s_psm);
    (ru_s_modified_peptide, ru_s_precursor);
    (ru_s_peptide, ru_s_modified_peptide);
    (ru_s_peptide_group, ru_s_precursor) ].

(* STANDARD_COLUMN_NAME_MAP.items() *)
Definition ru_column_map : list (str * str) :=
  [ (ru_s_SpecId, ru_s_psm_id); (ru_s_PSMId, ru_s_psm_id);
    (ru_s_Precursor, ru_s_precursor); (ru_s_pcm, ru_s_precursor); (ru_s_PCM, ru_s_precursor);
    (ru_s_Peptide, ru_s_peptide);
    (ru_s_PeptideGroup, ru_s_peptide_group); (ru_s_peptidegroup, ru_s_peptide_group);
    (ru_s_ModifiedPeptide, ru_s_modified_peptide); (ru_s_modifiedpeptide, ru_s_modified_peptide);
    (ru_s_q_dash_value, ru_s_q_value) ].

(* dict.get(name, name) *)
Fixpoint ru_lookup (m : list (str * str)) (name : str) : str :=
  match m with
  | [] => name
  | (k, v) :: r => if str_eqb k name then v else ru_lookup r name
  end.
Definition ru_std_name (name : str) : str := ru_lookup ru_column_map name.

(* ---------- compute_rollup_levels ---------- *)
(* one entry of one `for child, parent in parent_levels.items()` sweep; state = (levels, changed) *)
Definition ru_sweep_step (acc : list str * bool) (cp : str * str) : list str * bool :=
  if mem_str (snd cp) (fst acc) && negb (mem_str (fst cp) (fst acc))
  then (fst acc ++ [fst cp], true) else acc.
Definition ru_sweep (parents : list (str * str)) (levels : list str) : list str * bool :=
  fold_left ru_sweep_step parents (levels, false).

(* `while changed`; every sweep that changes something adds a child of the table that was not
   there, so S (length parents) sweeps suffice (Proofs/RollupP.v: ru_levels_total) *)
Fixpoint ru_closure (fuel : nat) (parents : list (str * str)) (levels : list str) : result (list str) :=
  match fuel with
  | O => Err EFuel
  | S f => let r := ru_sweep parents levels in
           if snd r then ru_closure f parents (fst r) else Ok (fst r)
  end.
Definition ru_compute_levels (parents : list (str * str)) (base : str) : result (list str) :=
  ru_closure (S (length parents)) parents [base].

(* ---------- do_rollup ---------- *)
(* one source file as its reader presents it: name, schema id (equal ids = equal column names
   and column types as reported by the reader), rows in file order *)
Definition ru_file := (str * (Z * list cf_row))%type.
Definition ru_fname (f : ru_file) : str := fst f.
Definition ru_fschema (f : ru_file) : Z := fst (snd f).
Definition ru_frows (f : ru_file) : list cf_row := snd (snd f).

(* ComputedTabularDataReader(column="is_decoy", func = constant): the flag comes from the kind of file *)
Definition ru_tag (target : bool) (r : cf_row) : cf_row :=
  {| cf_id := cf_id r; cf_spec := cf_spec r; cf_keys := cf_keys r; cf_target := target; cf_score := cf_score r |}.

(* `if not file.name.startswith(file_root)` with file_root = config.file_root + "." *)
Definition ru_select (root : str) (files : list ru_file) : list ru_file :=
  filter (fun f => negb (prefixb (root ++ ru_s_dot) (ru_fname f))) files.

(* target_readers + decoy_readers *)
Definition ru_readers (root : str) (tfiles dfiles : list ru_file) : list (list cf_row) :=
  map (fun f => map (ru_tag true) (ru_frows f)) (ru_select root tfiles) ++
  map (fun f => map (ru_tag false) (ru_frows f)) (ru_select root dfiles).

(* what fails before the first row is read: both formats present (RuntimeError); the asserts of
   MergedTabularDataReader.__init__ (no reader, differing schemas, no `score` column).
   raw_cols = column names of the first reader's file *)
Definition ru_precheck (has_parquet has_text : bool) (root : str) (raw_cols : list str)
           (tfiles dfiles : list ru_file) : option err :=
  if has_parquet && has_text then Some ERuntime
  else match map ru_fschema (ru_select root tfiles ++ ru_select root dfiles) with
       | [] => Some EAssertion
       | s0 :: rest =>
         if negb (forallb (fun s => s =? s0) rest) then Some EAssertion
         else if negb (mem_str ru_s_score (map ru_std_name raw_cols ++ [ru_s_is_decoy])) then Some EAssertion
         else None
       end.

(* line[level]: the value id in the column called `level` (cols = renamed column names; every row
   carries one id per column, see ru_key_default_irrelevant) *)
Definition ru_key (cols : list str) (level : str) (r : cf_row) : Z :=
  match index_str level cols with
  | Some i => nth i (cf_keys r) 0
  | None => 0
  end.

Section Scan.
Variable row : Type.
(* `if id not in seen: seen.add(id); temp_writers[level].append_data(line)` for one level *)
Definition ru_level_step (r : row) (key : row -> Z) (st : list Z * list row) : list Z * list row :=
  if cf_memz (key r) (fst st) then st else (key r :: fst st, snd st ++ [r]).
(* `for level in levels:` for one row; the state holds (seen, written rows) per level *)
Definition ru_row_step (keys : list (row -> Z)) (r : row) (st : list (list Z * list row))
  : list (list Z * list row) :=
  map (fun ks => ru_level_step r (fst ks) (snd ks)) (combine keys st).
(* `for line in reader.get_row_iterator(...)`: the temp files *)
Definition ru_scan (keys : list (row -> Z)) (stream : list row) : list (list row) :=
  map snd (fold_left (fun st r => ru_row_step keys r st) stream (map (fun _ => ([], [])) keys)).
End Scan.
Arguments ru_level_step {row} r key st.
Arguments ru_row_step {row} keys r st.
Arguments ru_scan {row} keys stream.

(* the levels rolled up to: closure of the base level, restricted to the column names *)
Definition ru_levels (base : str) (cols : list str) : result (list str) :=
  match ru_compute_levels ru_default_parents base with
  | Err e => Err e
  | Ok all => Ok (filter (fun l => mem_str l cols) all)
  end.

(* the temp files <root>.temp.<level>s: level name, rows written *)
Definition ru_temp (has_parquet has_text : bool) (root base : str) (raw_cols : list str)
           (tfiles dfiles : list ru_file) : result (list (str * list cf_row)) :=
  match ru_precheck has_parquet has_text root raw_cols tfiles dfiles with
  | Some e => Err e
  | None =>
    let cols := map ru_std_name raw_cols ++ [ru_s_is_decoy] in
    match ru_levels base cols with
    | Err e => Err e
    | Ok levels =>
      match mg_merge_checked cf_score true (ru_readers root tfiles dfiles) with
      | Err e => Err e                         (* raised inside the scan: no output file is written *)
      | Ok stream => Ok (combine levels (ru_scan (map (ru_key cols) levels) stream))
      end
    end
  end.

(* q-values on exactly the rows of the temp file; targets -> writer 0, decoys -> writer 1 *)
Definition ru_split (lvl : list cf_row) : list (cf_row * Q) * list (cf_row * Q) :=
  let rq := combine lvl (cf_qvalues lvl) in
  (filter (fun p => cf_target (fst p)) rq, filter (fun p => negb (cf_target (fst p))) rq).

(* the result files: level name, rows of <root>.targets.<level>s, rows of <root>.decoys.<level>s *)
Definition ru_rollup (has_parquet has_text : bool) (root base : str) (raw_cols : list str)
           (tfiles dfiles : list ru_file)
  : result (list (str * (list (cf_row * Q) * list (cf_row * Q)))) :=
  match ru_temp has_parquet has_text root base raw_cols tfiles dfiles with
  | Err e => Err e
  | Ok temp => Ok (map (fun lt => (fst lt, ru_split (snd lt))) temp)
  end.
