(* PinVerify.v — the PIN verify step of mokapot.main (mokapot/mokapot.py, "Verify PIN format"), for ONE
   input file, as a function on the file's text (C19).  Definitions only.

       with open(path_pin) as f_pin: valid_tsv = is_valid_tsv(f_pin)
       if not valid_tsv:
           with open(path_pin) as f_pin, open(path_tsv, 'w') as f_tsv: pin_to_valid_tsv(f_in=f_pin, f_out=f_tsv)
           shutil.move(path_tsv, path_pin)

   Both functions are called with their default separators.  The result is the text the user's PIN
   file holds after the step; [Err e] = the step raises (the file is then left as it was).  The loop
   over several input files applies this function to every file independently; the file-system view
   of the same step (temporary file, move) is Model/Fs.v (C09). *)
From Mokaverif Require Import Model.Base Model.PinTsv.
Open Scope Z_scope.

Definition pin_verify_text (txt : str) : result str :=
  match is_valid txt with
  | Ok true => Ok txt
  | Ok false => convert_file txt
  | Err e => Err e
  end.
