(* Fit.v — model of mokapot.model.Model.fit / decision_function / _get_starting_labels /
   _get_scores and dataset._find_best_feature (C12).  Definitions only.
   The learner (scikit-learn estimator) is an oracle: [learn] maps the list of (feature row, label)
   pairs handed to estimator.fit, in the order handed, to a fitted state; [score] is
   decision_function (or the class-1 column of predict_proba).
   rng.permutation is the oracle [sigma].  Scores are exact integers, train_fdr an exact rational.
   The model follows the code after repo_fixes/F7-fit-unshuffled.patch (identity permutation when
   shuffle is off) and repo_fixes/F16-refit-predict-proba.patch (the pretrained branch of
   _get_starting_labels scores through _get_scores); [fit_train_unpatched] and
   [fit_pre_scores_unpatched] keep the behaviour before these repairs. *)
From Mokaverif Require Import Model.Base Model.Tdc.
Open Scope Z_scope.

(* ---------- numpy helpers ---------- *)
(* l[idx] for an integer index array *)
Fixpoint fit_gather {A} (idx : list nat) (l : list A) : result (list A) :=
  match idx with
  | [] => Ok []
  | i :: r =>
      match nth_error l i with
      | None => Err EIndex
      | Some a => match fit_gather r l with Ok t => Ok (a :: t) | Err e => Err e end
      end
  end.

(* np.argsort of a permutation of 0..n-1: its inverse *)
Definition fit_argsort (sigma : list nat) : list nat :=
  map (fun r => index_of r sigma) (seq 0 (length sigma)).

(* (labels == 1).sum() *)
Definition fit_count1 (labs : list Z) : Z := Z.of_nat (length (filter (fun v => v =? 1) labs)).

Fixpoint fit_mapM {A B} (f : A -> result B) (l : list A) : result (list B) :=
  match l with
  | [] => Ok []
  | a :: r => match f a with
              | Err e => Err e
              | Ok b => match fit_mapM f r with Ok t => Ok (b :: t) | Err e => Err e end
              end
  end.

(* which scoring method the estimator offers: decision_function, predict_proba with two
   columns (scikit-learn), predict_proba with one column (skorch) *)
Inductive fit_skind := FitDF | FitProba2 | FitProba1.

(* ======================= the training loop, generic in the learner ======================= *)
Section FitLearner.
Variables (X G : Type).
Variable learn : list (X * bool) -> G.
Variable score : G -> X -> Z.

(* _get_scores: decision_function; else predict_proba: two dimensions -> column 1 (the only column
   if there is just one), one dimension -> as is, otherwise RuntimeError (not reachable with the
   three kinds).  One score per row in each case. *)
Definition fit_get_scores (k : fit_skind) (g : G) (xs : list X) : result (list Z) :=
  match k with
  | FitDF => Ok (map (score g) xs)
  | FitProba2 => Ok (map (score g) xs)
  | FitProba1 => Ok (map (score g) xs)
  end.

(* samples = norm_feat[target.astype(bool), :];  iter_targ = (target[target.astype(bool)] + 1) / 2 *)
Definition fit_train_rows (xs : list X) (labs : list Z) : list (X * bool) :=
  map (fun p => (fst p, snd p =? 1))
      (filter (fun p => negb (snd p =? 0)) (combine xs labs)).

(* one iteration after model.fit: scores, un-shuffle, new labels, re-shuffle, number passing *)
Definition fit_step (k : fit_skind) (g : G) (xs' : list X) (sidx inv : list nat)
           (targets : list bool) (thr : Q) : result (list Z * Z) :=
  match fit_get_scores k g xs' with
  | Err e => Err e
  | Ok sc' =>
    match fit_gather inv sc' with                          (* scores[original_idx] *)
    | Err e => Err e
    | Ok sc =>
      match update_labels true sc targets thr with         (* psms._update_labels(scores, train_fdr) *)
      | Err e => Err e
      | Ok labs =>
        match fit_gather sidx labs with                    (* target[shuffled_idx] *)
        | Err e => Err e
        | Ok labs' => Ok (labs', fit_count1 labs')
        end
      end
    end
  end.

(* for i in range(max_iter); returns the lists handed to estimator.fit and the last
   (fitted state, num_passed) *)
Fixpoint fit_loop (iters : nat) (k : fit_skind) (xs' : list X) (sidx inv : list nat)
         (targets : list bool) (thr : Q) (lab : list Z) (last : option (G * Z))
  : list (list (X * bool)) * result (option (G * Z)) :=
  match iters with
  | O => ([], Ok last)
  | S iters' =>
      let tr := fit_train_rows xs' lab in
      let g := learn tr in
      match fit_step k g xs' sidx inv targets thr with
      | Err e => ([tr], Err e)
      | Ok (lab', np) =>
          if np =? 0 then ([tr], Err ERuntime)             (* "Model performs worse after training." *)
          else let (t, r) := fit_loop iters' k xs' sidx inv targets thr lab' (Some (g, np)) in
               (tr :: t, r)
      end
  end.

(* the loop and the final comparison with the starting point.  [xs'], [lab0] are norm_feat and
   start_labels as they enter the loop, [sidx] is shuffled_idx *)
Definition fit_train_core (k : fit_skind) (xs' : list X) (lab0 : list Z) (sidx : list nat)
           (targets : list bool) (feat_pass : Z) (thr : Q) (max_iter : nat) (override : bool)
  : list (list (X * bool)) * result G :=
  let (trace, r) := fit_loop max_iter k xs' sidx (fit_argsort sidx) targets thr lab0 None in
  (trace,
   match r with
   | Err e => Err e
   | Ok None => Err EIndex                                 (* num_passed[-1] of an empty list *)
   | Ok (Some (g, np)) =>
       if (np <? fit_count1 lab0) || (np <? feat_pass)
       then (if override then Ok g else Err ERuntime)
       else Ok g
   end).

(* lines 290-345 with the F7 repair: shuffled_idx is the identity when shuffle is off *)
Definition fit_train (k : fit_skind) (xs : list X) (targets : list bool) (start : list Z)
           (feat_pass : Z) (sigma : list nat) (shuffle : bool) (thr : Q) (max_iter : nat)
           (override : bool) : list (list (X * bool)) * result G :=
  let sidx := if shuffle then sigma else seq 0 (length start) in
  match (if shuffle then fit_gather sidx xs else Ok xs),
        (if shuffle then fit_gather sidx start else Ok start) with
  | Ok xs', Ok lab0 => fit_train_core k xs' lab0 sidx targets feat_pass thr max_iter override
  | Err e, _ => ([], Err e)
  | _, Err e => ([], Err e)
  end.

(* the same lines before the repair: the index arrays are used although nothing was shuffled *)
Definition fit_train_unpatched (k : fit_skind) (xs : list X) (targets : list bool) (start : list Z)
           (feat_pass : Z) (sigma : list nat) (shuffle : bool) (thr : Q) (max_iter : nat)
           (override : bool) : list (list (X * bool)) * result G :=
  match (if shuffle then fit_gather sigma xs else Ok xs),
        (if shuffle then fit_gather sigma start else Ok start) with
  | Ok xs', Ok lab0 => fit_train_core k xs' lab0 sigma targets feat_pass thr max_iter override
  | Err e, _ => ([], Err e)
  | _, Err e => ([], Err e)
  end.

End FitLearner.

(* ======================= starting labels (no learner involved) ======================= *)
(* pd.Series.idxmax: first position of the maximum *)
Fixpoint fit_argmax_aux (best : Z) (besti i : nat) (l : list Z) : nat :=
  match l with
  | [] => besti
  | v :: r => if best <? v then fit_argmax_aux v i (S i) r else fit_argmax_aux best besti (S i) r
  end.
Definition fit_idxmax (l : list Z) : option nat :=
  match l with [] => None | v :: r => Some (fit_argmax_aux v 0%nat 1%nat r) end.

(* _targets_count_by_feature *)
Definition fit_counts (desc : bool) (cols : list (list Z)) (targets : list bool) (thr : Q)
  : result (list Z) :=
  fit_mapM (fun col => match update_labels desc col targets thr with
                       | Ok l => Ok (fit_count1 l) | Err e => Err e end) cols.

(* one pass of the loop "for desc in (True, False)" of _find_best_feature *)
Definition fit_best_pass (desc : bool) (cols : list (list Z)) (targets : list bool) (thr : Q)
           (best : option (nat * Z * list Z * bool)) : result (option (nat * Z * list Z * bool)) :=
  match fit_counts desc cols targets thr with
  | Err e => Err e
  | Ok counts =>
    match fit_idxmax counts with
    | None => Err EValue                                   (* idxmax of an empty Series *)
    | Some i =>
      match nth_error counts i, nth_error cols i with
      | Some c, Some col =>
          let bp := match best with Some (_, b, _, _) => b | None => 0 end in
          if bp <? c then
            match update_labels desc col targets thr with
            | Ok l => Ok (Some (i, c, l, desc))
            | Err e => Err e
            end
          else Ok best
      | _, _ => Err EIndex
      end
    end
  end.

(* _find_best_feature: (feature position, number passing, labels, desc) *)
Definition fit_best_feature (cols : list (list Z)) (targets : list bool) (thr : Q)
  : result (nat * Z * list Z * bool) :=
  match fit_best_pass true cols targets thr None with
  | Err e => Err e
  | Ok b1 =>
    match fit_best_pass false cols targets thr b1 with
    | Err e => Err e
    | Ok None => Err ERuntime                              (* "No PSMs found below the 'eval_fdr'" *)
    | Ok (Some r) => Ok r
    end
  end.

(* the branch "direction given" of _get_starting_labels: (labels, feat_pass, desc) *)
Definition fit_direction_labels (col : list Z) (targets : list bool) (thr : Q)
  : result (list Z * Z * bool) :=
  match update_labels true col targets thr, update_labels false col targets thr with
  | Ok d, Ok a =>
      if fit_count1 a <=? fit_count1 d then Ok (d, fit_count1 d, true)
      else Ok (a, fit_count1 a, false)
  | Err e, _ => Err e
  | _, Err e => Err e
  end.

(* ---------- the feature table ---------- *)
Fixpoint fit_row_at (i : nat) (cols : list (list Z)) : option (list Z) :=
  match cols with
  | [] => Some []
  | c :: r => match nth_error c i, fit_row_at i r with
              | Some v, Some t => Some (v :: t)
              | _, _ => None
              end
  end.

(* features.values for n rows; ragged columns cannot be a DataFrame *)
Definition fit_rows (cols : list (list Z)) (n : nat) : result (list (list Z)) :=
  fit_mapM (fun i => match fit_row_at i cols with Some r => Ok r | None => Err EValue end) (seq 0 n).

(* column by name (unique names) *)
Definition fit_lookup (name : str) (names : list str) (cols : list (list Z)) : option (list Z) :=
  match index_str name names with
  | None => None
  | Some i => nth_error cols i
  end.

Definition fit_subset (a b : list str) : bool := forallb (fun x => mem_str x b) a.

(* psms.features.loc[:, self.features] *)
Fixpoint fit_select (stored : list str) (names : list str) (cols : list (list Z))
  : option (list (list Z)) :=
  match stored with
  | [] => Some []
  | s :: r => match fit_lookup s names cols, fit_select r names cols with
              | Some c, Some t => Some (c :: t)
              | _, _ => None
              end
  end.

(* ======================= Model.fit / Model.decision_function on feature tables ======================= *)
Section FitTable.
Variable G : Type.
Variable learn : list (list Z * bool) -> G.
Variable score : G -> list Z -> Z.

(* how the starting labels are obtained *)
Inductive fit_start :=
| FitBest                       (* direction=None, untrained: best feature *)
| FitDir (name : str)           (* direction given, untrained *)
| FitPre (g0 : G).              (* model already trained *)

Record fit_out := { fit_o_g : G; fit_o_pass : Z; fit_o_desc : option bool; fit_o_best : option nat }.

(* the pretrained branch: _get_scores(model.estimator, psms.features.values); neither the scaler
   nor the stored feature names are used (finding F17) *)
Definition fit_pre_scores (k : fit_skind) (g0 : G) (rows : list (list Z)) : result (list Z) :=
  fit_get_scores (list Z) G score k g0 rows.

(* _get_starting_labels: (start_labels, feat_pass, desc, best feature position) *)
Definition fit_starting (k : fit_skind) (st : fit_start) (names : list str) (cols : list (list Z))
           (rows : list (list Z)) (targets : list bool) (thr : Q)
  : result (list Z * Z * option bool * option nat) :=
  match
    match st with
    | FitBest =>
        match fit_best_feature cols targets thr with
        | Ok (i, c, l, d) => Ok (l, c, Some d, Some i)
        | Err e => Err e
        end
    | FitPre g0 =>
        match fit_pre_scores k g0 rows with
        | Err e => Err e
        | Ok sc =>
            match update_labels true sc targets thr with
            | Ok l => Ok (l, fit_count1 l, None, None)
            | Err e => Err e
            end
        end
    | FitDir name =>
        match fit_lookup name names cols with
        | None => Err EKey
        | Some col =>
            (* best_feat = model.direction: the feature's name (repaired in /repo, 53bc608; it used to be the
               feature's values, which no later step could use) — reported here as its position *)
            match fit_direction_labels col targets thr with
            | Ok (l, c, d) => Ok (l, c, Some d, index_str name names)
            | Err e => Err e
            end
        end
    end
  with
  | Err e => Err e
  | Ok (l, c, d, b) => if fit_count1 l =? 0 then Err ERuntime else Ok (l, c, d, b)
  end.

(* Model.fit (scaler "as-is") *)
Definition fit_fit (patched : bool) (k : fit_skind) (st : fit_start) (names : list str)
           (cols : list (list Z)) (targets : list bool) (sigma : list nat) (shuffle : bool)
           (thr : Q) (max_iter : nat) (override : bool)
  : list (list (list Z * bool)) * result fit_out :=
  if negb (existsb (fun t => t) targets) then ([], Err EValue)         (* no target PSMs *)
  else if negb (existsb negb targets) then ([], Err EValue)            (* no decoy PSMs *)
  else
    match fit_rows cols (length targets) with
    | Err e => ([], Err e)
    | Ok rows =>
      match fit_starting k st names cols rows targets thr with
      | Err e => ([], Err e)
      | Ok (start, fp, d, b) =>
          let (trace, r) :=
            (if patched then fit_train else fit_train_unpatched)
              (list Z) G learn score k rows targets start fp sigma shuffle thr max_iter override in
          (trace, match r with
                  | Ok g => Ok {| fit_o_g := g; fit_o_pass := fp; fit_o_desc := d; fit_o_best := b |}
                  | Err e => Err e
                  end)
      end
    end.

(* Model.decision_function: NotFittedError (a ValueError) when untrained; ValueError unless the
   feature names are the stored ones as sets; columns taken by stored name, in stored order *)
Definition fit_decision (trained : bool) (stored : list str) (k : fit_skind) (g : G)
           (names : list str) (cols : list (list Z)) (n : nat) : result (list Z) :=
  if negb trained then Err EValue
  else if negb (fit_subset names stored && fit_subset stored names) then Err EValue
  else match fit_select stored names cols with
       | None => Err EKey
       | Some sel =>
           match fit_rows sel n with
           | Err e => Err e
           | Ok rows => fit_get_scores (list Z) G score k g rows
           end
       end.

End FitTable.

(* before F16: estimator.decision_function(values), else predict_proba(features).flatten() — both
   columns of a two-column predict_proba, row by row; [coscore] is the first column *)
Definition fit_pre_scores_unpatched (G : Type) (score coscore : G -> list Z -> Z)
           (k : fit_skind) (g0 : G) (rows : list (list Z)) : list Z :=
  match k with
  | FitDF => map (score g0) rows
  | FitProba2 => flat_map (fun x => [coscore g0 x; score g0 x]) rows
  | FitProba1 => map (score g0) rows
  end.

(* ======================= a concrete deterministic learner (harness estimator) ======================= *)
(* The recording estimator of harness/props/c12.py: feature rows carry a row id in column [idc]
   and [kk] candidate score columns from column [sc0] on; fitting chooses one of them as a function
   of the (row id, label) pairs it was handed: lk = 0 order-independent, 1 order-dependent,
   otherwise constant. *)
Definition fit_demo_code (idc : nat) (p : list Z * bool) : Z :=
  (nth idc (fst p) 0 + 1) * (if snd p then 3 else 2).

Fixpoint fit_demo_wsum (idc : nat) (w : Z) (l : list (list Z * bool)) : Z :=
  match l with
  | [] => 0
  | p :: r => w * fit_demo_code idc p + fit_demo_wsum idc (w + 1) r
  end.

Definition fit_demo_learn (lk idc : nat) (kk : Z) (l : list (list Z * bool)) : Z :=
  match lk with
  | 0%nat => (fold_right (fun p a => fit_demo_code idc p + a) 0 l) mod kk
  | 1%nat => (fit_demo_wsum idc 1 l) mod kk
  | _ => 0
  end.

Definition fit_demo_score (sc0 : nat) (g : Z) (x : list Z) : Z := nth (sc0 + Z.to_nat g) x 0.

Definition fit_demo_ids (idc : nat) (trace : list (list (list Z * bool))) : list (list (Z * bool)) :=
  map (map (fun p => (nth idc (fst p) 0, snd p))) trace.

(* entry point used by the driver: fit, then predict on the training table and on a second table *)
Definition fit_demo_run (patched : bool) (lk idc sc0 : nat) (kk : Z) (k : fit_skind)
           (mode : nat) (dir : str) (g0 : Z)
           (names : list str) (cols : list (list Z)) (targets : list bool)
           (sigma : list nat) (shuffle : bool) (thr : Q) (max_iter : nat) (override : bool)
           (names2 : list str) (cols2 : list (list Z)) (n2 : nat)
  : list (list (Z * bool)) *
    result (Z * Z * option bool * option nat * result (list Z) * result (list Z)) :=
  let st := match mode with
            | 0%nat => FitBest Z
            | 1%nat => FitDir Z dir
            | _ => FitPre Z g0
            end in
  let (trace, r) := fit_fit Z (fit_demo_learn lk idc kk) (fit_demo_score sc0)
                            patched k st names cols targets sigma shuffle thr max_iter override in
  (fit_demo_ids idc trace,
   match r with
   | Err e => Err e
   | Ok o =>
       let g := fit_o_g Z o in
       let dec := fit_decision Z (fit_demo_score sc0) true names k g in
       Ok (g, fit_o_pass Z o, fit_o_desc Z o, fit_o_best Z o,
           dec names cols (length targets), dec names2 cols2 n2)
   end).

Definition fit_demo_decision (trained : bool) (sc0 : nat) (stored : list str) (k : fit_skind) (g : Z)
           (names : list str) (cols : list (list Z)) (n : nat) : result (list Z) :=
  fit_decision Z (fit_demo_score sc0) trained stored k g names cols n.
