(* Calibrate.v — model of mokapot.dataset.calibrate_scores (C11).  Definitions only.
   Raw scores are exact integers (integer-valued features through a transparent estimator, or
   dyadic floats scaled by a common power of two); calibrated scores are exact rationals. *)
From Mokaverif Require Import Model.Base Model.Tdc.
Open Scope Z_scope.

(* np.min of a non-empty list *)
Fixpoint cal_min (x : Z) (l : list Z) : Z :=
  match l with [] => x | y :: r => cal_min (Z.min x y) r end.

(* sorted copy (np.median sorts) *)
Fixpoint cal_insert (x : Z) (l : list Z) : list Z :=
  match l with
  | [] => [x]
  | y :: t => if x <=? y then x :: l else y :: cal_insert x t
  end.
Definition cal_sort (l : list Z) : list Z := fold_right cal_insert [] l.

(* np.median: middle element, or the mean of the two middle elements; None for an empty list
   (numpy returns nan with a warning) *)
Definition cal_median (l : list Z) : option Q :=
  let s := cal_sort l in
  let n := length s in
  let lo := nth (n / 2 - 1)%nat s 0 in
  let hi := nth (n / 2)%nat s 0 in
  match n with
  | O => None
  | _ => if Nat.even n
         then Some ((inject_Z lo + inject_Z hi) / 2)%Q
         else Some (inject_Z hi)
  end.

Definition cal_select {A} (keep : list bool) (l : list A) : list A :=
  map snd (filter fst (combine keep l)).

(* calibrate_scores(scores, targets, eval_fdr, desc=True):
     labels = _update_labels(...); pos = labels == 1; RuntimeError if none
     target_score = min(scores[pos]); decoy_score = median(scores[labels == -1])
     (scores - target_score) / (target_score - decoy_score)
   ENaN-like outcomes (no decoy -> median nan; target_score = decoy_score -> division by zero)
   are reported as [Err EType]: the code returns non-finite numbers there. *)
Definition calibrate (scores : list Z) (targets : list bool) (thr : Q) : result (list Q) :=
  match update_labels true scores targets thr with
  | Err e => Err e
  | Ok labels =>
      let pos := map (fun l => l =? 1) labels in
      let neg := map (fun l => l =? -1) labels in
      match cal_select pos scores with
      | [] => Err ERuntime
      | p :: ps =>
          let t := inject_Z (cal_min p ps) in
          match cal_median (cal_select neg scores) with
          | None => Err EType
          | Some d =>
              if Qeq_bool t d then Err EType
              else Ok (map (fun s => ((inject_Z s - t) / (t - d))%Q) scores)
          end
      end
  end.
