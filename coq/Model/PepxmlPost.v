(* PepxmlPost.v — what mokapot.read_pepxml does AFTER the parse (C20, DESIGN R2.20).  Definitions only.

   Input: the parsed PSMs (the result of Pepxml.px_read) and the options of read_pepxml
     exclude_features            (after utils.tuplize: None -> [], a str -> [s])
     open_modification_bin_size  (None / a positive number)
     to_df
   Output: the returned table, column by column: name, dtype kind, role, whether _log_features
   replaced the column by its log10, the cells; and for to_df=False the column roles handed to
   LinearPsmDataset.

   The DECISIONS are computed here: which columns exist and in which order, which are features,
   what exclude_features removes, the dtype, which columns _log_features transforms (as a function
   of their values), the one-hot charge columns, the errors.  The FLOATING-POINT computations are
   Section variables (recorded oracles; the harness records them with the identical IEEE
   operations and checks their contracts):
     num  : float(text)                      -- the double, as an exact rational; None: ValueError
     lg   : numpy.log10 on a positive double
     md   : float(exp) - float(calc)         -- keyed by the two attribute values (opaque integers, as in Pepxml.v)
     mz   : abs((exp/z + proton) - (calc/z + proton))
     rp   : the (mantissa, exponent) of repr(x) for a double that prints in exponent notation
     sfx  : the text of the open-modification bin centre (np.arange / np.digitize / round(4) / str)
   Numbers are exact rationals: a cell [CNum q] says "the double whose exact value is q" whenever q came
   from an oracle, and "the correctly rounded double of q" when q is a sum/difference formed here
   (log10(root) + power, min - 1: one IEEE operation on exact operands each). *)
From Mokaverif Require Import Model.Base Model.Pepxml.
Open Scope Z_scope.

(* ---------- column names ---------- *)
Definition px_N_FILE : str := [109;115;95;100;97;116;97;95;102;105;108;101].   (* "ms_data_file" *)
Definition px_N_SCAN : str := [115;99;97;110].   (* "scan" *)
Definition px_N_CHARGE : str := [99;104;97;114;103;101].   (* "charge" *)
Definition px_N_RT : str := [114;101;116;95;116;105;109;101].   (* "ret_time" *)
Definition px_N_EXP : str := [101;120;112;95;109;97;115;115].   (* "exp_mass" *)
Definition px_N_CALC : str := [99;97;108;99;95;109;97;115;115].   (* "calc_mass" *)
Definition px_N_PEPTIDE : str := [112;101;112;116;105;100;101].   (* "peptide" *)
Definition px_N_PROTEINS : str := [112;114;111;116;101;105;110;115].   (* "proteins" *)
Definition px_N_LABEL : str := [108;97;98;101;108].   (* "label" *)
Definition px_N_MC : str := [109;105;115;115;101;100;95;99;108;101;97;118;97;103;101;115].   (* "missed_cleavages" *)
Definition px_N_NTT : str := [110;116;116].   (* "ntt" *)
Definition px_N_NMP : str := [110;117;109;95;109;97;116;99;104;101;100;95;112;101;112;116;105;100;101;115].   (* "num_matched_peptides" *)
Definition px_N_MDIFF : str := [109;97;115;115;95;100;105;102;102].   (* "mass_diff" *)
Definition px_N_MZDIFF : str := [97;98;115;95;109;122;95;100;105;102;102].   (* "abs_mz_diff" *)
Definition px_N_CHARGE_ : str := [99;104;97;114;103;101;95].   (* "charge_" *)

(* the keys every parsed PSM has, in dict insertion order (run_info, spec_info, _parse_psm);
   as a set this is also [nonfeat_cols] of read_pepxml *)
Definition px_META9 : list str :=
  [px_N_FILE; px_N_SCAN; px_N_CHARGE; px_N_RT; px_N_EXP; px_N_CALC; px_N_PEPTIDE; px_N_PROTEINS; px_N_LABEL].

(* ---------- the table ---------- *)
Inductive px_cell : Type :=
| CText (s : str)        (* a string *)
| CBool (b : bool)
| CInt (z : Z)           (* an integer of an int64 column *)
| CAttr (z : Z)          (* the float of a numeric attribute; the model only moves it (as Pepxml.v) *)
| CNum (q : Q)           (* a float, by its exact value *)
| CNaN
| CNegInf.               (* log10(0) *)

Inductive px_kind : Type := KText | KBool | KInt | KFloat.      (* str/object/category, bool, int64, float64 *)
Inductive px_role : Type := RMeta | RFeature.

(* a column of the frame before _log_features *)
Record px_pre := { pc_name : str; pc_kind : px_kind; pc_cells : list px_cell }.
(* a column of the returned table *)
Record px_col := { c_name : str; c_kind : px_kind; c_role : px_role; c_logged : bool; c_cells : list px_cell }.

(* the keyword arguments of LinearPsmDataset(...) *)
Record px_roles := {
  ro_target : str; ro_spectrum : list str; ro_peptide : str; ro_protein : str; ro_features : list str;
  ro_filename : str; ro_scan : str; ro_calcmass : str; ro_expmass : str; ro_rt : str; ro_charge : str }.

Record px_out := { o_cols : list px_col; o_roles : option px_roles }.     (* o_roles = None: to_df=True *)

(* ---------- small helpers ---------- *)
Fixpoint px_assoc (k : str) (d : list (str * str)) : option str :=
  match d with
  | [] => None
  | (k', v) :: r => if str_eqb k k' then Some v else px_assoc k r
  end.

Fixpoint px_mapM {A B} (f : A -> result B) (l : list A) : result (list B) :=
  match l with
  | [] => Ok []
  | x :: r => match f x with
              | Err e => Err e
              | Ok y => match px_mapM f r with Err e => Err e | Ok ys => Ok (y :: ys) end
              end
  end.

(* an ordered set: the names in order of first appearance (pandas: union of the dict keys of the
   records, then union of the columns of the per-file frames, both without sorting) *)
Fixpoint px_dedup_from (seen l : list str) : list str :=
  match l with
  | [] => []
  | x :: r => if mem_str x seen then px_dedup_from seen r else x :: px_dedup_from (x :: seen) r
  end.

(* str(int) *)
Fixpoint px_digits (fuel : nat) (n : Z) (acc : str) : str :=
  match fuel with
  | O => acc
  | S f => if n <? 10 then (48 + n) :: acc else px_digits f (n / 10) ((48 + n mod 10) :: acc)
  end.
Definition px_dec_fuel (n : Z) : nat := S (Z.to_nat (Z.log2 n)).
Definition px_dec (z : Z) : str :=
  if z <? 0 then 45 :: px_digits (px_dec_fuel (- z)) (- z) [] else px_digits (px_dec_fuel z) z [].

(* sorted(set(charges)): get_dummies orders the categories *)
Fixpoint px_zinsert (x : Z) (l : list Z) : list Z :=
  match l with
  | [] => [x]
  | y :: r => if x <? y then x :: l else if x =? y then l else y :: px_zinsert x r
  end.
Definition px_charges (rows : list px_psm) : list Z := fold_right px_zinsert [] (map p_charge rows).
Definition px_charge_name (c : Z) : str := px_N_CHARGE_ ++ px_dec c.

(* rationals *)
Definition px_qlt (a b : Q) : bool := negb (Qle_bool b a).
Definition px_qabs (x : Q) : Q := if Qle_bool 0 x then x else Qopp x.
Definition px_qmin (a b : Q) : Q := if Qle_bool a b then a else b.
Definition px_qmax (a b : Q) : Q := if Qle_bool a b then b else a.
Definition px_qmin_from (x : Q) (l : list Q) : Q := fold_left px_qmin l x.
Definition px_qmax_from (x : Q) (l : list Q) : Q := fold_left px_qmax l x.
Definition px_zmin_from (x : Z) (l : list Z) : Z := fold_left Z.min l x.
Definition px_zmax_from (x : Z) (l : list Z) : Z := fold_left Z.max l x.

(* ---------- strings of numbers ---------- *)
Definition px_lower_char (c : Z) : Z := if (65 <=? c) && (c <=? 90) then c + 32 else c.
Definition px_lower (s : str) : str := map px_lower_char s.          (* str.lower() on ASCII *)
Definition px_E : Z := 101.                                          (* "e" *)

(* s.split("e"): None when there is no "e"; else the part before the first one and the rest *)
Fixpoint px_split_e (s : str) : option (str * str) :=
  match s with
  | [] => None
  | c :: r => if c =? px_E then Some ([], r)
              else match px_split_e r with Some (a, b) => Some (c :: a, b) | None => None end
  end.
Fixpoint px_until_e (s : str) : str :=
  match s with [] => [] | c :: r => if c =? px_E then [] else c :: px_until_e r end.

(* int(text) for an optional sign and decimal digits; None: ValueError *)
Fixpoint px_parse_nat (acc : Z) (s : str) : option Z :=
  match s with
  | [] => Some acc
  | c :: r => if (48 <=? c) && (c <=? 57) then px_parse_nat (10 * acc + (c - 48)) r else None
  end.
Definition px_parse_int (s : str) : option Z :=
  match s with
  | [] => None
  | c :: r =>
    if c =? 45 then match r with [] => None | _ => option_map Z.opp (px_parse_nat 0 r) end
    else if c =? 43 then match r with [] => None | _ => px_parse_nat 0 r end
    else px_parse_nat 0 s
  end.

(* does str(x) of a float use exponent notation?  repr: exponent < -4 or >= 16 *)
Definition px_float_has_e (x : Q) : bool :=
  negb (Qeq_bool x 0) &&
  (px_qlt (px_qabs x) (1 # 10000) || Qle_bool (inject_Z 10000000000000000) (px_qabs x)).

(* fl(a / b) >= 10000 for doubles a, b > 0  <->  a / b >= 10000 - 2^-40: the doubles next to 10000 are
   2^-39 apart, 10000 has an even significand, so the quotients that round to >= 10000 are exactly
   those from the midpoint 10000 - 2^-40 on *)
Definition px_RATIO : Q := (10000 - (1 # 1099511627776))%Q.

Section PostOracles.
Variable num : str -> option Q.
Variable lg : Q -> Q.
Variable md : Z -> Z -> Q.
Variable mz : Z -> Z -> Z -> Q.
Variable rp : Q -> Q * Z.
Variable sfx : Q -> Q -> Q -> Q -> str.          (* bin size, min and max of the column, this row's mass_diff *)

(* ---------- the frame before _log_features ---------- *)
(* keys of one record, in dict insertion order *)
Definition px_row_keys (p : px_psm) : list str :=
  px_META9
  ++ (match p_mc p with Some _ => [px_N_MC] | None => [] end)
  ++ (match p_ntt p with Some _ => [px_N_NTT] | None => [] end)
  ++ (match p_nmp p with Some _ => [px_N_NMP] | None => [] end)
  ++ map fst (p_scores p).

(* DataFrame.from_records per file, pd.concat over the files *)
Definition px_parsed_names (rows : list px_psm) : list str := px_dedup_from [] (flat_map px_row_keys rows).

(* psms["mass_diff"] *)
Definition px_md_of (p : px_psm) : Q := md (p_exp p) (p_calc p).

(* the peptide column: with a bin size, "[" + centre of the bin of this row's mass_diff + "]" is appended *)
Definition px_pep_out (bin : option Q) (lo hi : Q) (p : px_psm) : str :=
  match bin with
  | None => p_peptide p
  | Some b => p_peptide p ++ px_tag (sfx b lo hi (px_md_of p))
  end.

(* an optional integer attribute: int64 when every record has it, else float64 with NaN *)
Definition px_optint_col (name : str) (vals : list (option Z)) : px_pre :=
  if forallb (fun o => match o with Some _ => true | None => false end) vals
  then {| pc_name := name; pc_kind := KInt;
          pc_cells := map (fun o => match o with Some z => CInt z | None => CNaN end) vals |}
  else {| pc_name := name; pc_kind := KFloat;
          pc_cells := map (fun o => match o with Some z => CNum (inject_Z z) | None => CNaN end) vals |}.

(* psms["num_matched_peptides"] = np.log10(psms["num_matched_peptides"]) *)
Definition px_nmp_cell (o : option Z) : px_cell :=
  match o with
  | None => CNaN
  | Some z => if 0 <? z then CNum (lg (inject_Z z)) else if z =? 0 then CNegInf else CNaN
  end.

Definition px_score_cell (name : str) (p : px_psm) : px_cell :=
  match px_assoc name (p_scores p) with Some t => CText t | None => CNaN end.

Definition px_parsed_col (bin : option Q) (lo hi : Q) (rows : list px_psm) (name : str) : px_pre :=
  let mk k f := {| pc_name := name; pc_kind := k; pc_cells := map f rows |} in
  if str_eqb name px_N_FILE then mk KText (fun p => CText (p_file p))
  else if str_eqb name px_N_SCAN then mk KInt (fun p => CInt (p_scan p))
  else if str_eqb name px_N_CHARGE then mk KInt (fun p => CInt (p_charge p))
  else if str_eqb name px_N_RT then mk KFloat (fun p => CAttr (p_rt p))
  else if str_eqb name px_N_EXP then mk KFloat (fun p => CAttr (p_exp p))
  else if str_eqb name px_N_CALC then mk KFloat (fun p => CAttr (p_calc p))
  else if str_eqb name px_N_PEPTIDE then mk KText (fun p => CText (px_pep_out bin lo hi p))
  else if str_eqb name px_N_PROTEINS then mk KText (fun p => CText (px_join_tab (p_proteins p)))
  else if str_eqb name px_N_LABEL then mk KBool (fun p => CBool (p_label p))
  else if str_eqb name px_N_MC then px_optint_col name (map p_mc rows)
  else if str_eqb name px_N_NTT then px_optint_col name (map p_ntt rows)
  else if str_eqb name px_N_NMP then mk KFloat (fun p => px_nmp_cell (p_nmp p))
  else mk KText (px_score_cell name).

(* exp_mz - calc_mz; a charge of 0 gives inf - inf = NaN (masses of one sign) *)
Definition px_mz_cell (p : px_psm) : px_cell :=
  if p_charge p =? 0 then CNaN else CNum (mz (p_exp p) (p_calc p) (p_charge p)).

(* pd.get_dummies(psms["charge"], prefix="charge") *)
Definition px_charge_col (rows : list px_psm) (c : Z) : px_pre :=
  {| pc_name := px_charge_name c; pc_kind := KBool; pc_cells := map (fun p => CBool (p_charge p =? c)) rows |}.

Definition px_frame (bin : option Q) (rows : list px_psm) : list px_pre :=
  match rows with
  | [] => []
  | r0 :: rest =>
    let lo := px_qmin_from (px_md_of r0) (map px_md_of rest) in
    let hi := px_qmax_from (px_md_of r0) (map px_md_of rest) in
    map (px_parsed_col bin lo hi rows) (px_parsed_names rows)
    ++ [ {| pc_name := px_N_MDIFF; pc_kind := KFloat; pc_cells := map (fun p => CNum (px_md_of p)) rows |};
         {| pc_name := px_N_MZDIFF; pc_kind := KFloat; pc_cells := map px_mz_cell rows |} ]
    ++ map (px_charge_col rows) (px_charges rows)
  end.

(* ---------- feat_cols ---------- *)
Definition px_is_feature (excl : list str) (name : str) : bool :=
  negb (mem_str name px_META9) && negb (mem_str name excl).

(* ---------- _log_features ---------- *)
(* what the function sees of one cell after col.astype(str).str.lower(): the value, whether the text
   contains "e", and the two halves of split("e") (None: they cannot be converted) *)
Inductive px_nv : Type :=
| NVnan
| NVneginf
| NVval (e : bool) (v : Q) (parts : option (Q * Z)).

Definition px_view (c : px_cell) : result px_nv :=
  match c with
  | CNaN => Ok NVnan
  | CNegInf => Ok NVneginf
  | CInt z => Ok (NVval false (inject_Z z) (Some (inject_Z z, 0)))
  | CNum x => if px_float_has_e x then Ok (NVval true x (Some (rp x))) else Ok (NVval false x (Some (x, 0)))
  | CText t =>
    let l := px_lower t in
    match num l with
    | None => Err EValue                                       (* could not convert string to float *)
    | Some v =>
      match px_split_e l with
      | None => Ok (NVval false v (Some (v, 0)))
      | Some (a, b) =>
        match num a, px_parse_int (px_until_e b) with
        | Some r, Some p => Ok (NVval true v (Some (r, p)))
        | _, _ => Ok (NVval true v None)
        end
      end
    end
  | CBool _ => Err EType       (* not reached: bool columns take the dtype branch, *)
  | CAttr _ => Err EType       (* attribute columns are never features              *)
  end.

Definition px_nv_e (n : px_nv) : bool := match n with NVval e _ _ => e | _ => false end.
Definition px_nv_pos (n : px_nv) : bool := match n with NVval _ v _ => px_qlt 0 v | _ => false end.
Definition px_nv_parts (n : px_nv) : result (Q * Z) :=
  match n with NVval _ _ (Some rp') => Ok rp' | _ => Err EValue end.
Definition px_nv_id (n : px_nv) : px_cell :=
  match n with NVnan => CNaN | NVneginf => CNegInf | NVval _ v _ => CNum v end.

(* col.str.contains("e").any() and (col.astype(float) > 0).all() *)
Definition px_sci_cond (vs : list px_nv) : bool := existsb px_nv_e vs && forallb px_nv_pos vs.

(* the exponent-notation branch: root == 0 -> root 1, the smallest power of the others *)
Definition px_sci_branch (vs : list px_nv) : result (bool * list px_cell) :=
  bind (px_mapM px_nv_parts vs) (fun rps =>
  let nzp := map snd (filter (fun x => negb (Qeq_bool (fst x) 0)) rps) in
  let fixed : result (list (Q * Z)) :=
    if forallb (fun x => negb (Qeq_bool (fst x) 0)) rps then Ok rps
    else match nzp with
         | [] => Err EValue                                    (* min() of nothing: NaN into an int column *)
         | p0 :: pr => let m := px_zmin_from p0 pr in
                       Ok (map (fun x => if Qeq_bool (fst x) 0 then (1%Q, m) else x) rps)
         end in
  bind fixed (fun rps' =>
  match map snd rps' with
  | [] => Ok (false, map px_nv_id vs)
  | p0 :: pr =>
    if 4 <=? Z.abs (px_zmax_from p0 pr - px_zmin_from p0 pr)
    then Ok (true, map (fun x => CNum (lg (fst x) + inject_Z (snd x))%Q) rps')
    else Ok (false, map px_nv_id vs)
  end)).

Definition px_present (vs : list px_nv) : list Q :=
  flat_map (fun n => match n with NVval _ v _ => [v] | _ => [] end) vs.
Definition px_nv_binary (n : px_nv) : bool :=
  match n with NVval _ v _ => Qeq_bool v 0 || Qeq_bool v 1 | _ => false end.

(* col.min() >= 0 and not binary and col.max() / col[col != 0].min() >= 10000 *)
Definition px_plain_cond (vs : list px_nv) : bool :=
  let pres := px_present vs in
  let nz := filter (fun v => negb (Qeq_bool v 0)) pres in
  negb (existsb (fun n => match n with NVneginf => true | _ => false end) vs)
  && forallb (Qle_bool 0) pres
  && negb (forallb px_nv_binary vs)
  && match pres, nz with
     | x :: r, y :: s => Qle_bool (px_RATIO * px_qmin_from y s)%Q (px_qmax_from x r)
     | _, _ => false
     end.

Definition px_plain_branch (vs : list px_nv) : bool * list px_cell :=
  if px_plain_cond vs then
    let logs := map lg (filter (fun v => negb (Qeq_bool v 0)) (px_present vs)) in
    match logs with
    | [] => (false, map px_nv_id vs)                           (* excluded by px_plain_cond *)
    | l0 :: lr =>
      let low := (px_qmin_from l0 lr - 1)%Q in
      (true, map (fun n => match n with
                           | NVval _ v _ => if Qeq_bool v 0 then CNum low else CNum (lg v)
                           | other => px_nv_id other
                           end) vs)
    end
  else (false, map px_nv_id vs).

Definition px_transform (vs : list px_nv) : result (bool * list px_cell) :=
  if px_sci_cond vs then px_sci_branch vs else Ok (px_plain_branch vs).

Definition px_bool_to_num (c : px_cell) : px_cell :=
  match c with CBool b => CNum (if b then 1 else 0) | other => other end.

Definition px_log_features (excl : list str) (c : px_pre) : result px_col :=
  if px_is_feature excl (pc_name c) then
    match pc_kind c with
    | KBool => Ok {| c_name := pc_name c; c_kind := KFloat; c_role := RFeature; c_logged := false;
                     c_cells := map px_bool_to_num (pc_cells c) |}
    | _ => bind (px_mapM px_view (pc_cells c)) (fun vs =>
           bind (px_transform vs) (fun lc =>
           Ok {| c_name := pc_name c; c_kind := KFloat; c_role := RFeature; c_logged := fst lc;
                 c_cells := snd lc |}))
    end
  else Ok {| c_name := pc_name c; c_kind := pc_kind c; c_role := RMeta; c_logged := false;
             c_cells := pc_cells c |}.

(* ---------- LinearPsmDataset(...) ---------- *)
Definition px_feature_names (cols : list px_col) : list str :=
  map c_name (filter (fun c => match c_role c with RFeature => true | RMeta => false end) cols).

Definition px_dataset_roles (cols : list px_col) : px_roles :=
  {| ro_target := px_N_LABEL; ro_spectrum := [px_N_FILE; px_N_SCAN; px_N_RT]; ro_peptide := px_N_PEPTIDE;
     ro_protein := px_N_PROTEINS; ro_features := px_feature_names cols; ro_filename := px_N_FILE;
     ro_scan := px_N_SCAN; ro_calcmass := px_N_CALC; ro_expmass := px_N_EXP; ro_rt := px_N_RT;
     ro_charge := px_N_CHARGE |}.

(* ---------- read_pepxml after pd.concat and the Percolator check ---------- *)
Definition px_table (excl : list str) (bin : option Q) (to_df : bool) (rows : list px_psm) : result px_out :=
  bind (px_mapM (px_log_features excl) (px_frame bin rows)) (fun cols =>
  if to_df then Ok {| o_cols := cols; o_roles := None |}
  else if negb (existsb p_label rows) then Err EValue          (* No target PSMs were detected. *)
  else if forallb p_label rows then Err EValue                 (* No decoy PSMs were detected. *)
  else Ok {| o_cols := cols; o_roles := Some (px_dataset_roles cols) |}).

(* read_pepxml(files, decoy_prefix, exclude_features, open_modification_bin_size, to_df) *)
Definition px_read_table (prefix : str) (files : list px_file) (excl : list str) (bin : option Q) (to_df : bool)
  : result (list px_psm * px_out) :=
  bind (px_read prefix files) (fun rows =>
  bind (px_table excl bin to_df rows) (fun t => Ok (rows, t))).

End PostOracles.
