(* Peps.v — model of mokapot's own post-processing around the PEP / q-value fits (C06).
   Definitions only.

   The numerical fits are ORACLES whose recorded outputs are passed in as data:
     fs    : triqler's spline  factor * exp(splineEval(...))  at the scores in descending order
     d     : the solution vector of scipy.optimize.nnls (monotonize_nnls / fit_nnls)
     grid  : the xp argument of np.interp (KDE evaluation points / histogram bin centres)
     pi0   : estimate_pi0_by_slope (np.polyfit)
     srt   : the rows after  ind = np.argsort(-scores)  (order among ties is numpy's business)
     peps  : the PEPs that qvalues_from_peps obtains from peps_from_scores_hist_nnls
   What is modelled is what mokapot (and triqler's monotonize) does with them: sorting and
   un-sorting, running maximum / minimum, clipping, cumulative sums, np.interp, cumulative
   count ratios.

   Numbers: scores and grid points are exact integers (every float is m * 2^e; the harness
   multiplies all scores and grid points of one case by the same power of two, which
   preserves order, ties and the interpolation weights (x - x0) / (x1 - x0) exactly);
   fitted values, PEPs and q-values are exact rationals. *)
From Mokaverif Require Import Model.Base.
Open Scope Q_scope.

(* ---------- np.maximum / np.minimum / np.clip ---------- *)
Definition pep_qmax (a b : Q) : Q := if Qle_bool a b then b else a.
Definition pep_qmin (a b : Q) : Q := if Qle_bool a b then a else b.
Definition pep_clip01 (x : Q) : Q := pep_qmin (pep_qmax x 0) 1.       (* np.clip(x, 0, 1) *)

(* ---------- np.maximum.accumulate / np.minimum.accumulate (peps.monotonize_simple) ---------- *)
Fixpoint pep_accum (f : Q -> Q -> Q) (m : Q) (l : list Q) : list Q :=
  match l with
  | [] => []
  | x :: r => let a := f m x in a :: pep_accum f a r
  end.

Definition pep_monotonize_simple (ascending : bool) (l : list Q) : list Q :=
  match l with
  | [] => []
  | x :: r => x :: pep_accum (if ascending then pep_qmax else pep_qmin) x r
  end.

(* triqler.qvality.monotonize: np.minimum(1.0, np.maximum.accumulate(peps)) *)
Definition pep_qvality_monotonize (l : list Q) : list Q :=
  map (pep_qmin 1) (pep_monotonize_simple true l).

(* ---------- np.cumsum (kept reduced so that the numbers stay small) ---------- *)
Fixpoint pep_cumsum_from (acc : Q) (l : list Q) : list Q :=
  match l with
  | [] => []
  | x :: r => let a := Qred (acc + x) in a :: pep_cumsum_from a r
  end.
Definition pep_cumsum (l : list Q) : list Q := pep_cumsum_from 0 l.

(* ---------- np.interp(x, xp, fp) ----------
   numpy: x < xp[0] -> fp[0]; x > xp[-1] -> fp[-1]; otherwise j = the last index with
   xp[j] <= x (binary search); j = len-1 or xp[j] == x -> fp[j]; else
   fp[j] + (fp[j+1]-fp[j]) / (xp[j+1]-xp[j]) * (x - xp[j]).
   The scan below finds the same j when xp is non-decreasing (numpy's precondition). *)
Definition pep_lin (x x0 x1 : Z) (y0 y1 : Q) : Q :=
  y0 + (y1 - y0) * ((x - x0) # Z.to_pos (x1 - x0)).

Fixpoint pep_interp_go (x x0 : Z) (y0 : Q) (rest : list (Z * Q)) : Q :=
  match rest with
  | [] => y0
  | (x1, y1) :: r =>
      if (x1 <=? x)%Z then pep_interp_go x x1 y1 r
      else if (x0 =? x)%Z then y0
      else pep_lin x x0 x1 y0 y1
  end.

Definition pep_interp_at (p0 : Z * Q) (rest : list (Z * Q)) (x : Z) : Q :=
  if (x <? fst p0)%Z then snd p0 else pep_interp_go x (fst p0) (snd p0) rest.

(* ValueError: "fp and xp are not of the same length" / "array of sample points is empty" *)
Definition pep_interp_all (xp : list Z) (fp : list Q) (xs : list Z) : result (list Q) :=
  if negb (Nat.eqb (length xp) (length fp)) then Err EValue
  else match combine xp fp with
       | [] => Err EValue
       | p0 :: rest => Ok (map (pep_interp_at p0 rest) xs)
       end.

(* ---------- stable insertion sort on integer keys (np.argsort(..., kind="stable")) ---------- *)
Fixpoint pep_insert {A : Type} (x : Z * A) (l : list (Z * A)) : list (Z * A) :=
  match l with
  | [] => [x]
  | y :: t => if (fst x <=? fst y)%Z then x :: l else y :: pep_insert x t
  end.
Definition pep_sort {A : Type} (l : list (Z * A)) : list (Z * A) := fold_right pep_insert [] l.

Fixpoint pep_zseq (start : Z) (n : nat) : list Z :=
  match n with O => [] | S k => start :: pep_zseq (start + 1)%Z k end.

(* out = empty; out[idx] = vals   (idx a permutation of 0..n-1) *)
Definition pep_scatter (idx : list Z) (vals : list Q) : list Q :=
  map snd (pep_sort (combine idx vals)).

Definition pep_same_length {A B : Type} (a : list A) (b : list B) : bool :=
  Nat.eqb (length a) (length b).

(* ---------- peps_from_scores(..., "qvality") ----------
   triqler returns  monotonize(fs)  for the scores in descending order; the (repaired)
   wrapper puts the values back:  out[np.argsort(-scores, kind="stable")] = peps. *)
Definition pep_qvality_sorted_order (fs : list Q) : list Q := pep_qvality_monotonize fs.

Definition pep_desc_order (scores : list Z) : list (Z * Z) :=
  pep_sort (combine (map Z.opp scores) (pep_zseq 0 (length scores))).

Definition pep_qvality (scores : list Z) (targets : list bool) (fs : list Q) : result (list Q) :=
  if negb (pep_same_length scores targets) then Err EIndex      (* scores[targets] *)
  else if negb (pep_same_length scores fs) then Err EValue      (* out[ind] = peps: shape mismatch *)
  else Ok (pep_scatter (map snd (pep_desc_order scores)) (pep_qvality_sorted_order fs)).

(* ---------- peps_from_scores(..., "kde_nnls" / "hist_nnls") ----------
   monotonize_nnls(..., ascending=False) / fit_nnls(..., ascending=False):
   np.cumsum(d) of the reversed problem, reversed again. *)
Definition pep_est (d : list Q) : list Q := rev (pep_cumsum d).

(* if scale_to_one and pep_est[0] < 1: pep_est = pep_est / pep_est[0]
   (0/0 gives NaN in the implementation: reported here as Err EValue) *)
Definition pep_scale_to_one (est : list Q) : result (list Q) :=
  match est with
  | [] => Err EIndex
  | e0 :: _ =>
      if Qle_bool 1 e0 then Ok est
      else if Qeq_bool e0 0 then Err EValue
      else Ok (map (fun e => Qred (e / e0)) est)
  end.

(* np.clip(np.interp(scores, eval_scores, pep_est), 0, 1) *)
Definition pep_nnls_peps (scale : bool) (scores : list Z) (targets : list bool)
                         (grid : list Z) (d : list Q) : result (list Q) :=
  if negb (pep_same_length scores targets) then Err EIndex
  else
    bind (if scale then pep_scale_to_one (pep_est d) else Ok (pep_est d)) (fun est =>
    bind (pep_interp_all grid est scores) (fun ps =>
    Ok (map pep_clip01 ps))).

(* ---------- qvalues_from_counts ----------
   fdr = pi0 * (#T / #D) * cumsum(decoy) / cumsum(target) along the descending order,
   running maximum, interpolation back to the scores.  When the best-scoring row is a decoy
   the first ratio is x/0 = +inf and the running maximum makes every value +inf. *)
Inductive pep_qout : Type :=
| PepFinite (qs : list Q)
| PepAllInf (n : nat).

Definition pep_ntrue (l : list bool) : Z := Z.of_nat (length (filter (fun b => b) l)).
Definition pep_nfalse (l : list bool) : Z := Z.of_nat (length (filter negb l)).

Fixpoint pep_count_fdr (c : Q) (ct cd : Z) (l : list (Z * bool)) : list Q :=
  match l with
  | [] => []
  | (_, t) :: r =>
      let ct' := if t then (ct + 1)%Z else ct in
      let cd' := if t then cd else (cd + 1)%Z in
      (c * (cd' # Z.to_pos ct')) :: pep_count_fdr c ct' cd' r
  end.

Definition pep_qvalues_from_counts (scores : list Z) (targets : list bool)
                                   (srt : list (Z * bool)) (pi0 : Q) : result pep_qout :=
  if negb (pep_same_length scores targets) then Err EIndex
  else if (pep_ntrue targets =? 0)%Z || (pep_nfalse targets =? 0)%Z then Err EValue   (* no fit: outside the domain *)
  else
    let c := pi0 * (pep_ntrue targets # Z.to_pos (pep_nfalse targets)) in
    match srt with
    | (_, false) :: _ => Ok (PepAllInf (length scores))
    | _ =>
        let qs := pep_monotonize_simple true (pep_count_fdr c 0 0 srt) in
        bind (pep_interp_all (rev (map fst srt)) (rev qs) scores) (fun r => Ok (PepFinite r))
    end.

(* ---------- qvalues_from_peps ----------
   target rows in descending order; fdr_k = (pep_1 + ... + pep_k) / k; running maximum;
   interpolation back to the scores of all rows. *)
Fixpoint pep_div_by_index (k : Z) (l : list Q) : list Q :=
  match l with
  | [] => []
  | x :: r => (x * (1 # Z.to_pos k)) :: pep_div_by_index (k + 1)%Z r
  end.

Definition pep_qvalues_from_peps (scores : list Z) (targets : list bool)
                                 (srt : list (Z * (bool * Q))) : result (list Q) :=
  if negb (pep_same_length scores targets) then Err EIndex
  else
    let tg := filter (fun r => fst (snd r)) srt in
    let fdr := pep_div_by_index 1 (pep_cumsum (map (fun r => snd (snd r)) tg)) in
    let qs := pep_monotonize_simple true fdr in
    pep_interp_all (rev (map fst tg)) (rev qs) scores.
