(* Digest.v — model of mokapot/parsers/fasta.py: digest, _cleavage_sites, _cleave (C17).
   Definitions only.  The peptide *set* of the Python code is modelled as a list (order and
   multiplicity are irrelevant: theorems speak about membership, the harness compares sorted sets). *)
From Mokaverif Require Import Model.Base.
Open Scope nat_scope.

Section Digest.
Variable A : Type.
Variable isM : A -> bool.          (* peptide.startswith("M") *)

(* the semi loop of _cleave:
     for idx in range(1, len(peptide)):
         sub = len(peptide) - idx
         if sub < min_length: break
         if sub > max_length: continue
         peptides |= {peptide[idx:], peptide[:-idx]}
   [idx] is the current index, [todo] the number of remaining iterations *)
Fixpoint dg_semi_loop (p : list A) (minl maxl : nat) (idx : nat) (todo : nat) : list (list A) :=
  match todo with
  | O => []
  | S t =>
    let sub := (length p - idx)%nat in
    if (sub <? minl)%nat then []
    else if (maxl <? sub)%nat then dg_semi_loop p minl maxl (S idx) t
    else skipn idx p :: firstn sub p :: dg_semi_loop p minl maxl (S idx) t
  end.

Definition dg_starts_with_M (p : list A) : bool :=
  match p with x :: _ => isM x | [] => false end.

(* body of the inner loop for one (start_idx, start_site, end_idx) *)
Definition dg_one (s : list A) (sites : list nat) (minl maxl : nat) (semi clip : bool)
                  (start_idx start_site end_idx : nat) : list (list A) :=
  match nth_error sites end_idx with
  | None => []                                        (* end_idx >= len(sites): continue *)
  | Some end_site =>
    let p := pyslice s start_site end_site in
    if ((length p <? minl) || (maxl <? length p))%nat then []       (* continue *)
    else
      p ::
      (if clip && Nat.eqb start_idx 0 && dg_starts_with_M p && (minl <=? length (tl p))%nat
       then [tl p] else []) ++
      (if semi then dg_semi_loop p minl maxl 1 (length p - 1) else [])
  end.

(* _cleave: for start_idx, start_site in enumerate(sites): for diff_idx in range(1, mc + 2) *)
Definition dg_cleave (s : list A) (sites : list nat) (mc minl maxl : nat) (semi clip : bool)
  : list (list A) :=
  flat_map (fun si =>
              flat_map (fun d => dg_one s sites minl maxl semi clip (fst si) (snd si) (fst si + d))
                       (seq 1 (mc + 1)))
           (combine (seq 0 (length sites)) sites).

(* _cleavage_sites: [0] + [m.end() for m in finditer] + [len(sequence)] *)
Definition dg_sites_of_ends (s : list A) (ends : list nat) : list nat :=
  0%nat :: ends ++ [length s].

(* match ends of a residue-class enzyme with an optional one-residue negative look-ahead:
   "[KR]" (nofollow = nothing) or "[KR](?!P)" *)
Fixpoint dg_class_ends (cls nofollow : A -> bool) (s : list A) (i : nat) : list nat :=
  match s with
  | [] => []
  | x :: r =>
    (if cls x && negb (match r with y :: _ => nofollow y | [] => false end) then [S i] else [])
    ++ dg_class_ends cls nofollow r (S i)
  end.

Definition dg_sites_class (cls nofollow : A -> bool) (s : list A) : list nat :=
  dg_sites_of_ends s (dg_class_ends cls nofollow s 0).
End Digest.

(* ---------- entry points on character codes ---------- *)
Open Scope Z_scope.

Definition dg_isM (c : Z) : bool := c =? 77.          (* "M" *)

Fixpoint dg_memz (c : Z) (l : list Z) : bool :=
  match l with [] => false | x :: r => (c =? x) || dg_memz c r end.

(* Python ints for missed_cleavages / min_length / max_length:
   range(1, mc + 2) is empty for mc < 0; len(p) > max_length always holds for max_length < 0;
   len(p) < min_length never holds for min_length <= 0 *)
Definition dg_cleave_z (s : str) (sites : list nat) (mc minl maxl : Z) (semi clip : bool) : list str :=
  if (mc <? 0) || (maxl <? 0) then []
  else dg_cleave Z dg_isM s sites (Z.to_nat mc) (Z.to_nat minl) (Z.to_nat maxl) semi clip.

(* digest with the regex match ends recorded from the real engine *)
Definition dg_digest_ends (s : str) (ends : list nat) (mc minl maxl : Z) (semi clip : bool) : list str :=
  dg_cleave_z s (dg_sites_of_ends Z s ends) mc minl maxl semi clip.

(* digest for "[cls]" / "[cls](?![nofollow])" with the sites computed by the model *)
Definition dg_digest_class (cls nofollow : list Z) (s : str) (mc minl maxl : Z) (semi clip : bool)
  : list str :=
  dg_cleave_z s (dg_sites_class Z (fun c => dg_memz c cls) (fun c => dg_memz c nofollow) s)
              mc minl maxl semi clip.

Definition dg_class_sites (cls nofollow : list Z) (s : str) : list nat :=
  dg_sites_class Z (fun c => dg_memz c cls) (fun c => dg_memz c nofollow) s.
