(* Confidence.v — model of mokapot.confidence.assign_confidence's row bookkeeping (C03, C05):
   chunk -> sort -> per-chunk de-duplication -> k-way merge -> level loop (first seen wins)
   -> q-values per level -> target / decoy outputs.  Definitions only.
   The generic part is a Section over an abstract row type (as Model/Merge.v). *)
From Mokaverif Require Import Model.Base Model.Tdc Model.PinCols Model.Merge.
Open Scope Z_scope.

Fixpoint cf_memz (z : Z) (l : list Z) : bool :=
  match l with [] => false | x :: r => (x =? z) || cf_memz z r end.

Fixpoint cf_replace_nth {A} (i : nat) (v : A) (l : list A) : list A :=
  match l, i with
  | [], _ => []
  | _ :: t, O => v :: t
  | x :: t, S j => x :: cf_replace_nth j v t
  end.

Section Conf.
Variable row : Type.
Variable score : row -> Z.
Variable lkey : nat -> row -> Z.        (* level 0: spectrum key; level i>0: i-th rollup level key *)

(* DataFrame.sort_values(by="score", ascending=False) (order among ties: see Proofs) *)
Fixpoint cf_insert (x : row) (l : list row) : list row :=
  match l with
  | [] => [x]
  | y :: t => if score y <? score x then x :: l else y :: cf_insert x t
  end.
Definition cf_sort_desc (l : list row) : list row := fold_right cf_insert [] (rev l).

(* DataFrame.drop_duplicates(keys), keep="first" *)
Fixpoint cf_dedup_aux (seen : list Z) (l : list row) : list row :=
  match l with
  | [] => []
  | x :: r => if cf_memz (lkey 0 x) seen then cf_dedup_aux seen r
              else x :: cf_dedup_aux (lkey 0 x :: seen) r
  end.
Definition cf_dedup (l : list row) : list row := cf_dedup_aux [] l.

(* _save_sorted_metadata_chunks for every chunk of CONFIDENCE_CHUNK_SIZE rows *)
Definition cf_chunk_files (c : nat) (chunk_dedup : bool) (rows : list row) : list (list row) :=
  map (fun ch => let s := cf_sort_desc ch in if chunk_dedup then cf_dedup s else s) (pc_chunks c rows).

(* utils.merge_sort over the chunk files *)
Definition cf_stream (c : nat) (chunk_dedup : bool) (rows : list row) : list row :=
  mg_merge_all score (cf_chunk_files c chunk_dedup rows).

(* the level loop of assign_confidence for one row: levels lv, lv+1, ... *)
Fixpoint cf_levels_step (dedup : bool) (r : row) (lv : nat) (todo : nat)
         (seen : list (list Z)) (out : list (list row)) : list (list Z) * list (list row) :=
  match todo with
  | O => (seen, out)
  | S todo' =>
    let s := nth lv seen [] in
    let o := nth lv out [] in
    if (negb (Nat.eqb lv 0) || dedup)%bool then
      if cf_memz (lkey lv r) s then
        if Nat.eqb lv 0 then (seen, out)                                   (* break *)
        else cf_levels_step dedup r (S lv) todo' seen out                  (* continue *)
      else cf_levels_step dedup r (S lv) todo'
             (cf_replace_nth lv (lkey lv r :: s) seen) (cf_replace_nth lv (o ++ [r]) out)
    else cf_levels_step dedup r (S lv) todo' seen (cf_replace_nth lv (o ++ [r]) out)
  end.

Definition cf_levels_run (dedup : bool) (nlevels : nat) (stream : list row) : list (list row) :=
  snd (fold_left (fun acc r => cf_levels_step dedup r 0 nlevels (fst acc) (snd acc)) stream
                 (repeat [] nlevels, repeat [] nlevels)).

(* level files of one collection *)
Definition cf_levels (c : nat) (chunk_dedup dedup : bool) (nlevels : nat) (rows : list row)
  : list (list row) :=
  cf_levels_run dedup nlevels (cf_stream c chunk_dedup rows).
End Conf.

(* ---------- concrete rows ---------- *)
Record cf_row := { cf_id : Z; cf_spec : Z; cf_keys : list Z; cf_target : bool; cf_score : Z }.
Definition cf_lkey (lv : nat) (r : cf_row) : Z :=
  match lv with O => cf_spec r | S i => nth i (cf_keys r) 0 end.

(* q-values of a level file: tdc(desc=True) on exactly its rows *)
Definition cf_qvalues (rows : list cf_row) : list Q :=
  tdc_core true (map cf_score rows) (map cf_target rows).

(* one collection: per level the rows with their q-values, split into targets and decoys.
   After the fix of F5 the per-chunk de-duplication flag is the de-duplication flag. *)
Definition cf_confidence (c : nat) (dedup : bool) (nlevels : nat) (rows : list cf_row)
  : list (list (cf_row * Q) * list (cf_row * Q)) :=
  map (fun lvl => let rq := combine lvl (cf_qvalues lvl) in
                  (filter (fun p => cf_target (fst p)) rq, filter (fun p => negb (cf_target (fst p))) rq))
      (cf_levels cf_row cf_score cf_lkey c dedup dedup nlevels rows).
