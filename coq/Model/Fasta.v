(* Fasta.v — model of the FASTA reader and writer in mokapot/parsers/fasta.py (C18):
   _parse_fasta_files, _parse_protein and the writing half of make_decoys.  Definitions only. *)
From Mokaverif Require Import Model.Base.
Open Scope Z_scope.

Definition fa_NL : Z := 10.
Definition fa_CR : Z := 13.
Definition fa_GT : Z := 62.      (* '>' *)
Definition fa_SP : Z := 32.
Definition fa_TAB : Z := 9.

(* open(path) in text mode with newline=None: "\r\n" and a lone "\r" are delivered as "\n" *)
Fixpoint fa_universal_nl (s : str) : str :=
  match s with
  | [] => []
  | c :: r =>
    if c =? fa_CR then
      match r with
      | d :: r' => if d =? fa_NL then fa_NL :: fa_universal_nl r' else fa_NL :: fa_universal_nl r
      | [] => [fa_NL]
      end
    else c :: fa_universal_nl r
  end.

(* "\n".join(parts) *)
Fixpoint fa_join_nl (l : list str) : str :=
  match l with
  | [] => []
  | [x] => x
  | x :: r => x ++ fa_NL :: fa_join_nl r
  end.

(* text.split("\n>") *)
Fixpoint fa_split_aux (cur : str) (s : str) : list str :=
  match s with
  | [] => [rev cur]
  | c :: r =>
    if c =? fa_NL then
      match r with
      | d :: r' => if d =? fa_GT then rev cur :: fa_split_aux [] r' else fa_split_aux (c :: cur) r
      | [] => fa_split_aux (c :: cur) r
      end
    else fa_split_aux (c :: cur) r
  end.
Definition fa_split_recs (s : str) : list str := fa_split_aux [] s.

(* the line boundaries of str.splitlines():
   \n \v \f \r  FS GS RS  NEL  LINE SEPARATOR  PARAGRAPH SEPARATOR  (and \r\n as one) *)
Definition fa_is_lb (c : Z) : bool :=
  ((10 <=? c) && (c <=? 13)) || ((28 <=? c) && (c <=? 30)) || (c =? 133) || (c =? 8232) || (c =? 8233).

Fixpoint fa_splitlines_aux (cur : str) (s : str) : list str :=
  match s with
  | [] => match cur with [] => [] | _ => [rev cur] end
  | c :: r =>
    if fa_is_lb c then
      if c =? fa_CR then
        match r with
        | d :: r' => if d =? fa_NL then rev cur :: fa_splitlines_aux [] r'
                     else rev cur :: fa_splitlines_aux [] r
        | [] => [rev cur]
        end
      else rev cur :: fa_splitlines_aux [] r
    else fa_splitlines_aux (c :: cur) r
  end.
Definition fa_splitlines (s : str) : list str := fa_splitlines_aux [] s.

(* s.split(sep)[0] for a one-character separator *)
Fixpoint fa_upto (sep : Z) (s : str) : str :=
  match s with
  | [] => []
  | c :: r => if c =? sep then [] else c :: fa_upto sep r
  end.

(* _parse_protein: entry[0] raises IndexError on an empty record; "".join(entry[1:]) is ""
   when there is only the header line (the len(entry) == 1 branch only adds a log message) *)
Definition fa_parse_protein (raw : str) : result (str * str) :=
  match fa_splitlines raw with
  | [] => Err EIndex
  | h :: rest => Ok (fa_upto fa_SP h, concat rest)
  end.

Fixpoint fa_parse_all (recs : list str) : result (list (str * str)) :=
  match recs with
  | [] => Ok []
  | r :: rs => bind (fa_parse_protein r) (fun e => bind (fa_parse_all rs) (fun es => Ok (e :: es)))
  end.

(* _parse_fasta_files followed by _parse_protein on every record (as make_decoys does);
   [files] are the raw contents of the files *)
Definition fa_records (files : list str) : list str :=
  fa_split_recs (tl (fa_join_nl (map fa_universal_nl files))).
Definition fa_parse_files (files : list str) : result (list (str * str)) :=
  fa_parse_all (fa_records files).

(* the writing half of make_decoys; textwrap.wrap is the oracle [wrapf] *)
Section Writer.
  Variable wrapf : str -> list str.
  Definition fa_record (e : str * str) : str :=
    fa_GT :: fst e ++ fa_NL :: fa_join_nl (wrapf (snd e)).
  Definition fa_write (entries : list (str * str)) : str :=
    fa_join_nl (map fa_record entries).
End Writer.

(* what textwrap.wrap does on a sequence without whitespace and hyphens: chunks of [n] *)
Fixpoint fa_wrap_aux (n k : nat) (cur : str) (s : str) : list str :=
  match s with
  | [] => match cur with [] => [] | _ => [rev cur] end
  | c :: r =>
    match k with
    | O => rev cur :: fa_wrap_aux n (n - 1) [c] r
    | S k' => fa_wrap_aux n k' (c :: cur) r
    end
  end.
Definition fa_wrap70 (s : str) : list str := fa_wrap_aux 70 70 [] s.
