(* BrewDecision.v — model of the best-feature safety net of mokapot.brew and of
   OnDiskPsmDataset.find_best_feature (C07).  Definitions only. *)
From Mokaverif Require Import Model.Base Model.Tdc.
Open Scope nat_scope.

Definition bd_count_pos (labels : list Z) : nat := length (filter (fun l => (l =? 1)%Z) labels).

(* number of targets accepted at thr when ranking by scores (direction desc):
   (_update_labels(...) == 1).sum() *)
Definition bd_accepted (desc : bool) (scores : list Z) (targets : list bool) (thr : Q) : result nat :=
  match update_labels desc scores targets thr with
  | Ok labs => Ok (bd_count_pos labs)
  | Err e => Err e
  end.

(* pred_total = sum over the collections of accepted targets under the model scores *)
Fixpoint bd_pred_total (thr : Q) (files : list (list Z * list bool)) : result nat :=
  match files with
  | [] => Ok 0
  | (sc, tg) :: r =>
      match bd_accepted true sc tg thr, bd_pred_total thr r with
      | Ok a, Ok b => Ok (a + b)
      | Err e, _ => Err e
      | _, Err e => Err e
      end
  end.

(* max(enumerate(xs), key=itemgetter(1)): index and value of the FIRST maximum *)
Fixpoint bd_argmax_aux (best bi i : nat) (l : list nat) : nat * nat :=
  match l with
  | [] => (bi, best)
  | x :: r => if best <? x then bd_argmax_aux x i (S i) r else bd_argmax_aux best bi (S i) r
  end.
Definition bd_argmax (l : list nat) : nat * nat :=
  match l with [] => (0, 0) | x :: r => bd_argmax_aux x 0 1 r end.

(* models: (feat_pass, override) per fold model.
   None = keep the model scores; Some i = fall back to the best feature of model i *)
Definition bd_decide (models : list (nat * bool)) (pred_total : nat) : option nat :=
  if forallb snd models then None
  else let '(i, feat_total) := bd_argmax (map fst models) in
       if pred_total <? feat_total then Some i else None.

(* find_best_feature: for desc in (True, False): counts per feature, idxmax (first maximum),
   replace the incumbent only when strictly better; None = RuntimeError (no PSM accepted) *)
Definition bd_counts (desc : bool) (features : list (list Z)) (targets : list bool) (thr : Q) : list nat :=
  map (fun f => match bd_accepted desc f targets thr with Ok a => a | Err _ => 0 end) features.

Definition bd_best_feature (features : list (list Z)) (targets : list bool) (thr : Q)
  : option (nat * nat * bool) :=
  match features with
  | [] => None
  | _ =>
    let '(i1, c1) := bd_argmax (bd_counts true features targets thr) in
    let best1 := if 0 <? c1 then Some (i1, c1, true) else None in
    let '(i2, c2) := bd_argmax (bd_counts false features targets thr) in
    match best1 with
    | Some (_, c, _) => if c <? c2 then Some (i2, c2, false) else best1
    | None => if 0 <? c2 then Some (i2, c2, false) else None
    end
  end.
