(* Strip.v — model of mokapot.picked_protein.strip_peptides (C15).  Definitions only.
   The three regex substitutions are character-level scanners over [str]; the regex engine
   is an oracle against which the scanners are compared exhaustively by the harness.
   Strings are ASCII and contain no newline ('.' in a Python regex does not match '\n'). *)
From Mokaverif Require Import Model.Base.
Open Scope Z_scope.

Definition st_DOT : Z := 46.
Definition st_is_open (c : Z) : bool := (c =? 91) || (c =? 40).      (* '['  '(' *)
Definition st_is_close (c : Z) : bool := (c =? 93) || (c =? 41).     (* ']'  ')' *)
Definition st_is_lower (c : Z) : bool := (97 <=? c) && (c <=? 122).
Definition st_is_upper (c : Z) : bool := (65 <=? c) && (c <=? 90).

(* re.sub(r"[\[\(].*?[\]\)]", "", s): leftmost opener, shortest body up to the first closer
   (of either kind); an opener that is never closed stays, with everything after it.
   [pend] holds (reversed) the opener and the characters read since, while a closer is awaited. *)
Fixpoint st_unmod_go (pend : option str) (s : str) : str :=
  match s with
  | [] => match pend with Some p => rev p | None => [] end
  | c :: r =>
      match pend with
      | None => if st_is_open c then st_unmod_go (Some [c]) r else c :: st_unmod_go None r
      | Some p => if st_is_close c then st_unmod_go None r else st_unmod_go (Some (c :: p)) r
      end
  end.
Definition st_unmod (s : str) : str := st_unmod_go None s.

(* re.sub(r"^.*?\.", "", s): the prefix through the first '.' *)
Fixpoint st_after_dot (s : str) : option str :=
  match s with
  | [] => None
  | c :: r => if c =? st_DOT then Some r else st_after_dot r
  end.
Definition st_unprefix (s : str) : str :=
  match st_after_dot s with Some r => r | None => s end.

(* re.sub(r"\..*?$", "", s): from the first '.' to the end *)
Fixpoint st_before_dot (s : str) : str :=
  match s with
  | [] => []
  | c :: r => if c =? st_DOT then [] else c :: st_before_dot r
  end.

Definition st_core (s : str) : str := st_before_dot (st_unprefix (st_unmod s)).

(* str.islower(): at least one cased character and no upper-case one *)
Definition st_islower (s : str) : bool := existsb st_is_lower s && negb (existsb st_is_upper s).
Definition st_upper (s : str) : str := map (fun c => if st_is_lower c then c - 32 else c) s.
Definition st_drop_lower (s : str) : str := filter (fun c => negb (st_is_lower c)) s.

(* strip_peptides on a whole column: the lower-case rule looks at ALL sequences *)
Definition st_strip_all (seqs : list str) : list str :=
  let cs := map st_core seqs in
  if forallb st_islower cs then map st_upper cs else map st_drop_lower cs.
