(* Chunks.v — chunking of a row list, index ranges, column selection (C13, reused by C05).
   Definitions only.  Self-contained; every name is prefixed ch_. *)
From Mokaverif Require Import Model.Base.

(* ---------- chunking:  for pos in range(0, len(l), c): yield (pos, l[pos:pos+c]) ---------- *)
Section ChunksGen.
Context {A : Type}.

(* fuel = number of loop iterations still allowed; [length l] is enough when 1 <= c *)
Fixpoint ch_chunks_at (fuel c pos : nat) (l : list A) : list (nat * list A) :=
  match fuel with
  | O => []
  | S f => match l with
           | [] => []
           | _ :: _ => (pos, firstn c l) :: ch_chunks_at f c (pos + c) (skipn c l)
           end
  end.

Definition ch_chunks_pos (c : nat) (l : list A) : list (nat * list A) :=
  ch_chunks_at (length l) c 0 l.

(* the chunks themselves *)
Definition ch_chunks (c : nat) (l : list A) : list (list A) := map snd (ch_chunks_pos c l).

(* the row index carried by each chunk: pos .. pos+len-1 *)
Definition ch_ranges (c : nat) (l : list A) : list (list nat) :=
  map (fun p => seq (fst p) (length (snd p))) (ch_chunks_pos c l).

(* split a list into consecutive batches of the given lengths (record-batch oracle) *)
Fixpoint ch_split_by (bl : list nat) (l : list A) : list (list A) :=
  match bl with
  | [] => []
  | b :: r => firstn b l :: ch_split_by r (skipn b l)
  end.

(* ---------- column selection on one row:  df[cols]  (pandas: for each requested name
   every column carrying that name, in table order; requested order is kept) ---------- *)
Fixpoint ch_pick (c : nat) (names : list nat) (row : list A) : list A :=
  match names, row with
  | n :: ns, x :: xs => if Nat.eqb n c then x :: ch_pick c ns xs else ch_pick c ns xs
  | _, _ => []
  end.

Definition ch_select_row (names cols : list nat) (row : list A) : list A :=
  flat_map (fun c => ch_pick c names row) cols.
End ChunksGen.

Definition ch_mem (c : nat) (names : list nat) : bool := existsb (Nat.eqb c) names.

(* names of df[cols] *)
Definition ch_select_names (names cols : list nat) : list nat :=
  flat_map (fun c => filter (Nat.eqb c) names) cols.

(* every requested column exists *)
Definition ch_known (names cols : list nat) : bool := forallb (fun c => ch_mem c names) cols.

(* ---------- frames: what a reader hands out (a pandas DataFrame seen abstractly) ---------- *)
Record ch_frame := { ch_index : list nat;          (* the pandas row index *)
                     ch_names : list nat;          (* column names (ids) in order *)
                     ch_rows : list (list Z) }.    (* rows of opaque cell ids *)

(* df[cols] without the existence check *)
Definition ch_sel (cols : list nat) (f : ch_frame) : ch_frame :=
  {| ch_index := ch_index f;
     ch_names := ch_select_names (ch_names f) cols;
     ch_rows := map (ch_select_row (ch_names f) cols) (ch_rows f) |}.

(* df[cols]; a missing column raises [e] (KeyError for a DataFrame) *)
Definition ch_select (e : err) (cols : list nat) (f : ch_frame) : result ch_frame :=
  if ch_known (ch_names f) cols then Ok (ch_sel cols f) else Err e.

(* the whole table as one frame, RangeIndex 0..n-1 *)
Definition ch_whole (names : list nat) (rows : list (list Z)) : ch_frame :=
  {| ch_index := seq 0 (length rows); ch_names := names; ch_rows := rows |}.

(* the table in chunks of c rows: chunk at position pos carries index pos..pos+len-1 *)
Definition ch_frames (c : nat) (names : list nat) (rows : list (list Z)) : list ch_frame :=
  map (fun p => {| ch_index := seq (fst p) (length (snd p)); ch_names := names; ch_rows := snd p |})
      (ch_chunks_pos c rows).

(* pd.concat(frames) along the rows, seen abstractly; [names] is used when there is no frame *)
Definition ch_concat (names : list nat) (fs : list ch_frame) : ch_frame :=
  {| ch_index := flat_map ch_index fs;
     ch_names := match fs with [] => names | f :: _ => ch_names f end;
     ch_rows := flat_map ch_rows fs |}.
