(* Decoys.v — model of mokapot/parsers/fasta.py: _cleavage_sites (residue-class enzymes),
   _shuffle_proteins and make_decoys (C18).  Definitions only. *)
From Mokaverif Require Import Model.Base Model.Fasta.
Open Scope Z_scope.

(* ---------- cleavage sites ---------- *)
Definition dc_in_cls (cls : list Z) (c : Z) : bool := existsb (Z.eqb c) cls.

(* [m.end() for m in re.finditer("[<cls>]", seq)], positions counted from [i] *)
Fixpoint dc_match_ends (cls : list Z) (i : nat) (s : str) : list nat :=
  match s with
  | [] => []
  | c :: r => if dc_in_cls cls c then S i :: dc_match_ends cls (S i) r
              else dc_match_ends cls (S i) r
  end.

(* _cleavage_sites for a residue-class enzyme: [0] + ends + [len(seq)] *)
Definition dc_sites (cls : list Z) (s : str) : list nat :=
  O :: dc_match_ends cls O s ++ [length s].

(* ---------- the permutation cache of _shuffle_proteins ---------- *)
Fixpoint dc_nats_eqb (a b : list nat) : bool :=       (* np.array_equal on 1-d integer arrays *)
  match a, b with
  | [], [] => true
  | x :: r, y :: t => Nat.eqb x y && dc_nats_eqb r t
  | _, _ => false
  end.

Fixpoint dc_lookup (k : nat) (cache : list (nat * list nat)) : option (list nat) :=
  match cache with
  | [] => None
  | (k', p) :: r => if Nat.eqb k k' then Some p else dc_lookup k r
  end.

(* new_seq[i + off] for i in perm *)
Fixpoint dc_gather (l : str) (off : nat) (perm : list nat) : result str :=
  match perm with
  | [] => Ok []
  | i :: r =>
    match nth_error l (i + off) with
    | None => Err EIndex
    | Some x => bind (dc_gather l off r) (fun t => Ok (x :: t))
    end
  end.

Section Shuffle.
  (* [draw j k]: the value returned by the j-th call of np.random.permutation in this run,
     which was made with base = arange(k).  Contract: a permutation of 0..k-1. *)
  Variable draw : nat -> nat -> list nat.
  Variable reverse : bool.

  (* state: perms dict (newest first) and number of oracle calls made so far *)
  Definition dc_state : Type := (list (nat * list nat) * nat)%type.

  (* while tries < 100 and array_equal(base, perm): perm = permutation(base); tries += 1 *)
  Fixpoint dc_retry (fuel : nat) (k : nat) (perm : list nat) (j : nat) : list nat * nat :=
    match fuel with
    | O => (perm, j)
    | S f => if dc_nats_eqb (seq 0 k) perm then dc_retry f k (draw j k) (S j) else (perm, j)
    end.

  Definition dc_get_perm (st : dc_state) (k : nat) : list nat * dc_state :=
    let (cache, j) := st in
    match dc_lookup k cache with
    | Some p => (p, st)
    | None =>
      let (p, j') := if reverse then (rev (seq 0 k), j) else dc_retry 100 k (seq 0 k) j in
      (p, ((k, p) :: cache, j'))
    end.

  (* the loop over enumerate(sites) for one protein; [a] = cleavage_site, [b] = sites[end_idx] *)
  Fixpoint dc_loop (st : dc_state) (new_seq : str) (sites : list nat) : result (str * dc_state) :=
    match sites with
    | a :: ((b :: _) as rest) =>
      if (b <=? a + 3)%nat then dc_loop st new_seq rest        (* pep_len = b - a - 2 <= 1 *)
      else
        let start := S a in
        let stop := (b - 1)%nat in
        let (p, st') := dc_get_perm st (stop - start)%nat in
        bind (dc_gather new_seq start p) (fun mid =>
        dc_loop st' (firstn start new_seq ++ mid ++ skipn stop new_seq) rest)
    | _ => Ok (new_seq, st)                                   (* end_idx >= len(sites) *)
    end.

  (* the loop over proteins: (name, sequence, sites) -> (decoy name, decoy sequence) *)
  Fixpoint dc_shuffle_from (st : dc_state) (prefix : str) (prots : list (str * str * list nat))
    : result (list (str * str)) :=
    match prots with
    | [] => Ok []
    | (n, s, ss) :: r =>
      bind (dc_loop st s ss) (fun res =>
      bind (dc_shuffle_from (snd res) prefix r) (fun t => Ok ((prefix ++ n, fst res) :: t)))
    end.

  Definition dc_shuffle_proteins (prefix : str) (prots : list (str * str * list nat))
    : result (list (str * str)) :=
    dc_shuffle_from ([], O) prefix prots.
End Shuffle.

(* ---------- enzymes ---------- *)
(* either a residue class (sites computed) or the sites the regex engine reported for every
   protein, in order (regex oracle; contract: 0 first, len last, non-decreasing) *)
Inductive dc_enzyme : Type :=
| DcClass (cls : list Z)
| DcGiven (sites : list (list nat)).

Fixpoint dc_zip_sites (prots : list (str * str)) (sites : list (list nat))
  : result (list (str * str * list nat)) :=
  match prots, sites with
  | [], [] => Ok []
  | (n, s) :: r, ss :: t => bind (dc_zip_sites r t) (fun u => Ok ((n, s, ss) :: u))
  | _, _ => Err EValue           (* oracle data does not fit the input *)
  end.

Definition dc_attach (enz : dc_enzyme) (prots : list (str * str)) : result (list (str * str * list nat)) :=
  match enz with
  | DcClass cls => Ok (map (fun e => (fst e, snd e, dc_sites cls (snd e))) prots)
  | DcGiven sites => dc_zip_sites prots sites
  end.

(* ---------- make_decoys: the text written to out_file ---------- *)
Definition dc_entries (draw : nat -> nat -> list nat) (files : list str) (prefix : str)
  (enz : dc_enzyme) (reverse concatenate : bool) : result (list (str * str)) :=
  bind (fa_parse_files files) (fun targets =>
  bind (dc_attach enz targets) (fun prots =>
  bind (dc_shuffle_proteins draw reverse prefix prots) (fun decoys =>
  Ok (if concatenate then targets ++ decoys else decoys)))).

Definition dc_make_decoys (draw : nat -> nat -> list nat) (wrapf : str -> list str)
  (files : list str) (prefix : str) (enz : dc_enzyme) (reverse concatenate : bool) : result str :=
  bind (dc_entries draw files prefix enz reverse concatenate) (fun entries =>
  Ok (fa_write wrapf entries)).
