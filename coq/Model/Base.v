(* Base.v — shared definitions for all models (definitions only, no proofs). *)
From Coq Require Export List ZArith QArith Bool Arith.
Export ListNotations.

(* Errors mirror the exception kinds the Python code raises. *)
Inductive err : Type :=
| EStopIteration      (* next() on an exhausted iterator *)
| EAssertion          (* assert ... *)
| EValue              (* ValueError *)
| EIndex              (* IndexError *)
| ERuntime            (* RuntimeError *)
| EKey                (* KeyError *)
| EType               (* TypeError *)
| EFuel.              (* model ran out of fuel: never reachable, see lemmas *)

Inductive result (A : Type) : Type :=
| Ok  : A -> result A
| Err : err -> result A.
Arguments Ok {A} _.
Arguments Err {A} _.

Definition bind {A B} (r : result A) (f : A -> result B) : result B :=
  match r with Ok a => f a | Err e => Err e end.

Definition str := list Z.           (* strings as lists of character codes *)

Fixpoint str_eqb (a b : str) : bool :=
  match a, b with
  | [], [] => true
  | x :: r, y :: s => Z.eqb x y && str_eqb r s
  | _, _ => false
  end.

Fixpoint prefixb (p s : str) : bool :=       (* s.startswith(p) *)
  match p, s with
  | [], _ => true
  | x :: r, y :: t => Z.eqb x y && prefixb r t
  | _ :: _, [] => false
  end.

Fixpoint mem_str (x : str) (l : list str) : bool :=
  match l with [] => false | y :: r => str_eqb x y || mem_str x r end.

(* list.index(x): position of the first element equal to x *)
Fixpoint index_str (x : str) (l : list str) : option nat :=
  match l with
  | [] => None
  | y :: r => if str_eqb x y then Some 0%nat
              else match index_str x r with Some i => Some (S i) | None => None end
  end.

(* Python slice l[a:b] for 0 <= a, 0 <= b (clamped) *)
Definition pyslice {A} (l : list A) (a b : nat) : list A := firstn (b - a) (skipn a l).

(* Python normalisation of a possibly negative slice bound against length n *)
Definition norm_bound (n : nat) (z : Z) : nat :=
  if (z <? 0)%Z then Z.to_nat (Z.max 0 (Z.of_nat n + z)) else Z.to_nat z.

Fixpoint zcount (c : Z) (s : str) : nat :=
  match s with [] => 0%nat | x :: r => (if Z.eqb x c then 1 else 0)%nat + zcount c r end.
