(* Readers.v — the TabularDataReader family (mokapot/tabular_data.py, mokapot/streaming.py) on
   abstract tables (C13).  Definitions only; names prefixed tr_ (table reader).
   A table = column names (nat ids) + rows of opaque cell ids (Z).
   read(columns)                         ~ tr_read   : result ch_frame
   get_chunked_data_iterator(c, columns) ~ tr_stream : frames yielded + how the generator ends *)
From Mokaverif Require Import Model.Base Model.Chunks.

Definition tr_nan : Z := (-1)%Z.     (* the cell id of NaN (pd.concat(axis=1) padding) *)

Record tr_table := { tb_names : list nat; tb_rows : list (list Z) }.

(* A generator, consumed from the outside: the frames it yields, then either StopIteration
   (None) or an exception (Some e). *)
Definition tr_gen := (list ch_frame * option err)%type.

Inductive tr_reader :=
| TrFrame (t : tr_table)                          (* DataFrameReader(df), RangeIndex *)
| TrCsv (t : tr_table)                            (* CSVFileReader on a file holding t *)
| TrParquet (t : tr_table) (bl bl0 : list nat)    (* ParquetFileReader; oracle: lengths of the record batches
                                                     pyarrow's iter_batches(c, columns) delivers: bl when at
                                                     least one existing column is projected, bl0 when none is
                                                     (the reader itself never projects none for columns=[]:
                                                     it reads the first column of the file and drops it) *)
| TrMapped (r : tr_reader) (m : list (nat * nat)) (* ColumnMappedReader(r, {orig: new}) *)
| TrJoined (rs : list tr_reader)                  (* JoinedTabularDataReader(rs) *)
| TrComputed (r : tr_reader) (k : nat)            (* ComputedTabularDataReader(r, k, dtype, func) *)
             (f : list nat -> list (list Z) -> result (list Z)).   (* func(df): names, rows -> values *)

(* ---------- ColumnMappedReader helpers ---------- *)
(* column_map.get(column, column) *)
Fixpoint tr_rename (m : list (nat * nat)) (n : nat) : nat :=
  match m with
  | [] => n
  | (k, v) :: r => if Nat.eqb k n then v else tr_rename r n
  end.

(* dict(zip(all_columns, all_orig_columns))[col]: the last pair wins *)
Fixpoint tr_rev_lookup (col : nat) (pairs : list (nat * nat)) : option nat :=
  match pairs with
  | [] => None
  | (k, v) :: r => match tr_rev_lookup col r with
                   | Some o => Some o
                   | None => if Nat.eqb k col then Some v else None
                   end
  end.

(* [reverse_column_map[column] for column in columns]; None = KeyError *)
Fixpoint tr_orig_cols (pairs : list (nat * nat)) (cols : list nat) : option (list nat) :=
  match cols with
  | [] => Some []
  | c :: r => match tr_rev_lookup c pairs with
              | None => None
              | Some o => match tr_orig_cols pairs r with None => None | Some os => Some (o :: os) end
              end
  end.

Definition tr_rename_frame (m : list (nat * nat)) (f : ch_frame) : ch_frame :=
  {| ch_index := ch_index f; ch_names := map (tr_rename m) (ch_names f); ch_rows := ch_rows f |}.

(* ---------- JoinedTabularDataReader helpers ---------- *)
(* _subset_columns for one reader: its columns that were requested, in the reader's order *)
Definition tr_subset (names : list nat) (cols : option (list nat)) : option (list nat) :=
  match cols with
  | None => None
  | Some cs => Some (filter (fun n => ch_mem n cs) names)
  end.

(* rows of pd.concat([a, b], axis=1) on aligned indices: outer join, NaN where one side is short *)
Fixpoint tr_zip_pad (wa wb : nat) (a b : list (list Z)) : list (list Z) :=
  match a with
  | [] => map (fun y => repeat tr_nan wa ++ y) b
  | x :: a' => match b with
               | [] => map (fun x' => x' ++ repeat tr_nan wb) a
               | y :: b' => (x ++ y) :: tr_zip_pad wa wb a' b'
               end
  end.

Definition tr_hjoin (f1 f2 : ch_frame) : ch_frame :=
  {| ch_index := if Nat.ltb (length (ch_index f1)) (length (ch_index f2)) then ch_index f2 else ch_index f1;
     ch_names := ch_names f1 ++ ch_names f2;
     ch_rows := tr_zip_pad (length (ch_names f1)) (length (ch_names f2)) (ch_rows f1) (ch_rows f2) |}.

(* chunks = [next(it) for it in iterators] round after round, for two iterators: the one that is
   exhausted first (the left one on a tie: it is asked first) decides how the loop ends *)
Fixpoint tr_zip_frames (a b : list ch_frame) : list ch_frame :=
  match a, b with
  | x :: a', y :: b' => tr_hjoin x y :: tr_zip_frames a' b'
  | _, _ => []
  end.

Definition tr_join2 (s1 s2 : tr_gen) : tr_gen :=
  (tr_zip_frames (fst s1) (fst s2),
   if Nat.leb (length (fst s1)) (length (fst s2)) then snd s1 else snd s2).

(* df if columns is None else df[columns], evaluated per yielded chunk *)
Definition tr_finish (e : err) (cols : option (list nat)) (s : tr_gen) : tr_gen :=
  match cols with
  | None => s
  | Some cs => match fst s with
               | [] => s
               | f :: _ => if ch_known (ch_names f) cs then (map (ch_sel cs) (fst s), snd s)
                           else ([], Some e)
               end
  end.

(* first error in list order, else all values *)
Fixpoint tr_seq {A} (l : list (result A)) : result (list A) :=
  match l with
  | [] => Ok []
  | Err e :: _ => Err e
  | Ok x :: r => match tr_seq r with Err e => Err e | Ok xs => Ok (x :: xs) end
  end.

(* ---------- ComputedTabularDataReader helpers ---------- *)
(* _reader_columns *)
Definition tr_without (k : nat) (cols : list nat) : list nat := filter (fun c => negb (Nat.eqb c k)) cols.

(* df[k] = func(df)  (k is not a column of df: new last column); wrong length -> ValueError,
   except that pandas lets a frame WITHOUT rows take any number of values: it then gets that many
   rows (index 0..), NaN in the other columns *)
Definition tr_add_col (k : nat) (f : list nat -> list (list Z) -> result (list Z)) (fr : ch_frame)
  : result ch_frame :=
  match f (ch_names fr) (ch_rows fr) with
  | Err e => Err e
  | Ok vs => if Nat.eqb (length vs) (length (ch_rows fr))
             then Ok {| ch_index := ch_index fr; ch_names := ch_names fr ++ [k];
                        ch_rows := map (fun p => fst p ++ [snd p]) (combine (ch_rows fr) vs) |}
             else match ch_rows fr with
                  | [] => Ok {| ch_index := seq 0 (length vs); ch_names := ch_names fr ++ [k];
                                ch_rows := map (fun v => repeat tr_nan (length (ch_names fr)) ++ [v]) vs |}
                  | _ :: _ => Err EValue
                  end
  end.

(* per chunk: add the column, then df[columns]; the first failing chunk ends the generator *)
Fixpoint tr_compute_frames (k : nat) (f : list nat -> list (list Z) -> result (list Z)) (cs : list nat)
         (fs : list ch_frame) (tl : option err) : tr_gen :=
  match fs with
  | [] => ([], tl)
  | fr :: rest =>
    match (if ch_mem k cs then tr_add_col k f fr else Ok fr) with
    | Err e => ([], Some e)
    | Ok fr' => if ch_known (ch_names fr') cs
                then let s := tr_compute_frames k f cs rest tl in (ch_sel cs fr' :: fst s, snd s)
                else ([], Some EKey)
    end
  end.

(* the same with columns=None: every chunk keeps all its columns and gets the computed one *)
Fixpoint tr_compute_frames_all (k : nat) (f : list nat -> list (list Z) -> result (list Z))
         (frames : list ch_frame) (tl : option err) : list ch_frame * option err :=
  match frames with
  | [] => ([], tl)
  | fr :: rest =>
    match tr_add_col k f fr with
    | Err e => ([], Some e)
    | Ok fr' => let s := tr_compute_frames_all k f rest tl in (fr' :: fst s, snd s)
    end
  end.

(* ---------- leaf readers ---------- *)
(* pandas.read_csv(chunksize=c): an empty file still yields one (empty) chunk *)
Definition tr_csv_frames (c : nat) (names : list nat) (rows : list (list Z)) : list ch_frame :=
  match rows with
  | [] => [ch_whole names []]
  | _ :: _ => ch_frames c names rows
  end.

(* iter_batches(columns=cols): unknown names are ignored, repeated names delivered once *)
Fixpoint tr_dedup (l : list nat) : list nat :=
  match l with
  | [] => []
  | x :: r => x :: filter (fun y => negb (Nat.eqb y x)) (tr_dedup r)
  end.

(* offset = 0; for batch in iter_batches(c): df.index = df.index + offset; offset += len(df)
   (a running offset: batches may be shorter than chunk_size) *)
Fixpoint tr_pq_frames (off : nat) (names : list nat) (batches : list (list (list Z))) : list ch_frame :=
  match batches with
  | [] => []
  | b :: r => {| ch_index := seq off (length b); ch_names := names; ch_rows := b |}
              :: tr_pq_frames (off + length b) names r
  end.

(* which batch lengths pyarrow delivers for columns=cs (cs' = the known names among cs, repeated names once):
   columns=[] is replaced by pf.schema.names[:1] (a file without columns: still the empty projection);
   a non-empty list of unknown names only is passed on as it is: pyarrow ignores the names, empty projection *)
Definition tr_pq_lens (names cs cs' : list nat) (bl bl0 : list nat) : list nat :=
  match cs with
  | [] => match names with [] => bl0 | _ :: _ => bl end
  | _ :: _ => match cs' with [] => bl0 | _ :: _ => bl end
  end.

(* ---------- get_column_names ---------- *)
Fixpoint tr_names (r : tr_reader) : list nat :=
  match r with
  | TrFrame t => tb_names t
  | TrCsv t => tb_names t
  | TrParquet t _ _ => tb_names t
  | TrMapped r' m => map (tr_rename m) (tr_names r')
  | TrJoined rs => flat_map tr_names rs
  | TrComputed r' k _ => tr_names r' ++ [k]
  end.

(* ---------- read(columns) ---------- *)
Fixpoint tr_read (r : tr_reader) (cols : option (list nat)) : result ch_frame :=
  match r with
  | TrFrame t =>                      (* self.df if columns is None else self.df[columns] *)
    let w := ch_whole (tb_names t) (tb_rows t) in
    match cols with None => Ok w | Some cs => ch_select EKey cs w end
  | TrCsv t =>                        (* read_csv(usecols=_usecols(columns))[columns]; columns=[] parses the first
                                         column (usecols=[0]) and the selection drops it: all rows, no column *)
    let w := ch_whole (tb_names t) (tb_rows t) in
    match cols with None => Ok w | Some cs => ch_select EValue cs w end
  | TrParquet t _ _ =>                (* pq.read_table(columns=columns).to_pandas() *)
    let w := ch_whole (tb_names t) (tb_rows t) in
    match cols with None => Ok w | Some cs => ch_select EValue cs w end
  | TrMapped r' m =>
    match cols with
    | None => match tr_read r' None with Err e => Err e | Ok f => Ok (tr_rename_frame m f) end
    | Some cs =>
      let orig := tr_names r' in
      match tr_orig_cols (combine (map (tr_rename m) orig) orig) cs with
      | None => Err EKey
      | Some ocs => match tr_read r' (Some ocs) with Err e => Err e | Ok f => Ok (tr_rename_frame m f) end
      end
    end
  | TrJoined rs =>
    match tr_seq (map (fun r' => tr_read r' (tr_subset (tr_names r') cols)) rs) with
    | Err e => Err e
    | Ok [] => Err EValue                                  (* pd.concat([]) *)
    | Ok (f0 :: fs) =>
      let j := fold_left tr_hjoin fs f0 in
      match cols with None => Ok j | Some cs => ch_select EKey cs j end
    end
  | TrComputed r' k f =>
    match cols with
    | None =>                                              (* all columns of the inner reader, then the computed one *)
      match tr_read r' None with
      | Err e => Err e
      | Ok fr => tr_add_col k f fr
      end
    | Some cs =>
      match tr_read r' (Some (tr_without k cs)) with
      | Err e => Err e
      | Ok fr => if ch_mem k cs                             (* func is only called when its column is requested *)
                 then match tr_add_col k f fr with
                      | Err e => Err e
                      | Ok fr' => ch_select EKey cs fr'
                      end
                 else ch_select EKey cs fr
      end
    end
  end.

(* ---------- get_chunked_data_iterator(c, columns) ---------- *)
Fixpoint tr_stream (r : tr_reader) (c : nat) (cols : option (list nat)) : tr_gen :=
  match r with
  | TrFrame t =>                      (* for pos in range(0, len(df), c): df.iloc[pos:pos+c][columns] *)
    if Nat.eqb c 0 then ([], Some EValue)
    else tr_finish EKey cols (ch_frames c (tb_names t) (tb_rows t), None)
  | TrCsv t =>
    if Nat.eqb c 0 then ([], Some EValue)
    else match cols with
         | None => (tr_csv_frames c (tb_names t) (tb_rows t), None)
         | Some cs =>
           if ch_known (tb_names t) cs
           then (map (ch_sel cs) (tr_csv_frames c (tb_names t) (tb_rows t)), None)
           else ([], Some EValue)
         end
  | TrParquet t bl bl0 =>
    if Nat.eqb c 0 then ([], Some EValue)
    else match cols with
         | None => (tr_pq_frames 0 (tb_names t) (ch_split_by bl (tb_rows t)), None)
         | Some cs =>
           let cs' := tr_dedup (filter (fun x => ch_mem x (tb_names t)) cs) in
           let batches := ch_split_by (tr_pq_lens (tb_names t) cs cs' bl bl0) (tb_rows t) in
           (map (ch_sel cs') (tr_pq_frames 0 (tb_names t) batches), None)
         end
  | TrMapped r' m =>
    match cols with
    | None => let s := tr_stream r' c None in (map (tr_rename_frame m) (fst s), snd s)
    | Some cs =>
      let orig := tr_names r' in
      match tr_orig_cols (combine (map (tr_rename m) orig) orig) cs with
      | None => ([], Some EKey)
      | Some ocs => let s := tr_stream r' c (Some ocs) in (map (tr_rename_frame m) (fst s), snd s)
      end
    end
  | TrJoined rs =>
    match map (fun r' => tr_stream r' c (tr_subset (tr_names r') cols)) rs with
    | [] => ([], Some EValue)                              (* pd.concat([]) in the first round *)
    | s0 :: ss => tr_finish EKey cols (fold_left tr_join2 ss s0)
    end
  | TrComputed r' k f =>
    match cols with
    | None => let s := tr_stream r' c None in tr_compute_frames_all k f (fst s) (snd s)
    | Some cs => let s := tr_stream r' c (Some (tr_without k cs)) in
                 tr_compute_frames k f cs (fst s) (snd s)
    end
  end.

(* list(reader.get_chunked_data_iterator(c, columns)) *)
Definition tr_chunks (r : tr_reader) (c : nat) (cols : option (list nat)) : result (list ch_frame) :=
  match tr_stream r c cols with
  | (fs, None) => Ok fs
  | (_, Some e) => Err e
  end.

(* ---------- func(df) used by the harness (closures built by the driver) ---------- *)
Definition tr_fn_const (z : Z) : list nat -> list (list Z) -> result (list Z) :=
  fun _ rows => Ok (map (fun _ => z) rows).                 (* np.full(len(df), v) *)
Definition tr_fn_copy (n : nat) : list nat -> list (list Z) -> result (list Z) :=
  fun names rows => if ch_mem n names                       (* df[n].values ; KeyError *)
                    then Ok (flat_map (fun row => firstn 1 (ch_pick n names row)) rows)
                    else Err EKey.
Definition tr_fn_len : list nat -> list (list Z) -> result (list Z) :=
  fun _ rows => Ok (map (fun _ => Z.of_nat (length rows)) rows).   (* np.full(len(df), len(df)): not row-wise *)
Definition tr_fn_short (z : Z) : list nat -> list (list Z) -> result (list Z) :=
  fun _ _ => Ok [z].                                        (* wrong length unless the chunk has one row *)
