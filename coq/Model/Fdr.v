(* Fdr.v — the finite-sample setting of C04 (definitions only).
   A ranked list (pairwise distinct scores) is given WORST FIRST.  Every position is either a
   correct target (always labelled target) or a null, whose label — target or decoy — is a fair
   coin.  A labelling [w] lists the labels of the nulls in the same (worst first) order. *)
From Mokaverif Require Import Model.Base Model.Tdc.
Open Scope nat_scope.

Inductive fd_kind := FdCorrect | FdNull.

Definition fd_count_c (ri : list fd_kind) : nat :=
  length (filter (fun k => match k with FdCorrect => true | FdNull => false end) ri).
Definition fd_count_n (ri : list fd_kind) : nat :=
  length (filter (fun k => match k with FdCorrect => false | FdNull => true end) ri).
Definition fd_count_t (w : list bool) : nat := length (filter (fun b => b) w).

(* the TDC rule at a prefix with c correct targets, v null targets and d decoys:
   accept the prefix iff it holds a target and (decoys + 1) / targets <= alpha *)
Definition fd_stop (alpha : Q) (c v d : nat) : bool :=
  Nat.ltb 0 (c + v) && Qle_bool (inject_Z (Z.of_nat (d + 1)) / inject_Z (Z.of_nat (c + v))) alpha.

(* scanning prefixes from the longest to the shortest, the first accepted prefix is the accept set
   (the longest prefix with estimated FDR <= alpha); [pay] is evaluated on its counts *)
Fixpoint fd_scan (pay : nat -> nat -> nat -> Q) (alpha : Q) (ri : list fd_kind) (w : list bool) : Q :=
  let c := fd_count_c ri in let v := fd_count_t w in let d := length w - v in
  if fd_stop alpha c v d then pay c v d
  else match ri with
       | [] => 0%Q
       | FdCorrect :: r => fd_scan pay alpha r w
       | FdNull :: r => fd_scan pay alpha r (tl w)
       end.

(* false discovery proportion of the accept set: null targets / targets *)
Definition fd_fdp_pay (c v d : nat) : Q := inject_Z (Z.of_nat v) / inject_Z (Z.of_nat (c + v)).
Definition fd_fdp (alpha : Q) ri w : Q := fd_scan fd_fdp_pay alpha ri w.
(* the quantity that is a supermartingale: null targets / (1 + decoys) *)
Definition fd_ratio_pay (c v d : nat) : Q := inject_Z (Z.of_nat v) / inject_Z (Z.of_nat (1 + d)).
Definition fd_ratio (alpha : Q) ri w : Q := fd_scan fd_ratio_pay alpha ri w.

(* all labellings of m nulls *)
Fixpoint fd_labs (m : nat) : list (list bool) :=
  match m with
  | O => [[]]
  | S m' => map (cons true) (fd_labs m') ++ map (cons false) (fd_labs m')
  end.

Definition fd_qsum (l : list Q) : Q := fold_right Qplus 0%Q l.

Fixpoint fd_binom (n k : nat) : nat :=
  match n, k with
  | _, O => 1
  | O, S _ => 0
  | S n', S k' => fd_binom n' k' + fd_binom n' (S k')
  end.

(* the realised target flags, worst first *)
Fixpoint fd_realize (ri : list fd_kind) (w : list bool) : list bool :=
  match ri with
  | [] => []
  | FdCorrect :: r => true :: fd_realize r w
  | FdNull :: r => hd false w :: fd_realize r (tl w)
  end.

(* the false discovery proportion computed through the C01 q-values: scores = ranks (worst first:
   score = position), accept = targets with q <= alpha *)
Definition fdp_via_tdc (alpha : Q) (ri : list fd_kind) (w : list bool) : Q :=
  let flags := fd_realize ri w in
  let n := length ri in
  let scores := map Z.of_nat (seq 0 n) in          (* worst first: score = position *)
  let qs := tdc_core true scores flags in
  let acc := map (fun qt => snd qt && Qle_bool (fst qt) alpha) (combine qs flags) in
  let isnull := map (fun k => match k with FdNull => true | FdCorrect => false end) ri in
  let r := length (filter (fun b => b) acc) in
  let v := length (filter (fun p => fst p && snd p) (combine acc isnull)) in
  match r with
  | O => 0%Q
  | _ => (inject_Z (Z.of_nat v) / inject_Z (Z.of_nat r))%Q
  end.

