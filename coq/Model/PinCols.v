(* PinCols.v — model of mokapot/parsers/pin.py read_percolator + helpers.find_column +
   utils.create_chunks / convert_targets_column (C10).  Definitions only.
   Column names are strings (ASCII); table cells are opaque integers (the harness maps distinct
   cell values to integers).  Two interfaces: [pc_read] is told [nan_cols], the columns that hold a
   missing value somewhere (column chunks only); [pc_read_rc] gets one missingness bit per cell and
   follows the row chunks of the missing-value scan as well (R2.19).  [pc_nan_cols] derives the first
   view from the second (Proofs/PinColsP.v: read_rc_as_read). *)
From Mokaverif Require Import Model.Base.
Open Scope Z_scope.

Definition pc_lower_c (c : Z) : Z := if (65 <=? c) && (c <=? 90) then c + 32 else c.
Definition pc_lower (s : str) : str := map pc_lower_c s.

Definition pc_cmp (ignore_case : bool) (a b : str) : bool :=
  if ignore_case then str_eqb (pc_lower a) (pc_lower b) else str_eqb a b.

(* helpers.find_column with unique=True: the single match, None, or ValueError *)
Definition pc_find_unique (col : str) (columns : list str) (required ignore_case : bool)
  : result (option str) :=
  match filter (fun c => pc_cmp ignore_case c col) columns with
  | [] => if required then Err EValue else Ok None
  | [c] => Ok (Some c)
  | _ :: _ :: _ => Err EValue
  end.

(* find_columns: all case-insensitive matches, in column order *)
Definition pc_find_all (col : str) (columns : list str) : list str :=
  filter (fun c => pc_cmp true c col) columns.

Definition pc_find_required (col : str) (columns : list str) : result str :=
  match pc_find_unique col columns true true with
  | Ok (Some c) => Ok c
  | Ok None => Err EValue
  | Err e => Err e
  end.

(* find_optional_column(col, columns, default) *)
Definition pc_find_optional (col : option str) (columns : list str) (default : str)
  : result (option str) :=
  match col with
  | Some c => pc_find_unique c columns true false
  | None => pc_find_unique default columns false true
  end.

(* utils.create_chunks: [data[i:i+c] for i in range(0, len(data), c)] *)
Fixpoint pc_chunks_aux {A} (fuel c : nat) (l : list A) : list (list A) :=
  match fuel with
  | O => []
  | S f => match l with
           | [] => []
           | _ => firstn c l :: pc_chunks_aux f c (skipn c l)
           end
  end.
Definition pc_chunks {A} (c : nat) (l : list A) : list (list A) := pc_chunks_aux (length l) c l.

(* create_chunks_with_identifier (after the fix of F2): the identifier columns stay in the
   last chunk when that chunk holds all of them, otherwise they get a chunk of their own *)
Definition pc_chunks_with_ids {A} (data ids : list A) (c : nat) : list (list A) :=
  let r := ((length data + length ids) mod c)%nat in
  let n_last := if Nat.eqb r 0 then c else r in
  if Nat.leb (length ids) n_last
  then pc_chunks c (data ++ ids)
  else pc_chunks c data ++ [ids].

Definition pc_subset (a b : list str) : bool := forallb (fun x => mem_str x b) a.

(* literal reserved names *)
Definition pcS_specid : str := [115;112;101;99;105;100].
Definition pcS_peptide : str := [112;101;112;116;105;100;101].
Definition pcS_proteins : str := [112;114;111;116;101;105;110;115].
Definition pcS_label : str := [108;97;98;101;108].
Definition pcS_scannr : str := [115;99;97;110;110;114].
Definition pcS_modifiedpeptide : str := [109;111;100;105;102;105;101;100;112;101;112;116;105;100;101].
Definition pcS_precursor : str := [112;114;101;99;117;114;115;111;114].
Definition pcS_peptidegroup : str := [112;101;112;116;105;100;101;103;114;111;117;112].
Definition pcS_filename : str := [102;105;108;101;110;97;109;101].
Definition pcS_calcmass : str := [99;97;108;99;109;97;115;115].
Definition pcS_expmass : str := [101;120;112;109;97;115;115].
Definition pcS_ret_time : str := [114;101;116;95;116;105;109;101].
Definition pcS_charge_column : str := [99;104;97;114;103;101;95;99;111;108;117;109;110].
Definition pcS_charge : str := [99;104;97;114;103;101].

Record pc_opts := { o_filename : option str; o_calcmass : option str; o_expmass : option str;
                    o_rt : option str; o_charge : option str }.

Record pc_dataset := {
  d_features : list str; d_spectrum : list str; d_metadata : list str; d_levels : list str;
  d_target : str; d_peptide : str; d_protein : str; d_specid : str; d_scan : str;
  d_filename : option str; d_calcmass : option str; d_expmass : option str; d_rt : option str;
  d_charge : option str;
  d_spectra_rows : list (list Z);     (* spectrum columns of every row, file order *)
  d_targets : list bool }.

Definition pc_somes (l : list (option str)) : list str :=
  flat_map (fun o => match o with Some c => [c] | None => [] end) l.

(* position of a column name *)
Fixpoint pc_index (x : str) (l : list str) : option nat :=
  match l with
  | [] => None
  | y :: r => if str_eqb x y then Some 0%nat
              else match pc_index x r with Some i => Some (S i) | None => None end
  end.

Definition pc_cell (columns : list str) (row : list Z) (c : str) : Z :=
  match pc_index c columns with Some i => nth i row 0 | None => 0 end.

(* convert_targets_column on the label cells *)
Definition pc_convert_targets (label_is_bool : bool) (labels : list Z) : result (list bool) :=
  if label_is_bool then Ok (map (fun v => negb (v =? 0)) labels)
  else if existsb (fun v => (v <? -1) || (1 <? v)) labels then Err EValue
  else Ok (map (fun v => v =? 1) labels).

(* the column classification of read_percolator *)
Record pc_class := {
  k_specid : str; k_peptide : str; k_protein : str; k_label : str; k_scan : str;
  k_levels : list str; k_filename : option str; k_calcmass : option str; k_expmass : option str;
  k_rt : option str; k_charge : option str; k_spectra : list str; k_nonfeat : list str }.

Definition pc_classify (columns : list str) (o : pc_opts) : result pc_class :=
  bind (pc_find_required pcS_specid columns) (fun specid =>
  bind (pc_find_required pcS_peptide columns) (fun peptides =>
  bind (pc_find_required pcS_proteins columns) (fun proteins =>
  bind (pc_find_required pcS_label columns) (fun labels =>
  bind (pc_find_required pcS_scannr columns) (fun scan =>
  let modp := pc_find_all pcS_modifiedpeptide columns in
  let prec := pc_find_all pcS_precursor columns in
  let pgrp := pc_find_all pcS_peptidegroup columns in
  let levels := [peptides] ++ modp ++ prec ++ pgrp in
  let nonfeat0 := [specid; scan; peptides; proteins; labels] ++ modp ++ prec ++ pgrp in
  bind (pc_find_optional (o_filename o) columns pcS_filename) (fun filename =>
  bind (pc_find_optional (o_calcmass o) columns pcS_calcmass) (fun calcmass =>
  bind (pc_find_optional (o_expmass o) columns pcS_expmass) (fun expmass =>
  bind (pc_find_optional (o_rt o) columns pcS_ret_time) (fun ret_time =>
  bind (pc_find_optional (o_charge o) columns pcS_charge_column) (fun charge =>
  let spectra := pc_somes [filename; Some scan; ret_time; expmass] in
  let alt_charge := filter (fun c => prefixb pcS_charge (pc_lower c)) columns in
  let nonfeat1 := nonfeat0 ++
     (match charge with
      | Some ch => if Nat.ltb 1 (length alt_charge) then [ch] else []
      | None => [] end) in
  let nonfeat := nonfeat1 ++ pc_somes [filename; calcmass; expmass; ret_time] in
  Ok {| k_specid := specid; k_peptide := peptides; k_protein := proteins; k_label := labels;
        k_scan := scan; k_levels := levels; k_filename := filename; k_calcmass := calcmass;
        k_expmass := expmass; k_rt := ret_time; k_charge := charge; k_spectra := spectra;
        k_nonfeat := nonfeat |})))))))))).

Definition pc_mk (k : pc_class) (feats : list str) (srows : list (list Z)) (targets : list bool)
  : pc_dataset :=
  {| d_features := feats; d_spectrum := k_spectra k; d_metadata := k_nonfeat k; d_levels := k_levels k;
     d_target := k_label k; d_peptide := k_peptide k; d_protein := k_protein k; d_specid := k_specid k;
     d_scan := k_scan k; d_filename := k_filename k; d_calcmass := k_calcmass k;
     d_expmass := k_expmass k; d_rt := k_rt k; d_charge := k_charge k;
     d_spectra_rows := srows; d_targets := targets |}.

(* the chunked column scan: NaN detection per column slice, spectra dataframe from the
   slice(s) that hold all identifier columns *)
Definition pc_scan (chunk_cols : nat) (k : pc_class) (columns : list str)
           (label_is_bool : bool) (rows : list (list Z)) (nan_cols : list str)
  : result pc_dataset :=
  let features := filter (fun c => negb (mem_str c (k_nonfeat k))) columns in
  let ids := k_spectra k ++ [k_label k] in
  if Nat.eqb chunk_cols 0 then Err EValue else
  let slices := pc_chunks_with_ids features ids chunk_cols in
  let id_slices := filter (fun sl => pc_subset ids sl) slices in
  match id_slices with
  | [] => Err EValue                               (* pd.concat([]) : No objects to concatenate *)
  | _ =>
    let scanned := flat_map (fun sl => if pc_subset ids sl
                                        then filter (fun c => negb (mem_str c ids)) sl else sl) slices in
    let to_drop := filter (fun c => mem_str c nan_cols) scanned in
    let feats := filter (fun c => negb (mem_str c to_drop)) features in
    bind (pc_convert_targets label_is_bool
            (flat_map (fun _ => map (fun r => pc_cell columns r (k_label k)) rows) id_slices)) (fun targets =>
    Ok (pc_mk k feats
          (flat_map (fun _ => map (fun r => map (pc_cell columns r) (k_spectra k)) rows) id_slices)
          targets))
  end.

Definition pc_read (chunk_cols : nat) (columns : list str) (o : pc_opts)
           (label_is_bool : bool) (rows : list (list Z)) (nan_cols : list str)
  : result pc_dataset :=
  bind (pc_classify columns o) (fun k => pc_scan chunk_cols k columns label_is_bool rows nan_cols).

(* ====================== the row chunks of the missing-value scan (R2.19) ======================
   drop_missing_values_and_fill_spectra_dataframe reads every column slice in row chunks
   (reader.get_chunked_data_iterator(CHUNK_SIZE_ROWS_FOR_DROP_COLUMNS, columns=slice)). *)

(* one table row: the cells and, parallel to them, "this cell is missing" (isna) *)
Definition pc_rowm : Type := (list Z * list bool)%type.

Definition pc_miss (columns : list str) (rm : pc_rowm) (c : str) : bool :=
  match pc_index c columns with Some i => nth i (snd rm) false | None => false end.

(* the old interface as a view of the new one: the columns with a missing cell somewhere *)
Definition pc_nan_cols (columns : list str) (rowsm : list pc_rowm) : list str :=
  filter (fun c => existsb (fun rm => pc_miss columns rm c) rowsm) columns.

(* what the reader's iterator yields: rows[i:i+c] for i in range(0, len(rows), c); for a table
   without rows pandas.read_csv(chunksize=) yields ONE empty chunk, pyarrow iter_batches yields none
   ([empty_chunk]: true for the text readers, false for the Parquet reader) *)
Definition pc_row_chunks {A} (empty_chunk : bool) (chunk_rows : nat) (rows : list A) : list (list A) :=
  match rows with
  | [] => if empty_chunk then [[]] else []
  | _ => pc_chunks chunk_rows rows
  end.

(* feature.isna().any(axis=0) of one row chunk: one boolean per column of [cols] *)
Definition pc_any_row (columns cols : list str) (ch : list pc_rowm) : list bool :=
  map (fun c => existsb (fun rm => pc_miss columns rm c) ch) cols.

Definition pc_or_row (a b : list bool) : list bool := map (fun p => fst p || snd p) (combine a b).

(* feature[spectra + [label]] of one row chunk: per row (spectrum cells, label cell) *)
Definition pc_frame (columns : list str) (k : pc_class) (ch : list pc_rowm) : list (list Z * Z) :=
  map (fun rm => (map (pc_cell columns (fst rm)) (k_spectra k), pc_cell columns (fst rm) (k_label k))) ch.

(* drop_missing_values_and_fill_spectra_dataframe for ONE column slice [sl]:
   (frames appended to df_spectra_list, columns of the slice to drop).
   Per row chunk: the identifier cells are appended when the slice holds all identifier columns,
   and one row isna().any(axis=0) is added to na_mask; at the end na_mask.any(axis=0). *)
Definition pc_slice_rc (columns : list str) (k : pc_class) (chunks : list (list pc_rowm)) (sl : list str)
  : list (list (list Z * Z)) * list str :=
  let ids := k_spectra k ++ [k_label k] in
  let has_ids := pc_subset ids sl in
  let cols := if has_ids then filter (fun c => negb (mem_str c ids)) sl else sl in
  let frames := if has_ids then map (pc_frame columns k) chunks else [] in
  let na_mask := map (pc_any_row columns cols) chunks in
  let any := fold_left pc_or_row na_mask (map (fun _ => false) cols) in
  (frames, map fst (filter snd (combine cols any))).

(* read_percolator from the column slices on, with the per-slice worker as a parameter
   (Parallel(...)(delayed(drop_missing_values_and_fill_spectra_dataframe)(..) for c in feat_slices)) *)
Definition pc_scan_with (slice_fn : list (list pc_rowm) -> list str -> list (list (list Z * Z)) * list str)
           (chunk_cols : nat) (k : pc_class) (columns : list str) (label_is_bool : bool)
           (chunks : list (list pc_rowm)) : result pc_dataset :=
  let features := filter (fun c => negb (mem_str c (k_nonfeat k))) columns in
  let ids := k_spectra k ++ [k_label k] in
  if Nat.eqb chunk_cols 0 then Err EValue else      (* Python: ZeroDivisionError, see pc_scan_rc *)
  let slices := pc_chunks_with_ids features ids chunk_cols in
  let res := map (slice_fn chunks) slices in
  let df_spectra_list := flat_map fst res in
  let to_drop := flat_map snd res in
  match df_spectra_list with
  | [] => Err EValue                               (* pd.concat([]) : No objects to concatenate *)
  | _ =>
    let df := concat df_spectra_list in
    bind (pc_convert_targets label_is_bool (map snd df)) (fun targets =>
    Ok (pc_mk k (filter (fun c => negb (mem_str c to_drop)) features) (map fst df) targets))
  end.

(* the scan over the row chunks the reader yields.  Chunk sizes 0: the column chunk size is used first
   ((len(data) + len(ids)) % 0: ZeroDivisionError, for which [err] has no constructor: reported as
   EValue here as in pc_scan; every theorem assumes chunk_cols >= 1), the row chunk size next
   (pandas: "'chunksize' must be an integer >=1", pyarrow: "batch_size must be greater than zero":
   ValueError from the first slice). *)
Definition pc_scan_rc (empty_chunk : bool) (chunk_rows chunk_cols : nat) (k : pc_class) (columns : list str)
           (label_is_bool : bool) (rowsm : list pc_rowm) : result pc_dataset :=
  if Nat.eqb chunk_cols 0 then Err EValue else
  if Nat.eqb chunk_rows 0 then Err EValue else
  pc_scan_with (pc_slice_rc columns k) chunk_cols k columns label_is_bool
               (pc_row_chunks empty_chunk chunk_rows rowsm).

Definition pc_read_rc (empty_chunk : bool) (chunk_rows chunk_cols : nat) (columns : list str) (o : pc_opts)
           (label_is_bool : bool) (rowsm : list pc_rowm) : result pc_dataset :=
  bind (pc_classify columns o) (fun k =>
    pc_scan_rc empty_chunk chunk_rows chunk_cols k columns label_is_bool rowsm).
