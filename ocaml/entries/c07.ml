(* C07 *)
let () =
  reg "c07.decide" (fun () ->
      let thr = rd_q () in
      let models = rd_list (rd_pair rd_nat rd_bool) () in
      let files = rd_list (rd_pair (rd_list rd_z) (rd_list rd_bool)) () in
      pr_result (fun pt -> pr_nat pt; pr_opt pr_nat (bd_decide models pt)) (bd_pred_total thr files));
  reg "c07.best_feature" (fun () ->
      let thr = rd_q () in let feats = rd_list (rd_list rd_z) () in let tg = rd_list rd_bool () in
      pr_opt (fun ((i, c), d) -> pr_nat i; pr_nat c; pr_bool d) (bd_best_feature feats tg thr));
  (* brew(ensemble=True) as a whole: fitted models in delivery order, collections; -> folds of the returned models, scores, descs *)
  reg "c07.brew_ens" (fun () ->
      let c = rd_nat () in let k = rd_nat () in let thr = rd_q () in
      let fitted = rd_list (fun () ->
          let fold = rd_nat () in let tr = rd_bool () in let fp = rd_nat () in let ov = rd_bool () in
          let best = rd_nat () in let d = rd_bool () in let raw = rd_list (rd_list rd_z) () in
          { bf_fold = fold; bf_trained = tr; bf_feat_pass = fp; bf_override = ov; bf_best = best; bf_desc = d; bf_raw = raw }) () in
      let files = rd_list (fun () ->
          let keys = rd_list rd_z () in let tg = rd_list rd_bool () in let feats = rd_list (rd_list rd_z) () in
          { bc_keys = keys; bc_targets = tg; bc_feats = feats }) () in
      pr_result (fun (folds, (scores, descs)) ->
          pr_list pr_nat folds; pr_list (pr_list pr_q) scores; pr_list pr_bool descs)
        (bw_brew_ens c k thr fitted files))
