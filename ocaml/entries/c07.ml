(* C07 *)
let () =
  reg "c07.decide" (fun () ->
      let thr = rd_q () in
      let models = rd_list (rd_pair rd_nat rd_bool) () in
      let files = rd_list (rd_pair (rd_list rd_z) (rd_list rd_bool)) () in
      pr_result (fun pt -> pr_nat pt; pr_opt pr_nat (bd_decide models pt)) (bd_pred_total thr files));
  reg "c07.best_feature" (fun () ->
      let thr = rd_q () in let feats = rd_list (rd_list rd_z) () in let tg = rd_list rd_bool () in
      pr_opt (fun ((i, c), d) -> pr_nat i; pr_nat c; pr_bool d) (bd_best_feature feats tg thr))
