(* C10 *)
let pr_ostr = pr_opt pr_str
let pr_c10_dataset d =
  pr_list pr_str d.d_features; pr_list pr_str d.d_spectrum; pr_list pr_str d.d_metadata;
  pr_list pr_str d.d_levels; pr_str d.d_target; pr_str d.d_peptide; pr_str d.d_protein;
  pr_str d.d_specid; pr_str d.d_scan; pr_ostr d.d_filename; pr_ostr d.d_calcmass;
  pr_ostr d.d_expmass; pr_ostr d.d_rt; pr_ostr d.d_charge;
  pr_list (pr_list pr_z) d.d_spectra_rows; pr_list pr_bool d.d_targets
let () =
  (* the row chunks of the missing-value scan: empty_chunk, row-chunk size, column-chunk size, columns,
     options, label-is-bool, rows as (cells, missing bits) *)
  reg "c10.read_rc" (fun () ->
      let ec = rd_bool () in
      let cr = rd_nat () in
      let cc = rd_nat () in
      let cols = rd_list rd_str () in
      let o1 = rd_opt rd_str () in let o2 = rd_opt rd_str () in let o3 = rd_opt rd_str () in
      let o4 = rd_opt rd_str () in let o5 = rd_opt rd_str () in
      let lb = rd_bool () in
      let rowsm = rd_list (rd_pair (rd_list rd_z) (rd_list rd_bool)) () in
      let o = { o_filename = o1; o_calcmass = o2; o_expmass = o3; o_rt = o4; o_charge = o5 } in
      pr_result pr_c10_dataset (pc_read_rc ec cr cc cols o lb rowsm));
  reg "c10.read" (fun () ->
      let cs = rd_nat () in
      let cols = rd_list rd_str () in
      let o1 = rd_opt rd_str () in let o2 = rd_opt rd_str () in let o3 = rd_opt rd_str () in
      let o4 = rd_opt rd_str () in let o5 = rd_opt rd_str () in
      let lb = rd_bool () in
      let rows = rd_list (rd_list rd_z) () in
      let nan = rd_list rd_str () in
      let o = { o_filename = o1; o_calcmass = o2; o_expmass = o3; o_rt = o4; o_charge = o5 } in
      pr_result (fun d ->
          pr_list pr_str d.d_features; pr_list pr_str d.d_spectrum; pr_list pr_str d.d_metadata;
          pr_list pr_str d.d_levels; pr_str d.d_target; pr_str d.d_peptide; pr_str d.d_protein;
          pr_str d.d_specid; pr_str d.d_scan; pr_ostr d.d_filename; pr_ostr d.d_calcmass;
          pr_ostr d.d_expmass; pr_ostr d.d_rt; pr_ostr d.d_charge;
          pr_list (pr_list pr_z) d.d_spectra_rows; pr_list pr_bool d.d_targets)
        (pc_read cs cols o lb rows nan));
  reg "c10.chunks" (fun () ->
      let data = rd_list rd_z () in let ids = rd_list rd_z () in let c = rd_nat () in
      pr_list (pr_list pr_z) (pc_chunks_with_ids data ids c))
