(* C03 / C05: confidence *)
let rd_cfrow () =
  let id = rd_z () in let sp = rd_z () in let ks = rd_list rd_z () in
  let tg = rd_bool () in let sc = rd_z () in
  { cf_id = id; cf_spec = sp; cf_keys = ks; cf_target = tg; cf_score = sc }
let pr_rq (r, q) = pr_z r.cf_id; pr_q q
let () =
  reg "c03.confidence" (fun () ->
      let c = rd_nat () in let dedup = rd_bool () in let nl = rd_nat () in
      let rows = rd_list rd_cfrow () in
      pr_list (fun (t, d) -> pr_list pr_rq t; pr_list pr_rq d) (cf_confidence c dedup nl rows));
  reg "c03.levels" (fun () ->
      let c = rd_nat () in let cd = rd_bool () in let dedup = rd_bool () in let nl = rd_nat () in
      let rows = rd_list rd_cfrow () in
      pr_list (pr_list (fun r -> pr_z r.cf_id))
        (cf_levels (fun r -> r.cf_score) cf_lkey c cd dedup nl rows))
