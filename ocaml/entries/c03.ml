(* C03 / C05: confidence *)
let rd_cfrow () =
  let id = rd_z () in let sp = rd_z () in let ks = rd_list rd_z () in
  let tg = rd_bool () in let sc = rd_z () in
  { cf_id = id; cf_spec = sp; cf_keys = ks; cf_target = tg; cf_score = sc }
let pr_rq (r, q) = pr_z r.cf_id; pr_q q
let () =
  reg "c03.confidence" (fun () ->
      let c = rd_nat () in let dedup = rd_bool () in let nl = rd_nat () in
      let rows = rd_list rd_cfrow () in
      pr_list (fun (t, d) -> pr_list pr_rq t; pr_list pr_rq d) (cf_confidence c dedup nl rows));
  reg "c03.levels" (fun () ->
      let c = rd_nat () in let cd = rd_bool () in let dedup = rd_bool () in let nl = rd_nat () in
      let rows = rd_list rd_cfrow () in
      pr_list (pr_list (fun r -> pr_z r.cf_id))
        (cf_levels (fun r -> r.cf_score) cf_lkey c cd dedup nl rows))

(* C03: the stand-alone rollup tool (Model/Rollup.v) *)
let rd_rufile () =
  let name = rd_str () in let schema = rd_z () in let rows = rd_list rd_cfrow () in
  (name, (schema, rows))
let () =
  reg "c03.rollup" (fun () ->
      let hp = rd_bool () in let ht = rd_bool () in
      let root = rd_str () in let base = rd_str () in
      let raw_cols = rd_list rd_str () in
      let tf = rd_list rd_rufile () in let df = rd_list rd_rufile () in
      pr_result (pr_list (fun (lv, (t, d)) -> pr_str lv; pr_list pr_rq t; pr_list pr_rq d))
        (ru_rollup hp ht root base raw_cols tf df));
  reg "c03.rollup_temp" (fun () ->
      let hp = rd_bool () in let ht = rd_bool () in
      let root = rd_str () in let base = rd_str () in
      let raw_cols = rd_list rd_str () in
      let tf = rd_list rd_rufile () in let df = rd_list rd_rufile () in
      pr_result (pr_list (fun (lv, rows) -> pr_str lv; pr_list (fun r -> pr_z r.cf_id) rows))
        (ru_temp hp ht root base raw_cols tf df));
  reg "c03.rollup_levels" (fun () ->
      let parents = rd_list (rd_pair rd_str rd_str) () in let base = rd_str () in
      pr_result (pr_list pr_str) (ru_compute_levels parents base));
  reg "c03.rollup_consts" (fun () ->
      pr_list (fun (a, b) -> pr_str a; pr_str b) ru_default_parents;
      pr_list (fun (a, b) -> pr_str a; pr_str b) ru_column_map);
  reg "c03.rollup_std_name" (fun () -> let n = rd_str () in pr_str (ru_std_name n))
