(* C16 *)
let () =
  let rd_entries = rd_list (rd_pair rd_str (rd_list rd_nat)) in
  let pr_name = pr_list pr_str in
  let pr_pmap = pr_list (pr_pair pr_nat (pr_list pr_name)) in
  reg "c16.read_fasta" (fun () ->
      let k = rd_nat () in let pre = rd_str () in let es = rd_entries () in
      pr_result (fun o ->
          pr_list (pr_pair pr_nat pr_name) o.gr_unique;
          pr_pmap o.gr_shared;
          pr_list (pr_pair pr_str pr_str) o.gr_protein_map;
          pr_bool o.gr_has_decoys) (gr_read_fasta_str k pre es));
  reg "c16.group" (fun () ->
      let k = rd_nat () in let ps = rd_entries () in
      let pm = rd_list (rd_pair rd_nat (rd_list (rd_list rd_str))) () in
      pr_result (fun (g, pm') -> pr_list (pr_pair pr_name (pr_list pr_nat)) g; pr_pmap pm')
        (gr_group_str k ps pm))
