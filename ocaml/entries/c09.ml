(* C09: file operations of assign_confidence / the PIN verify step *)
let rd_fname () : fname =
  match rd_int () with
  | 0 -> let p = rd_z () in let i = rd_nat () in let e = rd_bool () in NChunk (p, i, e)
  | 1 -> let l = rd_nat () in let e = rd_bool () in NLevel (l, e)
  | 2 -> let p = rd_z () in let d = rd_bool () in let l = rd_nat () in NResult (p, d, l)
  | 3 -> NPin (rd_z ())
  | 4 -> NTmpTsv (rd_z ())
  | 5 -> NOther (rd_z ())
  | _ -> raise (Bad "fname")
let pr_fname = function
  | NChunk (p, i, e) -> pr_int 0; pr_z p; pr_nat i; pr_bool e
  | NLevel (l, e) -> pr_int 1; pr_nat l; pr_bool e
  | NResult (p, d, l) -> pr_int 2; pr_z p; pr_bool d; pr_nat l
  | NPin p -> pr_int 3; pr_z p
  | NTmpTsv p -> pr_int 4; pr_z p
  | NOther z -> pr_int 5; pr_z z
let rd_fscfg () =
  let ext = rd_bool () in let c = rd_nat () in let dedup = rd_bool () in let nl = rd_nat () in
  let decoys = rd_bool () in let app = rd_bool () in let glob = rd_bool () in let prot = rd_bool () in
  let colls = rd_list (fun () -> let p = rd_z () in let rows = rd_list rd_cfrow () in
                                 let pr = rd_opt (rd_pair (rd_list rd_z) (rd_list rd_cfrow)) () in
                                 { fc_pfx = p; fc_rows = rows; fc_prot = pr }) () in
  { fg_ext = ext; fg_c = c; fg_dedup = dedup; fg_nlevels = nl; fg_decoys = decoys; fg_append = app;
    fg_glob = glob; fg_proteins = prot; fg_colls = colls }
let rd_crow () = let r = rd_cfrow () in let q = rd_q () in (r, q)
let () =
  reg "c09.run" (fun () ->
      let g = rd_fscfg () in let k = rd_opt rd_nat () in
      let s = rd_list (rd_pair rd_fname (rd_list rd_crow)) () in
      pr_opt (pr_list (pr_pair pr_fname (pr_list pr_rq))) (fs_run g k s));
  reg "c09.trace" (fun () ->
      let g = rd_fscfg () in
      pr_list (pr_pair pr_nat pr_fname) (fs_run_trace g));
  reg "c09.results" (fun () ->
      let g = rd_fscfg () in pr_list pr_fname (fs_result_names g));
  reg "c09.verify" (fun () ->
      let am = rd_bool () in let p = rd_z () in
      let s = rd_list (rd_pair rd_fname rd_str) () in
      pr_opt (pr_list (pr_pair pr_fname pr_str)) (fs_verify am p s))
