(* C15 *)
let rd_pk_proteins () =
  let pm = rd_list (rd_pair rd_str rd_str) () in
  let sh = rd_list rd_str () in
  let prm = rd_list (rd_pair rd_str rd_str) () in
  let hd = rd_bool () in
  let pre = rd_str () in
  { pk_pepmap = pm; pk_shared = sh; pk_protmap = prm; pk_has_decoys = hd; pk_prefix = pre }
let rd_pk_row () =
  let t = rd_bool () in let p = rd_str () in let s = rd_z () in
  { pk_target = t; pk_pep = p; pk_score = s }
let pr_pk_entry e =
  pr_str e.pk_group; pr_str e.pk_best; pr_str e.pk_stripped; pr_z e.pk_escore; pr_bool e.pk_etarget
let () =
  reg "c15.unmod" (fun () -> let s = rd_str () in pr_str (st_unmod s));
  reg "c15.unprefix" (fun () -> let s = rd_str () in pr_str (st_unprefix s));
  reg "c15.before_dot" (fun () -> let s = rd_str () in pr_str (st_before_dot s));
  reg "c15.core" (fun () -> let s = rd_str () in pr_str (st_core s));
  reg "c15.strip_all" (fun () -> let l = rd_list rd_str () in pr_list pr_str (st_strip_all l));
  reg "c15.pair_key" (fun () -> let p = rd_pk_proteins () in let g = rd_str () in pr_str (pk_pair_key p g));
  reg "c15.prefix_members" (fun () -> let p = rd_str () in let g = rd_str () in pr_str (pk_prefix_members p g));
  reg "c15.picked" (fun () ->
      let p = rd_pk_proteins () in let dm = rd_list (rd_pair rd_str rd_str) () in
      let order = rd_list rd_nat () in let rows = rd_list rd_pk_row () in
      pr_result (pr_list pr_pk_entry) (pk_picked p dm order rows));
  reg "c15.picked_q" (fun () ->
      let p = rd_pk_proteins () in let dm = rd_list (rd_pair rd_str rd_str) () in
      let order = rd_list rd_nat () in let rows = rd_list rd_pk_row () in
      pr_result (pr_list (pr_pair pr_pk_entry pr_q)) (pk_picked_q p dm order rows));
  (* peptides.match_decoy: ignore_mods, recorded shuffle positions, decoys, targets *)
  reg "c15.match_decoy" (fun () ->
      let im = rd_bool () in let perm = rd_list rd_nat () in
      let ds = rd_list rd_str () in let ts = rd_list rd_str () in
      pr_result (pr_list (pr_pair pr_str pr_str)) (md_match im perm ds ts));
  reg "c15.match_steps" (fun () ->
      let im = rd_bool () in let perm = rd_list rd_nat () in
      let ds = rd_list rd_str () in let ts = rd_list rd_str () in
      pr_result (pr_list (pr_pair pr_str (pr_opt pr_str))) (md_steps im perm ds ts));
  reg "c15.md_key_mods" (fun () -> let s = rd_str () in pr_str (md_key_mods s));
  reg "c15.md_key_plain" (fun () -> let s = rd_str () in pr_str (md_key_plain s));
  reg "c15.md_sort_strs" (fun () -> let l = rd_list rd_str () in pr_list pr_str (md_sort_strs l))
