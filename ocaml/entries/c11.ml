(* C11: calibrate_scores with its desc argument (c11.calibrate itself is registered in c02.ml) *)
let () =
  reg "c11.calibrate_d" (fun () ->
      let desc = rd_bool () in
      let sc = rd_list rd_z () in let tg = rd_list rd_bool () in let thr = rd_q () in
      pr_result (pr_list pr_q) (calibrate_d desc sc tg thr))
