(* C01 *)
let rd_kind () = match rd_int () with 0 -> LBool | 1 -> LInt | 2 -> LFloat | _ -> raise (Bad "kind")
let () =
  reg "c01.tdc" (fun () ->
      let desc = rd_bool () in let sc = rd_list rd_z () in let k = rd_kind () in
      let lb = rd_list rd_z () in pr_result (pr_list pr_q) (tdc desc sc k lb));
  reg "c01.labels" (fun () ->
      let desc = rd_bool () in let sc = rd_list rd_z () in let tg = rd_list rd_bool () in
      let thr = rd_q () in pr_result (pr_list pr_z) (update_labels desc sc tg thr))
