(* C14 — rows are (exact score image, row id) *)
let () =
  let rd_row = rd_pair rd_z rd_z in
  let pr_row = pr_pair pr_z pr_z in
  let rd_inputs = rd_list (rd_list rd_row) in
  let pr_err e = pr_int (err_code e) in
  reg "c14.merge_all" (fun () -> let i = rd_inputs () in pr_list pr_row (mg_merge_all_z i));
  reg "c14.merge_sort" (fun () -> let i = rd_inputs () in pr_result (pr_list pr_row) (mg_merge_sort_z i));
  reg "c14.merge_stream" (fun () ->
      let d = rd_bool () in let i = rd_inputs () in
      pr_pair (pr_list pr_row) (pr_opt pr_err) (mg_merge_stream_z d i));
  reg "c14.merge_checked" (fun () ->
      let d = rd_bool () in let i = rd_inputs () in pr_result (pr_list pr_row) (mg_merge_checked_z d i))
