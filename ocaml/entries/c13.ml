(* C13 *)
let c13_rd_rows () = rd_list (rd_list rd_z) ()
let c13_rd_table () =
  let names = rd_list rd_nat () in
  let rows = c13_rd_rows () in
  { tb_names = names; tb_rows = rows }
(* reader := 0 table | 1 table | 2 table batchlens batchlens0 | 3 reader map | 4 readers | 5 reader k fn
   fn := 0 z (const) | 1 n (copy of column n) | 2 (len of the frame) | 3 z (one value only) *)
let rec c13_rd_reader () =
  match rd_int () with
  | 0 -> TrFrame (c13_rd_table ())
  | 1 -> TrCsv (c13_rd_table ())
  | 2 -> let t = c13_rd_table () in let bl = rd_list rd_nat () in let bl0 = rd_list rd_nat () in TrParquet (t, bl, bl0)
  | 3 -> let r = c13_rd_reader () in let m = rd_list (rd_pair rd_nat rd_nat) () in TrMapped (r, m)
  | 4 -> TrJoined (rd_list c13_rd_reader ())
  | 5 -> let r = c13_rd_reader () in
         let k = rd_nat () in
         let f = (match rd_int () with
                  | 0 -> tr_fn_const (rd_z ())
                  | 1 -> tr_fn_copy (rd_nat ())
                  | 2 -> tr_fn_len
                  | 3 -> tr_fn_short (rd_z ())
                  | _ -> raise (Bad "c13 fn")) in
         TrComputed (r, k, f)
  | _ -> raise (Bad "c13 reader")
let c13_pr_frame f =
  pr_list pr_nat f.ch_index; pr_list pr_nat f.ch_names; pr_list (pr_list pr_z) f.ch_rows
let c13_rd_kind () =
  match rd_int () with 0 -> BwFrame | 1 -> BwDicts | 2 -> BwRecords | _ -> raise (Bad "c13 kind")
let () =
  reg "c13.read" (fun () ->
      let r = c13_rd_reader () in let cols = rd_opt (rd_list rd_nat) () in
      pr_result c13_pr_frame (tr_read r cols));
  reg "c13.chunks" (fun () ->
      let r = c13_rd_reader () in let c = rd_nat () in let cols = rd_opt (rd_list rd_nat) () in
      pr_result (pr_list c13_pr_frame) (tr_chunks r c cols));
  reg "c13.names" (fun () -> let r = c13_rd_reader () in pr_list pr_nat (tr_names r));
  reg "c13.writer" (fun () ->
      let b = rd_nat () in let k = c13_rd_kind () in let ds = rd_list (rd_list (rd_list rd_z)) () in
      pr_result (pr_pair (pr_list (pr_list (pr_list pr_z))) pr_nat) (bw_from_suffix b k ds));
  reg "c13.buffered" (fun () ->
      let b = rd_nat () in let k = c13_rd_kind () in let ds = rd_list (rd_list (rd_list rd_z)) () in
      pr_result (fun s -> pr_list (pr_list (pr_list pr_z)) s.bw_emitted; pr_list (pr_list pr_z) (bw_pending s))
        (bw_run b k ds));
  (* rows handed to the file after each append, then after finalize *)
  reg "c13.trace" (fun () ->
      let b = rd_nat () in let k = c13_rd_kind () in let ds = rd_list (rd_list (rd_list rd_z)) () in
      let count s = List.fold_left (fun a x -> a + List.length x) 0 s.bw_emitted in
      let rec go s ds acc = match ds with
        | [] -> (match bw_finalize b s with
                 | Ok s' -> Ok (List.rev (count s' :: acc))
                 | Err e -> Err e)
        | d :: r -> (match bw_append b k s d with
                     | Ok s' -> go s' r (count s' :: acc)
                     | Err e -> Err e) in
      pr_result (pr_list pr_int) (go bw_init ds []));
  reg "c13.pure" (fun () ->
      let c = rd_nat () in let l = rd_list rd_z () in
      pr_list (pr_list pr_z) (ch_chunks c l); pr_list (pr_list pr_nat) (ch_ranges c l))
