(* C20 *)
let px_rd_hit () =
  let pep = rd_str () in
  let prot = rd_str () in
  let calc = rd_opt rd_z () in
  let mc = rd_opt rd_z () in
  let ntt = rd_opt rd_z () in
  let nmp = rd_opt rd_z () in
  let infos = rd_list (rd_list (rd_pair rd_z rd_str)) () in
  let alts = rd_list rd_str () in
  let scores = rd_list (rd_pair rd_str rd_str) () in
  { h_peptide = pep; h_protein = prot; h_calc = calc; h_mc = mc; h_ntt = ntt; h_nmp = nmp;
    h_modinfos = infos; h_alts = alts; h_scores = scores }
let px_rd_spectrum () =
  let scan = rd_opt rd_z () in
  let charge = rd_opt rd_z () in
  let rt = rd_opt rd_z () in
  let mass = rd_opt rd_z () in
  let results = rd_list (rd_list px_rd_hit) () in
  { s_scan = scan; s_charge = charge; s_rt = rt; s_mass = mass; s_results = results }
let px_rd_run () =
  let base = rd_str () in
  let raw = rd_opt rd_str () in
  let spectra = rd_list px_rd_spectrum () in
  { r_base = base; r_raw = raw; r_spectra = spectra }
let px_rd_file () =
  let runs = rd_list px_rd_run () in
  let broken = rd_bool () in
  { f_runs = runs; f_broken = broken }
let px_pr_psm p =
  pr_str p.p_file; pr_z p.p_scan; pr_z p.p_charge; pr_z p.p_rt; pr_z p.p_exp; pr_z p.p_calc;
  pr_str p.p_peptide; pr_list pr_str p.p_proteins; pr_str (px_join_tab p.p_proteins);
  pr_bool p.p_label; pr_opt pr_z p.p_mc; pr_opt pr_z p.p_ntt; pr_opt pr_z p.p_nmp;
  pr_list (pr_pair pr_str pr_str) p.p_scores
let () =
  reg "c20.read" (fun () ->
      let prefix = rd_str () in
      let files = rd_list px_rd_file () in
      pr_result (pr_list px_pr_psm) (px_read prefix files));
  reg "c20.insert_mods" (fun () ->
      let pep = rd_str () in
      let mods = rd_list (rd_pair rd_z rd_str) () in
      pr_str (px_insert_mods pep mods));
  reg "c20.label" (fun () ->
      let prefix = rd_str () in
      let prim = rd_str () in
      let alts = rd_list rd_str () in
      pr_bool (px_label prefix prim alts));
  reg "c20.file_name" (fun () ->
      let base = rd_str () in
      let raw = rd_str () in
      pr_str (px_file_name base raw))
