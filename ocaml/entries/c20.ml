(* C20 *)
let px_rd_hit () =
  let pep = rd_str () in
  let prot = rd_str () in
  let calc = rd_opt rd_z () in
  let mc = rd_opt rd_z () in
  let ntt = rd_opt rd_z () in
  let nmp = rd_opt rd_z () in
  let infos = rd_list (rd_list (rd_pair rd_z rd_str)) () in
  let alts = rd_list rd_str () in
  let scores = rd_list (rd_pair rd_str rd_str) () in
  { h_peptide = pep; h_protein = prot; h_calc = calc; h_mc = mc; h_ntt = ntt; h_nmp = nmp;
    h_modinfos = infos; h_alts = alts; h_scores = scores }
let px_rd_spectrum () =
  let scan = rd_opt rd_z () in
  let charge = rd_opt rd_z () in
  let rt = rd_opt rd_z () in
  let mass = rd_opt rd_z () in
  let results = rd_list (rd_list px_rd_hit) () in
  { s_scan = scan; s_charge = charge; s_rt = rt; s_mass = mass; s_results = results }
let px_rd_run () =
  let base = rd_str () in
  let raw = rd_opt rd_str () in
  let spectra = rd_list px_rd_spectrum () in
  { r_base = base; r_raw = raw; r_spectra = spectra }
let px_rd_file () =
  let runs = rd_list px_rd_run () in
  let broken = rd_bool () in
  { f_runs = runs; f_broken = broken }
let px_pr_psm p =
  pr_str p.p_file; pr_z p.p_scan; pr_z p.p_charge; pr_z p.p_rt; pr_z p.p_exp; pr_z p.p_calc;
  pr_str p.p_peptide; pr_list pr_str p.p_proteins; pr_str (px_join_tab p.p_proteins);
  pr_bool p.p_label; pr_opt pr_z p.p_mc; pr_opt pr_z p.p_ntt; pr_opt pr_z p.p_nmp;
  pr_list (pr_pair pr_str pr_str) p.p_scores
let () =
  reg "c20.read" (fun () ->
      let prefix = rd_str () in
      let files = rd_list px_rd_file () in
      pr_result (pr_list px_pr_psm) (px_read prefix files));
  reg "c20.insert_mods" (fun () ->
      let pep = rd_str () in
      let mods = rd_list (rd_pair rd_z rd_str) () in
      pr_str (px_insert_mods pep mods));
  reg "c20.label" (fun () ->
      let prefix = rd_str () in
      let prim = rd_str () in
      let alts = rd_list rd_str () in
      pr_bool (px_label prefix prim alts));
  reg "c20.file_name" (fun () ->
      let base = rd_str () in
      let raw = rd_str () in
      pr_str (px_file_name base raw))

(* ---- c20.table: read_pepxml with its options; the floating-point oracles arrive as recorded tables ---- *)
let c20_bits_of_pos (p : positive) : string =
  let b = Buffer.create 64 in
  let rec go p = match p with
    | XH -> Buffer.add_char b '1'
    | XO p' -> Buffer.add_char b '0'; go p'
    | XI p' -> Buffer.add_char b '1'; go p' in
  go p; Buffer.contents b          (* least significant bit first: a key, not a numeral *)
let c20_key_z (x : z) : string = match x with
  | Z0 -> "0" | Zpos p -> "+" ^ c20_bits_of_pos p | Zneg p -> "-" ^ c20_bits_of_pos p
let c20_key_q (x : q) : string =
  let r = qred x in c20_key_z r.qnum ^ "/" ^ c20_bits_of_pos r.qden
let c20_key_str (s : z list) : string = String.concat "," (List.map c20_key_z s)
let c20_tbl (what : string) (key : 'k -> string) (entries : ('k * 'v) list) : 'k -> 'v =
  let h = Hashtbl.create (2 * List.length entries + 1) in
  List.iter (fun (k, v) -> Hashtbl.replace h (key k) v) entries;
  fun k -> match Hashtbl.find_opt h (key k) with
    | Some v -> v
    | None -> raise (Bad ("c20: the recorded " ^ what ^ " oracle has no value for an argument the model asks for"))
let px_pr_cell = function
  | CText s -> pr_int 0; pr_str s
  | CBool b -> pr_int 1; pr_bool b
  | CInt z -> pr_int 2; pr_z z
  | CAttr z -> pr_int 3; pr_z z
  | CNum q -> pr_int 4; pr_q q
  | CNaN -> pr_int 5
  | CNegInf -> pr_int 6
let px_pr_col (c : px_col) =
  pr_str c.c_name;
  pr_int (match c.c_kind with KText -> 0 | KBool -> 1 | KInt -> 2 | KFloat -> 3);
  pr_int (match c.c_role with RMeta -> 0 | RFeature -> 1);
  pr_bool c.c_logged;
  pr_list px_pr_cell c.c_cells
let px_pr_roles (r : px_roles) =
  pr_str r.ro_target; pr_list pr_str r.ro_spectrum; pr_str r.ro_peptide; pr_str r.ro_protein;
  pr_list pr_str r.ro_features; pr_str r.ro_filename; pr_str r.ro_scan; pr_str r.ro_calcmass;
  pr_str r.ro_expmass; pr_str r.ro_rt; pr_str r.ro_charge
let () =
  reg "c20.table" (fun () ->
      let prefix = rd_str () in
      let files = rd_list px_rd_file () in
      let excl = rd_list rd_str () in
      let bin = rd_opt rd_q () in
      let to_df = rd_bool () in
      let num = c20_tbl "float(text)" c20_key_str (rd_list (rd_pair rd_str (rd_opt rd_q)) ()) in
      let lg = c20_tbl "log10" c20_key_q (rd_list (rd_pair rd_q rd_q) ()) in
      let md2 = c20_tbl "mass_diff" (fun (a, b) -> c20_key_z a ^ ";" ^ c20_key_z b)
          (rd_list (rd_pair (rd_pair rd_z rd_z) rd_q) ()) in
      let mz3 = c20_tbl "abs_mz_diff" (fun (a, (b, c)) -> c20_key_z a ^ ";" ^ c20_key_z b ^ ";" ^ c20_key_z c)
          (rd_list (rd_pair (rd_pair rd_z (rd_pair rd_z rd_z)) rd_q) ()) in
      let rp = c20_tbl "repr" c20_key_q (rd_list (rd_pair rd_q (rd_pair rd_q rd_z)) ()) in
      let sf = c20_tbl "bin suffix" c20_key_q (rd_list (rd_pair rd_q rd_str) ()) in
      let md a b = md2 (a, b) in
      let mz a b c = mz3 (a, (b, c)) in
      let range = rd_opt (rd_pair rd_q rd_q) () in       (* min / max of the recorded mass_diff column *)
      let sfx _size lo hi x =
        (match range with
         | Some (l, h) when c20_key_q l = c20_key_q lo && c20_key_q h = c20_key_q hi -> ()
         | _ -> raise (Bad "c20: the model's min/max of mass_diff differ from the recorded column"));
        sf x in
      pr_result (fun (rows, t) ->
          pr_list px_pr_psm rows;
          pr_list px_pr_col t.o_cols;
          pr_opt px_pr_roles t.o_roles)
        (px_read_table num lg md mz rp sfx prefix files excl bin to_df))
