(* C17 *)
let () =
  reg "c17.digest_ends" (fun () ->
      let s = rd_str () in let ends = rd_list rd_nat () in
      let mc = rd_z () in let mn = rd_z () in let mx = rd_z () in
      let semi = rd_bool () in let clip = rd_bool () in
      pr_list pr_str (dg_digest_ends s ends mc mn mx semi clip));
  reg "c17.digest_class" (fun () ->
      let cls = rd_str () in let nf = rd_str () in let s = rd_str () in
      let mc = rd_z () in let mn = rd_z () in let mx = rd_z () in
      let semi = rd_bool () in let clip = rd_bool () in
      pr_list pr_str (dg_digest_class cls nf s mc mn mx semi clip));
  reg "c17.class_sites" (fun () ->
      let cls = rd_str () in let nf = rd_str () in let s = rd_str () in
      pr_list pr_nat (dg_class_sites cls nf s))
