(* C06 *)
let pr_qout = function
  | PepFinite qs -> Buffer.add_string buf "0 "; pr_list pr_q qs
  | PepAllInf n -> Buffer.add_string buf "1 "; pr_nat n
let () =
  reg "c06.skip" (fun () -> Buffer.add_string buf "SKIP");
  reg "c06.mono" (fun () ->
      let asc = rd_bool () in let l = rd_list rd_q () in pr_list pr_q (pep_monotonize_simple asc l));
  reg "c06.interp" (fun () ->
      let xp = rd_list rd_z () in let fp = rd_list rd_q () in let xs = rd_list rd_z () in
      pr_result (pr_list pr_q) (pep_interp_all xp fp xs));
  reg "c06.qvality" (fun () ->
      let sc = rd_list rd_z () in let tg = rd_list rd_bool () in let fs = rd_list rd_q () in
      pr_result (pr_list pr_q) (pep_qvality sc tg fs));
  reg "c06.qvality_sorted" (fun () ->
      let fs = rd_list rd_q () in pr_list pr_q (pep_qvality_sorted_order fs));
  reg "c06.nnls" (fun () ->
      let scale = rd_bool () in let sc = rd_list rd_z () in let tg = rd_list rd_bool () in
      let grid = rd_list rd_z () in let d = rd_list rd_q () in
      pr_result (pr_list pr_q) (pep_nnls_peps scale sc tg grid d));
  reg "c06.counts" (fun () ->
      let sc = rd_list rd_z () in let tg = rd_list rd_bool () in
      let srt = rd_list (rd_pair rd_z rd_bool) () in let pi0 = rd_q () in
      pr_result pr_qout (pep_qvalues_from_counts sc tg srt pi0));
  reg "c06.frompeps" (fun () ->
      let sc = rd_list rd_z () in let tg = rd_list rd_bool () in
      let srt = rd_list (rd_pair rd_z (rd_pair rd_bool rd_q)) () in
      pr_result (pr_list pr_q) (pep_qvalues_from_peps sc tg srt))
