(* C19 *)
let () =
  reg "c19.convert_file" (fun () -> let t = rd_str () in pr_result pr_str (convert_file t));
  reg "c19.is_valid" (fun () -> let t = rd_str () in pr_result pr_bool (is_valid t));
  reg "c19.convert_line" (fun () ->
      let l = rd_str () in let i = rd_nat () in let n = rd_nat () in pr_str (convert_line l i n));
  reg "c19.parse_header" (fun () -> let h = rd_str () in pr_result (pr_pair pr_nat pr_nat) (parse_header h))
