(* C19: every entry takes the separators first: sep_column (one character code), sep_protein (a string) *)
let () =
  reg "c19.convert_file" (fun () ->
      let sc = rd_z () in let sp = rd_str () in let t = rd_str () in
      pr_result pr_str (convert_file_sep sc sp t));
  reg "c19.is_valid" (fun () ->
      let sc = rd_z () in let t = rd_str () in pr_result pr_bool (is_valid_sep sc t));
  reg "c19.convert_line" (fun () ->
      let sc = rd_z () in let sp = rd_str () in
      let l = rd_str () in let i = rd_nat () in let n = rd_nat () in
      pr_str (convert_line_sep sc sp l i n));
  reg "c19.parse_header" (fun () ->
      let sc = rd_z () in let h = rd_str () in
      pr_result (pr_pair pr_nat pr_nat) (parse_header_sep sc h));
  (* the default-argument instances used by Model/Fs.v (C09): must agree with the calls without separators *)
  reg "c19.convert_file_default" (fun () -> let t = rd_str () in pr_result pr_str (convert_file t));
  reg "c19.is_valid_default" (fun () -> let t = rd_str () in pr_result pr_bool (is_valid t))
(* the CLI's verify step on the text of one PIN file (Model/PinVerify.v) *)
let () =
  reg "c19.verify_text" (fun () -> let t = rd_str () in pr_result pr_str (pin_verify_text t))
