(* C02 / C11 / C05: brew bookkeeping *)
let () =
  reg "c02.split" (fun () ->
      let keys = rd_list rd_z () in let k = rd_nat () in
      pr_result (pr_list (pr_list pr_nat)) (bw_split keys k));
  reg "c02.split_train" (fun () ->
      let keys = rd_list rd_z () in let k = rd_nat () in
      let n = Model.length keys in
      pr_result (fun folds ->
          pr_list (pr_list pr_nat) folds;
          pr_list (pr_list pr_nat) (bw_train_sets folds n);
          pr_list pr_nat (bw_fold_of folds n)) (bw_split keys k));
  reg "c02.plan" (fun () ->
      let cap = rd_opt rd_nat () in let sizes = rd_list rd_nat () in
      pr_result (pr_list (pr_opt pr_nat)) (bw_subset_plan cap sizes));
  reg "c02.brew_scores" (fun () ->
      let dc = rd_bool () in let c = rd_nat () in let k = rd_nat () in let thr = rd_q () in
      let keys = rd_list rd_z () in let tg = rd_list rd_bool () in
      let raw = rd_list (rd_list rd_z) () in
      pr_result (pr_list pr_q) (bw_brew_scores dc c k thr keys tg raw));
  (* brew(ensemble=True): fitted = (Model.fold, decision values on every row) in delivery order *)
  reg "c02.brew_scores_ens" (fun () ->
      let c = rd_nat () in let k = rd_nat () in
      let keys = rd_list rd_z () in
      let fitted = rd_list (rd_pair rd_nat (rd_list rd_z)) () in
      pr_result (pr_list pr_q) (bw_brew_scores_ens c k keys fitted));
  reg "c02.predict" (fun () ->
      let dc = rd_bool () in let c = rd_nat () in let k = rd_nat () in let thr = rd_q () in
      let fo = rd_list rd_nat () in let tg = rd_list rd_bool () in
      let raw = rd_list (rd_list rd_z) () in
      pr_result (pr_list pr_q) (bw_predict dc c k thr fo tg raw));
  reg "c11.calibrate" (fun () ->
      let sc = rd_list rd_z () in let tg = rd_list rd_bool () in let thr = rd_q () in
      pr_result (pr_list pr_q) (calibrate sc tg thr))
