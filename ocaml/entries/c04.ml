(* C04 *)
let rd_kind04 () = match rd_int () with 0 -> FdCorrect | 1 -> FdNull | _ -> raise (Bad "kind")
let () =
  reg "c04.fdp" (fun () ->
      let alpha = rd_q () in let ri = rd_list rd_kind04 () in let w = rd_list rd_bool () in
      pr_q (fd_fdp alpha ri w); pr_q (fdp_via_tdc alpha ri w); pr_q (fd_ratio alpha ri w));
  reg "c04.sums" (fun () ->
      let alpha = rd_q () in let ri = rd_list rd_kind04 () in
      let m = fd_count_n ri in
      pr_q (fd_qsum (Model.map (fd_fdp alpha ri) (fd_labs m)));
      pr_q (fd_qsum (Model.map (fd_ratio alpha ri) (fd_labs m))))
