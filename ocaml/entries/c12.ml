(* C12 *)
let rd_skind () = match rd_int () with 0 -> FitDF | 1 -> FitProba2 | 2 -> FitProba1 | _ -> raise (Bad "skind")
let () =
  reg "c12.fit" (fun () ->
      let patched = rd_bool () in
      let lk = rd_nat () in let idc = rd_nat () in let sc0 = rd_nat () in let kk = rd_z () in
      let k = rd_skind () in
      let mode = rd_nat () in let dir = rd_str () in let g0 = rd_z () in
      let names = rd_list rd_str () in let cols = rd_list (rd_list rd_z) () in
      let targets = rd_list rd_bool () in
      let sigma = rd_list rd_nat () in let shuffle = rd_bool () in
      let thr = rd_q () in let max_iter = rd_nat () in let override = rd_bool () in
      let names2 = rd_list rd_str () in let cols2 = rd_list (rd_list rd_z) () in let n2 = rd_nat () in
      let (trace, r) = fit_demo_run patched lk idc sc0 kk k mode dir g0 names cols targets
                         sigma shuffle thr max_iter override names2 cols2 n2 in
      pr_list (pr_list (pr_pair pr_z pr_bool)) trace;
      pr_result (fun (((((g, fp), d), b), p1), p2) ->
          pr_z g; pr_z fp; pr_opt pr_bool d; pr_opt pr_nat b;
          pr_result (pr_list pr_z) p1; pr_result (pr_list pr_z) p2) r);
  reg "c12.predict" (fun () ->
      let trained = rd_bool () in let sc0 = rd_nat () in
      let stored = rd_list rd_str () in let k = rd_skind () in let g = rd_z () in
      let names = rd_list rd_str () in let cols = rd_list (rd_list rd_z) () in let n = rd_nat () in
      pr_result (pr_list pr_z) (fit_demo_decision trained sc0 stored k g names cols n))
