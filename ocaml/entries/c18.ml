(* C18 — decoy generation and FASTA round trip.
   Oracles are passed as recorded data and turned into the function arguments of the model here:
   - permutation oracle: [stream] = the values np.random.permutation returned, in call order;
     [draw j k] is the j-th one; it is an error (BAD) if the model asks for more values than
     were recorded, for a value of another length than recorded, or leaves recorded values unused;
   - wrap oracle: [wraps] = (sequence, lines returned by textwrap.wrap) pairs; BAD if the model
     asks for a sequence that is not in the table. *)
let rec c18_int_of_nat (n : nat) : int = match n with O -> 0 | S m -> 1 + c18_int_of_nat m

let c18_rd_enz () : dc_enzyme =
  match next () with
  | "0" -> DcClass (rd_str ())
  | "1" -> DcGiven (rd_list (rd_list rd_nat) ())
  | t -> raise (Bad ("enzyme " ^ t))

let () =
  reg "c18.make_decoys" (fun () ->
      let files = rd_list rd_str () in
      let prefix = rd_str () in
      let enz = c18_rd_enz () in
      let reverse = rd_bool () in
      let conc = rd_bool () in
      let stream = Array.of_list (rd_list (rd_list rd_nat) ()) in
      let wraps = rd_list (rd_pair rd_str (rd_list rd_str)) () in
      let used = ref 0 in
      let draw (j : nat) (k : nat) : nat list =
        let ji = c18_int_of_nat j in
        if ji >= Array.length stream then raise (Bad "c18: permutation oracle exhausted");
        let p = stream.(ji) in
        if List.length p <> c18_int_of_nat k then raise (Bad "c18: recorded permutation has another length");
        if ji + 1 > !used then used := ji + 1;
        p in
      let wrapf (s : z list) : z list list =
        match List.assoc_opt s wraps with
        | Some ls -> ls
        | None -> raise (Bad "c18: wrap oracle has no value for a sequence") in
      match dc_make_decoys draw wrapf files prefix enz reverse conc with
      | Err e -> pr_result pr_str (Err e)
      | Ok txt ->
        if !used <> Array.length stream then raise (Bad "c18: recorded permutations left unused");
        pr_result pr_str (Ok txt);
        (* re-read the written text *)
        pr_result (pr_list (pr_pair pr_str pr_str)) (fa_parse_files [txt]));
  reg "c18.parse" (fun () ->
      let files = rd_list rd_str () in
      pr_result (pr_list (pr_pair pr_str pr_str)) (fa_parse_files files));
  reg "c18.wrap70" (fun () -> let s = rd_str () in pr_list pr_str (fa_wrap70 s));
  reg "c18.sites" (fun () ->
      let cls = rd_str () in let s = rd_str () in pr_list pr_nat (dc_sites cls s))
