(* driver.ml — line-oriented driver around the extracted models.
   Input : one case per line:  <entry> <tokens...>      (tokens are signed binary integers)
   Output: one line per case with the result in the same token encoding.
   Encodings: int -> [-]b101 ; bool -> 0/1 ; list -> len x1..xn ; option -> 0 | 1 x ;
              pair -> a b ; Q -> num den ; result -> 0 v | 1 errcode                      *)
open Model

exception Bad of string

(* ---------- tokens ---------- *)
let toks : string array ref = ref [||]
let pos = ref 0
let next () =
  if !pos >= Array.length !toks then raise (Bad "eol");
  let t = !toks.(!pos) in incr pos; t

(* ---------- readers ---------- *)
let pos_of_bits (s : string) (start : int) : positive =
  (* s.[start] = '1' is the most significant bit *)
  let n = String.length s in
  let rec go acc i =
    if i >= n then acc
    else go (if s.[i] = '1' then XI acc else XO acc) (i + 1) in
  go XH (start + 1)

let rd_z () : z =
  let t = next () in
  let neg = String.length t > 0 && t.[0] = '-' in
  let off = if neg then 1 else 0 in
  (* after optional '-', expect 'b' then bits *)
  if String.length t < off + 2 || t.[off] <> 'b' then raise (Bad ("int " ^ t));
  let b = off + 1 in
  (* skip leading zeros *)
  let n = String.length t in
  let rec first i = if i >= n then -1 else if t.[i] = '1' then i else first (i + 1) in
  let f = first b in
  if f < 0 then Z0
  else let p = pos_of_bits t f in if neg then Zneg p else Zpos p

let rd_nat () : nat = Z.to_nat (rd_z ())
let rd_bool () : bool = match next () with "0" -> false | "1" -> true | t -> raise (Bad ("bool " ^ t))
let rd_int () : int = int_of_string (next ())
let rd_list (rd : unit -> 'a) () : 'a list =
  let n = rd_int () in
  let rec go k acc = if k = 0 then List.rev acc else let x = rd () in go (k - 1) (x :: acc) in
  go n []
let rd_opt rd () = match next () with "0" -> None | "1" -> Some (rd ()) | t -> raise (Bad ("opt " ^ t))
let rd_pair ra rb () = let a = ra () in let b = rb () in (a, b)
let rd_str = rd_list rd_z
let rd_q () : q = let n = rd_z () in
  match rd_z () with Zpos d -> { qnum = n; qden = d } | _ -> raise (Bad "q den")

(* ---------- printers ---------- *)
let buf = Buffer.create 65536
let sp () = Buffer.add_char buf ' '
let pr_pos (p : positive) =
  let rec go p acc = match p with
    | XH -> '1' :: acc
    | XO p' -> go p' ('0' :: acc)
    | XI p' -> go p' ('1' :: acc) in
  Buffer.add_char buf 'b';
  List.iter (Buffer.add_char buf) (go p [])
let pr_z (z : z) = (match z with
  | Z0 -> Buffer.add_string buf "b0"
  | Zpos p -> pr_pos p
  | Zneg p -> Buffer.add_char buf '-'; pr_pos p); sp ()
let pr_nat (n : nat) = pr_z (Z.of_nat n)
let pr_bool b = Buffer.add_string buf (if b then "1 " else "0 ")
let pr_int (i : int) = Buffer.add_string buf (string_of_int i); sp ()
let pr_list pr l = pr_int (List.length l); List.iter pr l
let pr_opt pr o = match o with None -> Buffer.add_string buf "0 " | Some x -> Buffer.add_string buf "1 "; pr x
let pr_pair pa pb (a, b) = pa a; pb b
let pr_str = pr_list pr_z
let pr_q (x : q) = let r = qred x in pr_z r.qnum; pr_z (Zpos r.qden)
let err_code = function
  | EStopIteration -> 1 | EAssertion -> 2 | EValue -> 3 | EIndex -> 4
  | ERuntime -> 5 | EKey -> 6 | EType -> 7 | EFuel -> 8
let pr_result pr = function
  | Ok v -> Buffer.add_string buf "0 "; pr v
  | Err e -> Buffer.add_string buf "1 "; pr_int (err_code e)

(* ---------- dispatch table: entries are registered by ocaml/entries/*.ml ---------- *)
let table : (string, unit -> unit) Hashtbl.t = Hashtbl.create 64
let reg (name : string) (f : unit -> unit) = Hashtbl.replace table name f
let dispatch (name : string) : unit =
  match Hashtbl.find_opt table name with
  | Some f -> f ()
  | None -> raise (Bad ("entry " ^ name))
