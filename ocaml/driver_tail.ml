(* ---------- main loop ---------- *)
let () =
  let out = stdout in
  (try
    while true do
      let line = input_line stdin in
      let parts = String.split_on_char ' ' line |> List.filter (fun s -> s <> "") in
      (match parts with
       | [] -> output_string out "\n"
       | name :: rest ->
         toks := Array.of_list rest; pos := 0;
         Buffer.clear buf;
         (try dispatch name with
          | Bad m -> Buffer.clear buf; Buffer.add_string buf ("BAD " ^ m)
          | Stack_overflow -> Buffer.clear buf; Buffer.add_string buf "BAD stack_overflow");
         output_string out (Buffer.contents buf); output_char out '\n')
    done
  with End_of_file -> ());
  flush out
