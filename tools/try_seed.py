#!/usr/bin/env python3
"""Apply a seeded change to /repo, run the given checks, undo the change.
usage: tools/try_seed.py <patch.diff> <prop> [<prop> ...] [--tier quick|thorough]
Prints, per property, the exit code and the VIOLATION / KNOWN-FINDING lines; always restores /repo."""
import subprocess
import sys

args = [a for a in sys.argv[1:] if not a.startswith("--")]
tier = "quick"
if "--tier" in sys.argv:
    tier = sys.argv[sys.argv.index("--tier") + 1]
    args = [a for a in args if a != tier]
patch, props = args[0], args[1:]
st = subprocess.run(["git", "-C", "/repo", "status", "--porcelain", "--untracked-files=no"], capture_output=True, text=True).stdout
if st.strip():
    sys.exit("/repo has uncommitted changes; refusing")
r = subprocess.run(["git", "-C", "/repo", "apply", patch], capture_output=True, text=True)
if r.returncode:
    sys.exit("patch does not apply: " + r.stderr)
try:
    for p in props:
        pr = subprocess.run(["./check", p, "--tier", tier], cwd="/verif", capture_output=True, text=True)
        lines = [l for l in pr.stdout.splitlines() if l.startswith(("VIOLATION", "KNOWN-FINDING"))]
        print(f"{p}: exit={pr.returncode} {' | '.join(lines) if lines else '(no violation reported)'}")
        if pr.returncode not in (0, 1):
            print(pr.stdout[-800:], pr.stderr[-800:])
finally:
    subprocess.run(["git", "-C", "/repo", "checkout", "--", "."], check=True)
