#!/bin/bash
# usage: tools/run_all.sh [tier] — runs every claimed check once (VERIF_SEED from env), prints a summary
tier=${1:-quick}
cd "$(dirname "$0")/.."
for p in $(python3 -c "import json;print(' '.join(c['property_id'] for c in json.load(open('MANIFEST.json'))['checks']))"); do
  s=$(date +%s)
  out=$(./check $p --tier $tier 2>&1 | grep -E "^(VIOLATION|KNOWN-FINDING)" | cut -c1-160 | tr '\n' ';')
  rc=${PIPESTATUS[0]}
  echo "$p $(( $(date +%s) - s ))s $out"
done
