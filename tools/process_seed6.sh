#!/bin/bash
# usage: tools/process_seed4.sh <Cxx> — confirm the round-6 change in /tmp/seed6/<Cxx>, run the property's quick check against it
id=$1
cd "$(dirname "$0")/.."
SEEDROOT=/tmp/seed6 tools/verify_seed.sh $id
tools/try_seed_wt.sh /tmp/seed6/$id $id
