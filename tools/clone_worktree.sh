#!/bin/bash
# usage: tools/clone_worktree.sh <dir> <branch> — a worktree of /verif with the build products of this tree copied in
# (same timestamp on every product, later than the sources), so that `make setup` there has nothing to rebuild.
set -e
cd "$(dirname "$0")/.."
dir=$1; br=$2
git worktree add "$dir" -b "$br" >/dev/null
t=$(( $(date +%s) + 2 ))
rsync -a --include='*/' --include='*.vo' --include='*.vok' --include='*.vos' --include='*.glob' --include='.*.aux' --exclude='*' coq/ "$dir/coq/"
mkdir -p "$dir/build"
rsync -a --exclude vmcheck --exclude seed_evidence --exclude '.lock' --exclude 'tmp*' build/extracted build/driver "$dir/build/" 2>/dev/null || true
[ -d build/numba_cache ] && rsync -a build/numba_cache "$dir/build/" || true
find "$dir/coq" \( -name '*.vo' -o -name '*.vok' -o -name '*.vos' -o -name '*.glob' -o -name '.*.aux' \) -exec touch -d @$t {} +
find "$dir/build/extracted" -type f -exec touch -d @$((t+1)) {} +
touch -d @$((t+2)) "$dir/build/driver"
echo "$dir ready"
