#!/bin/bash
# usage: tools/run_all_par.sh [tier] [jobs] — like run_all.sh, but runs <jobs> checks side by side (different properties only)
tier=${1:-quick}; jobs=${2:-4}
cd "$(dirname "$0")/.."
one() {
  p=$1; s=$(date +%s)
  out=$(./check $p --tier $TIER 2>&1 | grep -E "^(VIOLATION|KNOWN-FINDING)" | cut -c1-160 | tr '\n' ';')
  echo "$p $(( $(date +%s) - s ))s $out"
}
export -f one; export TIER=$tier
python3 -c "import json;print('\n'.join(c['property_id'] for c in json.load(open('MANIFEST.json'))['checks']))" | xargs -P $jobs -I{} bash -c 'one {}'
