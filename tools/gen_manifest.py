#!/usr/bin/env python3
"""Regenerates /verif/MANIFEST.json from tools/claims.json (one entry per property)."""
import json
from pathlib import Path

V = Path(__file__).resolve().parent.parent
claims = json.loads((V / "tools" / "claims.json").read_text())
props = [json.loads(l)["id"] for l in (V / "properties.jsonl").read_text().splitlines() if l.strip()]

checks, na = [], []
for pid in props:
    c = claims.get(pid)
    if not c or c.get("not_applicable"):
        na.append({"property_id": pid, "reason": (c or {}).get("not_applicable", "check not built yet (work in progress; see DESIGN.md section 11)")})
        continue
    checks.append({
        "property_id": pid,
        "quick_cmd": f"./check {pid} --tier quick",
        "thorough_cmd": f"./check {pid} --tier thorough",
        "evidence_file": f"/verif/evidence/{pid}.json",
        "replay_cmd_template": f"./check {pid} --replay {{path}}",
        "engine": "coq-proof+correspondence",
        "level_claimed": {"category": "proof", "text": c["text"], "design_ref": c.get("design_ref", f"DESIGN.md section 6, {pid}")},
        "level_note": c["note"],
        "technique": c.get("technique", "Coq 8.16 theorems about a hand-written Gallina model + differential correspondence check (extracted OCaml model vs real mokapot)"),
    })

manifest = {
    "version": 1,
    "setup_cmd": "make -C /verif setup",
    "hooks": {
        "guard": "MOKAPOT_VERIF",
        "enable": "no in-repo hooks are used; the harness drives the public API of /repo's working tree (PYTHONPATH=/repo) and sets MOKAPOT_* chunk-size variables the code already reads",
        "baseline_off_cmd": "cd /repo && /venv/bin/python -m pytest -ra -q -p no:cacheprovider --timeout=900 --continue-on-collection-errors",
        "source_commits": claims.get("_hook_commits", []),
        "add_only": True,
    },
    "engines": [{
        "name": "coq-proof+correspondence",
        "path": "/verif/check",
        "serves_properties": [c["property_id"] for c in checks],
        "kind_free_text": "Coq 8.16.1 development (coq/), extraction to OCaml (build/driver), Python differential harness (harness/) against /repo",
    }],
    "checks": checks,
    "notes": "Proof = theorems in coq/Props/Cxx.v (Print Assumptions checked on every run) about hand-written models in coq/Model; "
             "tie to /repo = correspondence check run on every invocation. See DESIGN.md.",
    "not_applicable": na,
}
(V / "MANIFEST.json").write_text(json.dumps(manifest, indent=1) + "\n")
print(f"{len(checks)} checks, {len(na)} not claimed")
