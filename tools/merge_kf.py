#!/usr/bin/env python3
"""Resolves a merge conflict in known_findings.json by taking the union of both sides (keyed by property + key;
the side that says 'fixed' wins over 'known')."""
import json, subprocess
def side(n):
    return json.loads(subprocess.check_output(["git", "show", f":{n}:known_findings.json"]))
ours, theirs = side(2), side(3)
out, idx = [], {}
for e in ours + theirs:
    k = (e["property"], e["key"])
    if k in idx:
        if e.get("kind") == "fixed" and out[idx[k]].get("kind") != "fixed":
            out[idx[k]] = e
        continue
    idx[k] = len(out)
    out.append(e)
json.dump(out, open("known_findings.json", "w"), indent=1)
open("known_findings.json", "a").write("\n")
print(len(ours), len(theirs), "->", len(out))
