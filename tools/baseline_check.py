#!/usr/bin/env python3
"""Runs /repo's pinned test command (guard off) and checks that every stable_pass test of BASELINE.json passes."""
import json, subprocess, sys, tempfile, os, xml.etree.ElementTree as ET
base = json.load(open("/root/.vp/BASELINE.json"))
out = tempfile.mktemp(suffix=".xml", dir="/root")
cmd = base["cmd"].replace("<file>", out)
env = dict(os.environ); env.pop("MOKAPOT_VERIF", None)
subprocess.run(cmd, shell=True, env=env, stdout=subprocess.DEVNULL, stderr=subprocess.DEVNULL)
ok = set()
for tc in ET.parse(out).getroot().iter("testcase"):
    if not any(ch.tag in ("failure", "error", "skipped") for ch in tc):
        ok.add(tc.get("classname") + "::" + tc.get("name"))
os.remove(out)
missing = [t for t in base["stable_pass"] if t not in ok]
print(f"{len(base['stable_pass']) - len(missing)}/{len(base['stable_pass'])} baseline tests pass; now also passing: {len(ok - set(base['stable_pass']))}")
for t in missing: print("FAILING:", t)
sys.exit(1 if missing else 0)
