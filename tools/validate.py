#!/usr/bin/env python3
"""Validates MANIFEST.json and every evidence file against the schemas in /root/.vp (run with python3-vt: needs jsonschema)."""
import glob, json, sys
import jsonschema
root = __file__.rsplit("/tools/", 1)[0]
bad = 0
try:
    jsonschema.validate(json.load(open(root + "/MANIFEST.json")), json.load(open("/root/.vp/MANIFEST.schema.json")))
except Exception as e:
    bad += 1
    print("MANIFEST.json:", str(e)[:300])
es = json.load(open("/root/.vp/EVIDENCE.schema.json"))
for f in sorted(glob.glob(root + "/evidence/*.json")):
    try:
        jsonschema.validate(json.load(open(f)), es)
    except Exception as e:
        bad += 1
        print(f, str(e)[:300])
print("ok" if not bad else f"{bad} file(s) do not validate")
sys.exit(1 if bad else 0)
