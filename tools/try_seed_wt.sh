#!/bin/bash
# usage: tools/try_seed_wt.sh <worktree-with-change-applied> <prop> [...]  — runs checks against a modified copy of the repo
wt=$1; shift
cd "$(dirname "$0")/.."
export VERIF_EVIDENCE_DIR=$PWD/build/seed_evidence; mkdir -p $VERIF_EVIDENCE_DIR
export PYTHONPATH=$wt:$PWD PYTHONHASHSEED=0 PYTHONDONTWRITEBYTECODE=1 NUMBA_CACHE_DIR=$PWD/build/numba_cache OMP_NUM_THREADS=1 MPLBACKEND=Agg
for p in "$@"; do
  out=$(/venv/bin/python -W ignore -m harness.runner $p --tier ${TIER:-quick} 2>&1 | grep -E "^(VIOLATION|KNOWN-FINDING)" | cut -c1-200 | tr '\n' ';')
  echo "$p: ${out:-(no violation reported)}"
done
