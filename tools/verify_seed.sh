#!/bin/bash
# usage: tools/verify_seed.sh <Cxx>  — confirms a seeded change in /tmp/seed/<Cxx>: demo fails with it, passes without it,
# and the 73 baseline tests still pass with it.  Leaves the change applied.
id=$1; root=${SEEDROOT:-/tmp/seed}; wt=$root/$id
cd $wt || exit 2
git diff -- mokapot > $root/${id}_verify.diff
test -s $root/${id}_verify.diff || { echo "$id: no change in worktree"; exit 2; }
PYTHONPATH=$wt /venv/bin/python -W ignore demo_$id.py > $root/${id}_demo_with.txt 2>&1; with=$?
git apply -R $root/${id}_verify.diff
PYTHONPATH=$wt /venv/bin/python -W ignore demo_$id.py > $root/${id}_demo_without.txt 2>&1; without=$?
git apply $root/${id}_verify.diff
/venv/bin/python -m pytest -q -p no:cacheprovider --timeout=900 --continue-on-collection-errors --junitxml=$root/${id}_junit.xml > /dev/null 2>&1
miss=$(python3 - <<PY
import json, xml.etree.ElementTree as ET
base = json.load(open("/root/.vp/BASELINE.json"))
ok = set()
for tc in ET.parse("$root/${id}_junit.xml").getroot().iter("testcase"):
    if not any(ch.tag in ("failure", "error", "skipped") for ch in tc):
        ok.add(tc.get("classname") + "::" + tc.get("name"))
print(len([t for t in base["stable_pass"] if t not in ok]))
PY
)
echo "$id: demo with change exit=$with, without exit=$without, baseline tests missing=$miss"
