#!/bin/bash
# usage: tools/seeds_regress.sh [ids...] — for every seeded change: scratch worktree of /repo HEAD + patch, run the checks
# named in meta.json (expected_to_be_caught_by) against it (PYTHONPATH=<worktree>), remove the worktree.  /repo is not touched.
cd "$(dirname "$0")/.."
export ROOT=$PWD RUN=/tmp/seedrun-$(basename $PWD)
ids=${@:-$(ls seeded | grep -v whitebox; ls seeded/whitebox 2>/dev/null | sed "s|^|whitebox/|")}
mkdir -p $RUN
one() {
  id=$1; wt=$RUN/$(echo $id | tr / _)
  git -C /repo worktree add --detach $wt HEAD >/dev/null 2>&1 || { echo "$id: cannot create worktree"; return; }
  if git -C $wt apply $ROOT/seeded/$id/patch.diff 2>$wt.err; then
    props=$(python3 -c "import json;print(' '.join(json.load(open('$ROOT/seeded/$id/meta.json'))['expected_to_be_caught_by']))")
    out=$(tools/try_seed_wt.sh $wt $props 2>&1 | tr '\n' ' ')
    echo "$id: $out"
  else
    echo "$id: PATCH DOES NOT APPLY: $(head -2 $wt.err | tr '\n' ' ')"
  fi
  git -C /repo worktree remove --force $wt
}
export -f one
printf "%s\n" $ids | xargs -P ${JOBS:-4} -I{} bash -c 'one {}'
