# /verif/Makefile — builds the Coq development, the extracted model and the driver.
# `make setup` is serialised with a lock so that concurrent checks do not race.
SHELL := /bin/bash
.PHONY: setup setup-locked coq gen clean
MODELS := $(wildcard coq/Model/*.v)
ENTRIES := $(wildcard ocaml/entries/*.ml) $(wildcard coq/Extract.d/*.txt)

setup:
	@mkdir -p build
	@flock build/.lock $(MAKE) --no-print-directory setup-locked

setup-locked: gen coq build/driver

gen:
	@python3 tools/gen_build.py

coq: gen
	@cd coq && coq_makefile -f _CoqProject -o Makefile.coq >/dev/null && timeout 3000 $(MAKE) --no-print-directory -f Makefile.coq -j16

build/driver: $(MODELS) $(ENTRIES) ocaml/driver_head.ml ocaml/driver_tail.ml tools/gen_build.py | coq
	cd build/extracted && timeout 900 coqc -Q ../../coq Mokaverif Extract.v
	cd build/extracted && ocamlfind ocamlopt -w -a model.mli model.ml driver.ml -o ../driver.new && mv ../driver.new ../driver

clean:
	rm -rf build
	rm -f coq/Makefile.coq coq/Makefile.coq.conf coq/.Makefile.coq.d
	find coq \( -name '*.vo' -o -name '*.vok' -o -name '*.vos' -o -name '*.glob' -o -name '.*.aux' \) -delete
