# /verif/Makefile — builds the Coq development, the extracted model and the driver.
SHELL := /bin/bash
.PHONY: setup coq clean
MODELS := $(wildcard coq/Model/*.v)

setup: coq build/driver

coq:
	cd coq && coq_makefile -f _CoqProject -o Makefile.coq >/dev/null && timeout 3000 $(MAKE) --no-print-directory -f Makefile.coq -j16

build/driver: $(MODELS) coq/Extract.v ocaml/driver.ml | coq
	mkdir -p build/extracted
	cd build/extracted && timeout 900 coqc -Q ../../coq Mokaverif ../../coq/Extract.v
	cp ocaml/driver.ml build/extracted/driver.ml
	cd build/extracted && ocamlfind ocamlopt -w -a model.mli model.ml driver.ml -o ../driver.new && mv ../driver.new ../driver

clean:
	rm -rf build
	rm -f coq/Makefile.coq coq/Makefile.coq.conf coq/.Makefile.coq.d
	find coq \( -name '*.vo' -o -name '*.vok' -o -name '*.vos' -o -name '*.glob' -o -name '.*.aux' \) -delete
