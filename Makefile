# /verif/Makefile — builds the Coq development, the extracted model and the driver.
# `make setup` is serialised with a lock so that concurrent checks do not race.
SHELL := /bin/bash
.PHONY: setup setup-locked coq gen clean
MODELS := $(wildcard coq/Model/*.v)
ENTRIES := $(wildcard ocaml/entries/*.ml) $(wildcard coq/Extract.d/*.txt)

setup:
	@mkdir -p build
	@flock build/.lock $(MAKE) --no-print-directory setup-locked

setup-locked: gen coq build/driver

gen:
	@python3 tools/gen_build.py

# The whole development is built with -k: a proof file that no longer compiles must only affect the
# properties whose Props/Cxx.v depends on it (the check of a property runs `make Props/Cxx.vo`
# strictly, see harness/lib.py); the models, which the extracted driver needs, are built strictly.
coq: gen
	@cd coq && coq_makefile -f _CoqProject -o Makefile.coq >/dev/null && { timeout 3000 $(MAKE) --no-print-directory -k -f Makefile.coq -j16 > ../build/coq_build.log 2>&1 || { grep -E "^(File|Error|make.*Error)" ../build/coq_build.log | head -20; true; }; }
	@cd coq && timeout 3000 $(MAKE) --no-print-directory -f Makefile.coq -j16 $(patsubst coq/%.v,%.vo,$(MODELS))

build/driver: $(MODELS) $(ENTRIES) ocaml/driver_head.ml ocaml/driver_tail.ml tools/gen_build.py | coq
	cd build/extracted && timeout 900 coqc -Q ../../coq Mokaverif Extract.v
	cd build/extracted && ocamlfind ocamlopt -w -a model.mli model.ml driver.ml -o ../driver.new && mv ../driver.new ../driver

clean:
	rm -rf build
	rm -f coq/Makefile.coq coq/Makefile.coq.conf coq/.Makefile.coq.d
	find coq \( -name '*.vo' -o -name '*.vok' -o -name '*.vos' -o -name '*.glob' -o -name '.*.aux' \) -delete
