#!/venv/bin/python
"""Observation made during the white-box review of C11 (not a violation of C11: no score is returned).

brew's prediction step (mokapot/brew.py, _predict) stores the fold number of every PSM in a column it calls "fold" of
the chunk it has just read, splits the chunk by it and drops it.  A PIN table that has a feature column of that name
loses it there: brew stops with KeyError "['fold'] not in index" after all fold models were trained.

Usage: PYTHONPATH=/repo /venv/bin/python repo_fixes/OBS-C11-feature-column-named-fold.py     exit 1 = behaviour present
"""
import logging
import sys
import tempfile
from pathlib import Path

import numpy as np
import pandas as pd

logging.disable(logging.CRITICAL)
import mokapot                                   # noqa: E402

rng = np.random.default_rng(3)
n = 300
tg = rng.random(n) < 0.55
feat = np.where(tg & (rng.random(n) < 0.9), rng.integers(40, 100, n), rng.integers(0, 60, n))
df = pd.DataFrame({"SpecId": ["psm%d" % i for i in range(n)], "Label": np.where(tg, 1, -1), "ScanNr": np.arange(n) + 1,
                   "ExpMass": 500 + 0.25 * (np.arange(n) % 9), "score": feat, "fold": rng.integers(0, 50, n),
                   "Peptide": ["K.PEP%dK.A" % (i % 60) for i in range(n)], "Proteins": ["p%d" % (i % 5) for i in range(n)]})
d = Path(tempfile.mkdtemp(prefix="c11_obs_"))
df.to_csv(d / "a.pin", sep="\t", index=False)
try:
    mokapot.brew(mokapot.read_pin([d / "a.pin"], max_workers=1), mokapot.PercolatorModel(train_fdr=0.2, rng=1), test_fdr=0.2, folds=2, rng=1)
    print("ok: a feature column named 'fold' is handled")
    rc = 0
except KeyError as e:
    print("brew raised KeyError %s for a table with a feature column named 'fold'" % e)
    rc = 1
import shutil                                     # noqa: E402
shutil.rmtree(d, ignore_errors=True)
sys.exit(rc)
