"""C03 finding (not fixed): with a tab-separated input the score column of targets.psms / decoys.psms is not the score
that was handed to assign_confidence.  The scores are written to the per-chunk files and to the level files as decimal
text and read back with pandas' default float parser, which is not correctly rounding; a good part of the rows come out
with a score that differs from the input from the 13th-16th significant digit on.  The same table as Parquet is exact.
exit 1 = the defect shows, exit 0 = it does not."""
import logging, shutil, sys, tempfile
from pathlib import Path
import numpy as np, pandas as pd
logging.disable(logging.CRITICAL)
import mokapot, mokapot.confidence as conf
conf.peps_from_scores = lambda s, t, *a, **k: np.zeros(len(s))
n = 400
rng = np.random.default_rng(7)
df = pd.DataFrame({"SpecId": ["p%d" % i for i in range(n)], "Label": rng.choice([1, -1], n), "ScanNr": list(range(n)),
                   "feat": rng.random(n), "Peptide": ["PEP%d" % i for i in range(n)], "Proteins": ["x"] * n})
scores = rng.normal(size=n)
rc = 0
for fmt in ("parquet", "pin"):
    d = Path(tempfile.mkdtemp())
    try:
        p = d / ("a." + fmt)
        df.to_parquet(p, index=False) if fmt == "parquet" else df.to_csv(p, sep="\t", index=False)
        (d / "out").mkdir()
        ds = mokapot.read_pin([p], max_workers=1)
        mokapot.assign_confidence(ds, max_workers=1, scores=[scores], dest_dir=d / "out", prefixes=[None], decoys=True, eval_fdr=0.5)
        out = pd.concat([pd.read_csv(d / "out" / f, sep="\t", float_precision="round_trip") for f in ("targets.psms", "decoys.psms")])
        given = dict(zip(df["SpecId"], scores))
        off = [(i, s, given[i]) for i, s in zip(out["PSMId"], out["score"]) if s != given[i]]
        rel = max([abs(s - g) / abs(g) for _, s, g in off] or [0.0])
        print(f"input format {fmt}: {len(off)} of {len(out)} rows carry a score other than the given one (largest relative error {rel:.1e})",
              off[:1])
        if off:
            rc = 1
    finally:
        shutil.rmtree(d)
sys.exit(rc)
