"""F16 reproducer: re-fitting a trained Model whose estimator only has predict_proba always fails."""
import numpy as np, pandas as pd, logging
logging.disable(logging.CRITICAL)
from sklearn.ensemble import RandomForestClassifier
from mokapot.model import Model
from mokapot.dataset import LinearPsmDataset

rng = np.random.default_rng(0)
n = 300
t = np.arange(n) % 2 == 0
df = pd.DataFrame({"target": t, "spectrum": np.arange(n), "peptide": ["P%d" % i for i in range(n)],
                   "f1": rng.normal(size=n) + 3 * t, "f2": rng.normal(size=n)})
ds = LinearPsmDataset(df, target_column="target", spectrum_columns="spectrum", peptide_column="peptide")
m = Model(RandomForestClassifier(n_estimators=5, random_state=0), scaler="as-is", train_fdr=0.1, max_iter=1, rng=1, override=True).fit(ds)
print("first fit ok, trained =", m.is_trained)
try:
    m.fit(ds); print("second fit ok")
except Exception as e:
    print("second fit:", type(e).__name__, e, "  <-- WRONG")
