"""F10: peps_from_scores(scores, targets, "qvality") returns the PEPs in descending-score order, not in the
order of the input rows (docstring: "returned in the same order as the targets array").
Run:  PYTHONPATH=/repo /venv/bin/python -W ignore repo_fixes/F10-repro.py   (exit 1 = defect present)"""
import sys
import numpy as np
from mokapot.peps import peps_from_scores

rng = np.random.default_rng(0)
n = 200
targets = np.arange(n) % 2 == 0
scores = np.where(targets & (rng.random(n) < 0.6), rng.normal(3, 1, n), rng.normal(0, 1, n))   # input order: arbitrary
peps = peps_from_scores(scores, targets, "qvality")
best, worst = int(np.argmax(scores)), int(np.argmin(scores))
print("PEP of the best-scoring PSM (row %d, score %.3f): %.4g" % (best, scores[best], peps[best]))
print("PEP of the worst-scoring PSM (row %d, score %.3f): %.4g" % (worst, scores[worst], peps[worst]))
by_score = peps[np.argsort(-scores)]
aligned = bool(np.all(np.diff(by_score) >= -1e-12))
print("PEPs never decrease as the score worsens:", aligned)
print("returned vector is simply sorted ascending (= descending-score order):", bool(np.all(np.diff(peps) >= 0)))
sys.exit(0 if aligned else 1)
