"""C03 finding (not fixed): assign_confidence raises ValueError on a Parquet PIN that has a dictionary-encoded
(pandas categorical) metadata column and row groups that do not end on multiples of CONFIDENCE_CHUNK_SIZE.
pyarrow's ParquetFile.iter_batches does not continue a batch across a row-group boundary when a dictionary column is
projected, so create_sorted_file_iterator pairs a short chunk of the file with a full CONFIDENCE_CHUNK_SIZE slice of the
score vector.  With the default constants this is any such file of more than 1,000,000 rows (pyarrow's default row group
holds 1,048,576 rows); here the constant is lowered to 4 and the file has row groups of 3.
exit 1 = the defect shows, exit 0 = it does not."""
import logging, shutil, sys, tempfile
from pathlib import Path
import numpy as np, pandas as pd
logging.disable(logging.CRITICAL)
import mokapot, mokapot.confidence as conf
conf.peps_from_scores = lambda s, t, *a, **k: np.zeros(len(s))
conf.CONFIDENCE_CHUNK_SIZE = 4
n = 10
df = pd.DataFrame({"SpecId": ["p%d" % i for i in range(n)], "Label": [1, -1] * 5, "ScanNr": list(range(n)),
                   "feat": np.arange(n) * 1.0, "Peptide": ["PEP%d" % (i % 4) for i in range(n)], "Proteins": ["x"] * n})
rc = 0
for categorical in (False, True):
    d = Path(tempfile.mkdtemp())
    try:
        t = df.copy()
        if categorical:
            t["Peptide"] = t["Peptide"].astype("category")
        t.to_parquet(d / "a.parquet", index=False, row_group_size=3)
        (d / "out").mkdir()
        ds = mokapot.read_pin([d / "a.parquet"], max_workers=1)
        try:
            mokapot.assign_confidence(ds, max_workers=1, scores=[np.arange(n) * 1.0], dest_dir=d / "out", prefixes=[None], eval_fdr=0.5)
            print("categorical Peptide column:", categorical, "-> ok,", len(pd.read_csv(d / "out" / "targets.psms", sep="\t")), "target PSMs")
        except ValueError as e:
            print("categorical Peptide column:", categorical, "-> ValueError:", str(e)[:90])
            rc = 1
    finally:
        shutil.rmtree(d)
sys.exit(rc)
