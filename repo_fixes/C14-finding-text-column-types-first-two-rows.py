#!/usr/bin/env python3
"""C14 finding (known, not fixed): MergedTabularDataReader rejects sorted TEXT inputs whose first two rows happen to
look like different column types.

CSVFileReader.get_column_types() infers the types from the first TWO rows of the file (pd.read_csv(nrows=2)), and the
constructor of MergedTabularDataReader asserts that all readers report the same types.  A text file has no column types:
a score column that starts `9`, `7` (whole numbers printed without ".0", as awk / R / printf("%g") print them) is read
as int64, one that starts `8.5` as float64 - both files are score-sorted inputs with the same columns, yet
merge_readers / MergedTabularDataReader raise AssertionError("Column types do not match") instead of yielding every
row once in score order.  The same two files ARE merged correctly by utils.merge_sort, and by the table merger when
both happen to start with the same kind of number (the chunks read later may have any type: the merge itself copes).

Run:  PYTHONPATH=/repo /venv/bin/python repo_fixes/C14-finding-text-column-types-first-two-rows.py
exit 1 = the defect shows, exit 0 = all rows are returned once, in non-increasing score order."""
import sys
import tempfile
import warnings
from pathlib import Path

warnings.simplefilter("ignore")
from mokapot.streaming import MergedTabularDataReader, merge_readers  # noqa: E402
from mokapot.tabular_data import TabularDataReader  # noqa: E402
from mokapot.utils import merge_sort  # noqa: E402

A = [(0, "9"), (1, "7"), (2, "4.75")]          # sorted, non-increasing
B = [(10, "8.5"), (11, "7"), (12, "2")]        # sorted, non-increasing
WANT = sorted([(i, float(s)) for i, s in A + B], key=lambda r: -r[1])

rc = 0
with tempfile.TemporaryDirectory() as d:
    paths = []
    for n, rows in enumerate((A, B)):
        p = Path(d) / f"in{n}.tsv"
        p.write_text("id\tscore\n" + "".join(f"{i}\t{s}\n" for i, s in rows))
        paths.append(p)

    def show(label, run):
        global rc
        try:
            got = [(int(i), float(s)) for i, s in run()]
        except BaseException as e:  # noqa
            print(f"{label}: {type(e).__name__}: {e}")
            rc = 1
            return
        ok = sorted(got) == sorted(WANT) and all(a[1] >= b[1] for a, b in zip(got, got[1:]))
        print(f"{label}: {got} -> {'every row once, sorted' if ok else 'WRONG'}")
        if not ok:
            rc = 1

    show("utils.merge_sort          ", lambda: [(r["id"], r["score"]) for r in merge_sort(paths, "score")])
    show("MergedTabularDataReader   ", lambda: MergedTabularDataReader(
        [TabularDataReader.from_path(p) for p in paths], "score", descending=True, reader_chunk_size=2
    ).read()[["id", "score"]].itertuples(index=False))
    show("merge_readers             ", lambda: [tuple(ch[["id", "score"]].iloc[0]) for ch in merge_readers(
        [TabularDataReader.from_path(p) for p in paths], "score", True, reader_chunk_size=2)])
sys.exit(rc)
