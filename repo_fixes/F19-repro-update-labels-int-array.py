"""_update_labels with a 0/1 integer label ARRAY (tdc accepts it): before fix d3... every decoy kept +1."""
import numpy as np
from mokapot import dataset
sc = np.array([3.0, 6.0, 4.0]); tg = np.array([0, 1, 1])
got = list(dataset._update_labels(sc, tg, 0.333, True))
print(got)
assert got == [-1.0, 0.0, 0.0], got
