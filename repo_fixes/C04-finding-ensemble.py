"""C04 finding (not fixed; behaviour of an option of the unchanged code): brew(..., ensemble=True) (command line: --ensemble)
scores every PSM with the MEAN of the k fold models, k-1 of which were trained on that PSM.  With a learner that can memorise
its training rows (here: a fully grown sklearn decision tree, and a 1-nearest-neighbour style memoriser) the reported q-values
no longer control the FDR: null targets (incorrect target PSMs, exchangeable with the decoys by construction) are accepted in
bulk at q <= 0.05.  With ensemble=False (the default) the same learners on the same data keep the FDP near alpha.

Run: PYTHONPATH=/repo /venv/bin/python repo_fixes/C04-finding-ensemble.py      exit 1 = defect shows, 0 = does not show"""
import logging
import sys
import tempfile
from pathlib import Path

import numpy as np
import pandas as pd

logging.disable(logging.CRITICAL)
import mokapot                                          # noqa: E402
from mokapot.model import Model                         # noqa: E402
from mokapot.qvalues import tdc                         # noqa: E402
from sklearn.base import BaseEstimator, ClassifierMixin  # noqa: E402
from sklearn.tree import DecisionTreeClassifier         # noqa: E402


class Memoriser(BaseEstimator, ClassifierMixin):
    """remembers the label of every training row (identified by its feature vector), ranks unseen rows by feature 0"""

    def fit(self, X, y):
        self.mem_ = {tuple(r): int(l) for r, l in zip(X, y)}
        self.classes_ = np.array([0, 1])
        return self

    def decision_function(self, X):
        return np.array([(1000.0 if self.mem_[tuple(r)] == 1 else -1000.0) if tuple(r) in self.mem_ else float(r[0]) for r in X])


class AsIs(BaseEstimator):
    def fit_transform(self, X, y=None):
        return X

    def transform(self, X):
        return X


def simulate(rng, n):
    kind = rng.choice(["correct", "null", "decoy"], size=n, p=[0.3, 0.35, 0.35])
    feats = {}
    for j in range(3):
        good = (kind == "correct") & (rng.random(n) < 0.9)
        feats["feat%d" % j] = np.where(good, rng.normal(6, 1.5, n), rng.normal(0, 1.5, n))     # nulls and decoys: one distribution
    df = pd.DataFrame({"SpecId": ["psm%d" % i for i in range(n)], "Label": np.where(kind == "decoy", -1, 1),
                       "ScanNr": np.arange(1, n + 1), "ExpMass": 500.0 + np.arange(n), **feats,
                       "Peptide": ["K.PEP%dK.A" % i for i in range(n)], "Proteins": ["p%d" % (i % 7) for i in range(n)]})
    return df, kind


def fdp(df, kind, est, ensemble, seed, d, alpha=0.05):
    pin = Path(d) / "x.pin"
    df.to_csv(pin, sep="\t", index=False)
    ds = mokapot.read_pin([pin], max_workers=1)
    model = Model(est, scaler=AsIs(), train_fdr=0.25, max_iter=2, override=True, rng=seed)
    _, _, scores, _ = mokapot.brew(ds, model, test_fdr=0.25, folds=3, rng=seed, ensemble=ensemble)
    q = tdc(np.asarray(scores[0], dtype=float), (df["Label"].values == 1), desc=True)
    acc = (df["Label"].values == 1) & (q <= alpha)
    return (int(((kind == "null") & acc).sum()), int(acc.sum()))


def main():
    rng = np.random.default_rng(20260930)
    out = {}
    with tempfile.TemporaryDirectory() as d:
        for rep in range(6):
            df, kind = simulate(rng, 900)
            for name, est in (("memoriser", Memoriser()), ("full tree", DecisionTreeClassifier(random_state=0))):
                for ens in (False, True):
                    try:
                        v, r = fdp(df, kind, est, ens, rep, d)
                    except RuntimeError:
                        continue
                    t = out.setdefault((name, ens), [0, 0])
                    t[0] += v
                    t[1] += r
    bad = False
    for (name, ens), (v, r) in sorted(out.items()):
        p = v / max(1, r)
        print("%-10s ensemble=%-5s accepted at q<=0.05: %5d   of which null targets: %5d   FDP = %.3f" % (name, ens, r, v, p))
        if ens and r and p > 0.2:
            bad = True
    print("defect shows: with ensemble=True the FDP at q<=0.05 exceeds 0.2" if bad else "defect does not show")
    return 1 if bad else 0


if __name__ == "__main__":
    sys.exit(main())
