#!/venv/bin/python
"""C05 finding: with a tab-delimited input whose spectrum-key column (ret_time / ExpMass) writes integer-valued
entries without a fraction ("1" next to "1.5"), the number of PSM-level result rows depends on
CONFIDENCE_CHUNK_SIZE: duplicate PSMs of one spectrum are competed away only when they fall into the same chunk
(or into chunks of the same inferred type).

Mechanism: assign_confidence reads the input in chunks of CONFIDENCE_CHUNK_SIZE rows with pandas, which infers the
column type per chunk: a chunk holding only "0", "1" becomes int64, a chunk holding "1", "1.5" float64.  Each chunk is
written to its own sorted chunk file ("1" vs "1.0"), the files are merged row by row, and the cross-chunk
de-duplication compares `str([row[col] for col in spectrum_columns])`: "[7, 1]" != "[7, 1.0]", so the same spectrum
survives once per type.  With one chunk (default size on a small file) or with every entry written with a fraction
("1.0") the result is the chunk-free one.

Property C05: "... the same ... whatever the values of the streaming chunk sizes (confidence, ...) ... In particular a
run never ... changes its answer because ... duplicate PSMs fall in the same rather than in different chunks."

Run: PYTHONPATH=/repo /venv/bin/python repo_fixes/C05-finding-intlike-float-key-chunk-dedup.py   (exit 1 = defect shows)
"""
import logging
import random
import shutil
import sys
import tempfile
import warnings
from pathlib import Path

warnings.filterwarnings("ignore")
logging.disable(logging.CRITICAL)

import numpy as np          # noqa: E402
import pandas as pd         # noqa: E402
import mokapot              # noqa: E402
import mokapot.confidence   # noqa: E402
import mokapot.utils        # noqa: E402

mokapot.confidence.peps_from_scores = lambda s, t, *a, **k: np.zeros(len(s))

rng = random.Random(5)
N = 40
SCAN = [rng.randint(1, 8) for _ in range(N)]
RT = [rng.randint(0, 3) * 0.5 for _ in range(N)]          # 0, 0.5, 1, 1.5
DF = pd.DataFrame({"SpecId": ["p%d" % i for i in range(N)], "Label": [1 if rng.random() < .6 else -1 for _ in range(N)],
                   "ScanNr": SCAN, "ret_time": RT, "feat0": [rng.randint(0, 100) for _ in range(N)],
                   "Peptide": ["PEP%d" % rng.randint(0, 10) for _ in range(N)], "Proteins": ["x"] * N})
SCORES = np.array(rng.sample(range(1000), N), dtype=float)      # pairwise distinct


def run(float_format, conf_chunk):
    d = Path(tempfile.mkdtemp(prefix="c05il_"))
    old = mokapot.confidence.CONFIDENCE_CHUNK_SIZE
    try:
        p = d / "a.pin"
        DF.to_csv(p, sep="\t", index=False, float_format=float_format)
        mokapot.confidence.CONFIDENCE_CHUNK_SIZE = conf_chunk
        dss = mokapot.read_pin([p], max_workers=1)
        out = d / "o"
        out.mkdir()
        mokapot.assign_confidence(dss, max_workers=1, scores=[SCORES], eval_fdr=0.5, dest_dir=out, prefixes=[None], decoys=True)
        rows = []
        for f in ("targets.psms", "decoys.psms"):
            rows += [ln.split("\t")[0] for ln in (out / f).read_text().split("\n")[1:] if ln]
        return sorted(rows)
    finally:
        mokapot.confidence.CONFIDENCE_CHUNK_SIZE = old
        shutil.rmtree(d, ignore_errors=True)


def main():
    nspec = len(set(zip(SCAN, RT)))
    print("PSMs: %d, distinct spectra (ScanNr, ret_time): %d" % (N, nspec))
    bad = 0
    for fmt, label in ((None, 'ret_time written "1.0"'), ("%g", 'ret_time written "1"  ')):
        ref = run(fmt, 10 ** 6)
        for c in (10 ** 6, 7, 5, 3, 2, 1):
            r = run(fmt, c)
            verdict = "ok" if r == ref and len(r) == nspec else "DIFFERENT"
            bad += verdict != "ok"
            print("%s  CONFIDENCE_CHUNK_SIZE=%-8d PSM-level rows: %d  %s" % (label, c, len(r), verdict))
    if bad:
        print("DEFECT: the PSM-level result rows depend on the confidence chunk size")
        return 1
    print("no defect")
    return 0


if __name__ == "__main__":
    sys.exit(main())
