"""Observation made during the white-box review of C09 (NOT a violation of the property text, which is about leftovers of
earlier runs; recorded because it destroys a user's file): assign_confidence names its per-level intermediate files
<file_root><level><suffix of the input> — psms.pin, peptides.pin, ... — in dest_dir.  When the user's input file has such a
name and lives in dest_dir (the command line's default dest_dir is '.', so: `cd data; mokapot psms.pin`), the run
truncates the input after having read it, uses it as its level file and removes it at the end: the run succeeds and the
input file is gone.

Exit status 1 while the behaviour is present.
Run: PYTHONPATH=/repo /venv/bin/python repo_fixes/OBS-C09-input-named-like-level-file.py"""
import logging
import os
import sys
import tempfile
import warnings
from pathlib import Path

import numpy as np

import mokapot
import mokapot.confidence as conf

warnings.simplefilter("ignore")
logging.disable(logging.CRITICAL)
conf.peps_from_scores = lambda scores, targets, *a, **k: np.zeros(len(scores))    # too few rows for a PEP estimate
rows = ["SpecId\tLabel\tScanNr\tExpMass\tfeat\tPeptide\tProteins"]
for i in range(10):
    rows.append("psm%d\t%d\t%d\t%.2f\t%d\tK.PEP%dK.A\tprot%d" % (i, 1 if i % 3 else -1, i + 1, 500 + i, i, i % 4, i % 2))
with tempfile.TemporaryDirectory() as d:
    pin = Path(d) / "psms.pin"
    pin.write_text("\n".join(rows) + "\n")
    datasets = mokapot.read_pin([pin], max_workers=1)
    mokapot.assign_confidence(datasets, max_workers=1, scores=[np.arange(10, dtype=float)], eval_fdr=0.5,
                              dest_dir=Path(d), prefixes=[None])
    listing = sorted(os.listdir(d))
    gone = not pin.exists()
print("directory after the successful run:", listing)
if gone:
    print("the user's input file psms.pin was removed by the run")
    sys.exit(1)
print("the input file is still there")
sys.exit(0)
