#!/venv/bin/python
"""F31 (property C08; repaired in /repo 611ab32): brew(psms, rng=<seed>) with the default model was not reproducible.

Property C08: "With a fixed seed, repeating an analysis in the same process or in a fresh interpreter ... yields
bit-identical fold assignments, model coefficients, scores and result files."

brew() threads its generator into the model (`model.rng = rng`), but when no model was given it built
`PercolatorModel()` first, and PercolatorModel.__init__ draws the random_state of the KFold used by its hyper-parameter
grid search from `np.random.default_rng(rng)` - with rng=None operating-system entropy.  The cross-validation split of
the grid search, hence the chosen class weights, hence the coefficients of the fold models and all scores differed from
call to call although brew's `rng` was fixed.  611ab32: brew builds its default model with `PercolatorModel(rng=rng)`.
(Not covered, and not a C08 matter: a PercolatorModel that the CALLER builds without `rng=` has drawn that state before
brew sees it - the caller left one of the seeds of the analysis open.)

Run:  PYTHONPATH=/repo /venv/bin/python repo_fixes/F31-repro-default-model-cv-seed.py
exit 1 = the defect shows (tree before 611ab32: calls with the same seed give different coefficients), 0 = it does not."""
import logging
import shutil
import sys
import tempfile
import warnings
from pathlib import Path

import numpy as np
import pandas as pd

warnings.filterwarnings("ignore")
logging.disable(logging.CRITICAL)
import mokapot  # noqa: E402

r = np.random.default_rng(5)
n = 3000
tgt = r.random(n) < 0.6
good = tgt & (r.random(n) < 0.6)
df = pd.DataFrame({
    "SpecId": ["p%d" % i for i in range(n)], "Label": np.where(tgt, 1, -1), "ScanNr": np.arange(n), "ExpMass": 500.0,
    "f0": np.round(r.normal(np.where(good, 3.0, 0), 1), 4), "f1": np.round(r.normal(np.where(good, 3.0, 0), 1), 4),
    "f2": np.round(r.random(n), 4), "Peptide": ["K.AAA%dK.A" % i for i in range(n)], "Proteins": "x"})
d = Path(tempfile.mkdtemp(prefix="c08_finding_"))
try:
    df.to_csv(d / "a.pin", sep="\t", index=False)
    seen = []
    for k in range(5):
        psms = mokapot.read_pin([d / "a.pin"], max_workers=1)
        _, models, scores, _ = mokapot.brew(psms, test_fdr=0.1, folds=3, rng=42)      # model=None, fixed seed
        seen.append((tuple(float(x).hex() for m in models for x in m.estimator.coef_.ravel()),
                     [m.estimator.get_params()["class_weight"] for m in models],
                     tuple(float(x).hex() for x in scores[0])))
        print("call %d: class weights chosen per fold %s   first coefficient %s" % (k + 1, seen[-1][1], seen[-1][0][0]))
finally:
    shutil.rmtree(d, ignore_errors=True)
ncoef = len({s[0] for s in seen})
nscore = len({s[2] for s in seen})
print("distinct coefficient vectors over 5 calls with rng=42: %d; distinct score vectors: %d" % (ncoef, nscore))
if ncoef > 1 or nscore > 1:
    print("DEFECT: brew(psms, rng=42) with the default model is not reproducible")
    sys.exit(1)
print("no difference seen")
sys.exit(0)
