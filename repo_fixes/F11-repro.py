"""F11: with SciPy >= 1.15 (here 1.18) scipy.optimize.nnls has no `atol` parameter; mokapot.peps.fit_nnls passes
atol=1e-7, so peps_from_scores(..., "hist_nnls") and qvalues_from_scores(..., "from_peps") raise TypeError for
every input.
Run:  PYTHONPATH=/repo /venv/bin/python -W ignore repo_fixes/F11-repro.py   (exit 1 = defect present)"""
import sys
import numpy as np
import scipy
from mokapot.peps import peps_from_scores
from mokapot.qvalues import qvalues_from_scores

rng = np.random.default_rng(0)
n = 200
targets = np.arange(n) % 2 == 0
scores = np.where(targets & (rng.random(n) < 0.6), rng.normal(3, 1, n), rng.normal(0, 1, n))
bad = 0
for name, fn, alg in (("peps_from_scores", peps_from_scores, "hist_nnls"), ("qvalues_from_scores", qvalues_from_scores, "from_peps")):
    try:
        out = fn(scores, targets, alg)
        print(f"scipy {scipy.__version__}: {name}(..., {alg!r}) -> {len(out)} values in [{out.min():.3g}, {out.max():.3g}]")
    except TypeError as e:
        bad += 1
        print(f"scipy {scipy.__version__}: {name}(..., {alg!r}) raised TypeError: {e}")
sys.exit(1 if bad else 0)
