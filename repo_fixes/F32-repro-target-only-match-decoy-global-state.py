#!/venv/bin/python
"""F32 (property C08; repaired in /repo ebd023e): protein-level results with a target-only FASTA depended on numpy's
GLOBAL random state.

Property C08: "With a fixed seed, repeating an analysis in the same process or in a fresh interpreter ... yields
bit-identical ... result files (PSM, peptide and protein level)."

With a FASTA that holds no decoy proteins, picked_protein() (group_without_decoys) maps every decoy peptide to a target
peptide of the same amino-acid composition through peptides.match_decoy(), which shuffled the target peptides with
`targets.sample(frac=1)` - no random_state, i.e. numpy's global generator - and takes the first candidate.  The `rng`
handed to assign_confidence / picked_protein was not used there.  When two target peptides are anagrams of each other,
the protein a decoy peptide competes with changed from run to run.  ebd023e passes the rng of the run down.
(The second half of the finding - the shuffle started from the key order of peptide_map, which inside one protein is the
iteration order of a set of strings - was repaired by 9b4fbd9: repo_fixes/F33-repro-target-only-match-decoy-hashseed.py.)

Run:  PYTHONPATH=/repo /venv/bin/python repo_fixes/F32-repro-target-only-match-decoy-global-state.py
exit 1 = the defect shows (tree before ebd023e: same rng, different protein table), 0 = it does not."""
import logging
import shutil
import sys
import tempfile
import warnings
from pathlib import Path

import numpy as np
import pandas as pd

warnings.filterwarnings("ignore")
logging.disable(logging.CRITICAL)
import mokapot  # noqa: E402
from mokapot.picked_protein import picked_protein  # noqa: E402

d = Path(tempfile.mkdtemp(prefix="c08_finding_"))
try:
    # P1 and P2 carry anagram peptides; the FASTA has no decoys
    (d / "db.fasta").write_text(">P1\nACDEFGK\n>P2\nEFGACDK\n>P3\nLMNPQSTK\n")
    P = mokapot.read_fasta(d / "db.fasta", missed_cleavages=0, min_length=3)
finally:
    shutil.rmtree(d, ignore_errors=True)
assert not P.has_decoys
peptides = pd.DataFrame({"Label": [True, True, False, True],
                         "peptide": ["ACDEFGK", "EFGACDK", "GFEDCAK", "LMNPQSTK"],      # third row: a decoy, reversed P1 peptide
                         "score": [3.0, 2.0, 2.5, 1.0]})
seen = set()
for k in range(16):
    np.random.seed(k)          # the state a user's session happens to be in; the analysis itself has rng=7
    out = picked_protein(peptides.copy(), "Label", "peptide", "score", P, rng=7)
    seen.add(tuple(map(tuple, out.sort_values("score").values.tolist())))
for s in sorted(seen):
    print(s)
print("distinct protein tables with rng=7: %d" % len(seen))
if len(seen) > 1:
    print("DEFECT: picked_protein(..., rng=7) with a target-only FASTA depends on numpy's global state")
    sys.exit(1)
print("no difference seen")
sys.exit(0)
