import os, random, tempfile, shutil, sys
from pathlib import Path
import numpy as np
sys.path.insert(0, "/verif")
from harness import brewlib
import mokapot, mokapot.confidence as conf
import logging; logging.disable(logging.CRITICAL)
conf.peps_from_scores = lambda s, t, *a, **k: np.zeros(len(s))
rng = random.Random(1)
d = Path(tempfile.mkdtemp(dir="/root/scratch/c09")); out = d / "out"; out.mkdir()
fa = brewlib.gen_file(rng, 30, 2, file_idx=0); pa_ = brewlib.write_file(fa, d, "A")
fb = brewlib.gen_file(rng, 12, 2, file_idx=1); pb = brewlib.write_file(fb, d, "B")
open(out/"b.targets.psms","w").write("PSMId\tpeptide\tscore\tq-value\tposterior_error_prob\tproteinIds\nOLD\tX\t1\t0.1\t0\tP\n")
ds = mokapot.read_pin([pa_, pb], max_workers=1)
mokapot.assign_confidence(ds, max_workers=1, scores=[np.array([float(v) for v in f["data"]["feat0"]]) for f in (fa, fb)], eval_fdr=0.5, dest_dir=out, prefixes=[None, "b"], decoys=False)
print(sorted(os.listdir(out)))
print(open(out/"b.targets.psms").read()[:300])
shutil.rmtree(d)
