#!/venv/bin/python
"""Observation made while reviewing C08 (repaired in /repo 7b6f120; the failure was the same in every run, so it was not
a determinism matter - since the repair, Parquet input WITH the protein level is one of C08's generated configurations).

assign_confidence(..., proteins=P) on a dataset read from a Parquet PSM table always failed: the picked proteins were
written with DataFrame.to_csv to `<dest_dir>/proteins.parquet` (the level file takes the extension of the input) and then
read back through TabularDataReader.from_path, which treats the name as Parquet -> pyarrow.lib.ArrowInvalid "Parquet
magic bytes not found".  With the same table as tab-delimited text the protein level worked.  7b6f120 writes the table
with to_parquet when the path ends in .parquet.

Run:  PYTHONPATH=/repo /venv/bin/python repo_fixes/OBS-parquet-input-protein-level.py
exit 1 = the failure shows (tree before 7b6f120), 0 = both formats give the six result files."""
import logging
import shutil
import sys
import tempfile
import warnings
from pathlib import Path

import numpy as np
import pandas as pd

warnings.filterwarnings("ignore")
logging.disable(logging.CRITICAL)
import mokapot  # noqa: E402
import mokapot.confidence as mconf  # noqa: E402

mconf.peps_from_scores = lambda scores, targets, *a, **k: np.zeros(len(scores))
peps = ["ACDEFGK", "LMNPQSTK", "HILMNPK", "QSTVWYK"]
r = np.random.default_rng(1)
n = 60
tgt = r.random(n) < 0.6
df = pd.DataFrame({"SpecId": ["p%d" % i for i in range(n)], "Label": np.where(tgt, 1, -1), "ScanNr": np.arange(n), "ExpMass": 500.0,
                   "f0": np.round(r.normal(np.where(tgt, 2.0, 0), 1), 4),
                   "Peptide": ["K.%s.A" % (peps[i % 4] if tgt[i] else peps[i % 4][-2::-1] + "K") for i in range(n)], "Proteins": "x"})
d = Path(tempfile.mkdtemp(prefix="obs_parquet_"))
status = {}
try:
    (d / "db.fasta").write_text("".join(">P%d\n%s\n>decoy_P%d\n%s\n" % (i, p, i, p[-2::-1] + "K") for i, p in enumerate(peps)))
    P = mokapot.read_fasta(d / "db.fasta", missed_cleavages=0, min_length=3)
    df.to_csv(d / "a.pin", sep="\t", index=False)
    df.to_parquet(d / "a.parquet", index=False)
    for name in ("a.pin", "a.parquet"):
        out = d / ("out_" + name)
        out.mkdir()
        psms = mokapot.read_pin([d / name], max_workers=1)
        try:
            mokapot.assign_confidence(psms, max_workers=1, scores=[df["f0"].values], eval_fdr=0.5, dest_dir=out,
                                      prefixes=[None], decoys=True, proteins=P, rng=1)
            status[name] = "ok: " + ", ".join(sorted(p.name for p in out.iterdir()))
        except Exception as e:
            status[name] = "%s: %s" % (type(e).__name__, str(e).replace(str(d), "<tmp>")[:120])
        print(name, "->", status[name])
finally:
    shutil.rmtree(d, ignore_errors=True)
sys.exit(1 if status["a.pin"].startswith("ok") and not status["a.parquet"].startswith("ok") else 0)
