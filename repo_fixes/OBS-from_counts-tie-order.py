"""Observation (not repaired): qvalues_from_scores(..., "from_counts") depends on the order of the input rows
when scores are tied.  np.interp(scores, flip(scores_sorted), flip(qvalues_sorted)) reads, for a tied score, the
entry of whichever tied row np.argsort(-scores) happened to list first; if that row is a target the cumulative
decoy count does not yet include the tied decoy.  Same PSMs, two row orders, different q-values:
Run:  PYTHONPATH=/repo /venv/bin/python -W ignore repo_fixes/OBS-from_counts-tie-order.py"""
import numpy as np
import mokapot.qvalues as mq

mq.estimate_pi0_by_slope = lambda *a, **k: 1.0      # fix the fitted pi0 so that only the bookkeeping is looked at
scores = np.array([9.0, 8.0, 7.0, 7.0, 6.0, 5.0])
targets = np.array([True, True, True, False, False, True])
q1 = mq.qvalues_from_counts(scores, targets)
swap = [0, 1, 3, 2, 4, 5]                            # exchange the two rows that share the score 7.0
q2 = mq.qvalues_from_counts(scores[swap], targets[swap])
print("rows (score, target):", list(zip(scores.tolist(), targets.tolist())), "->", q1.tolist())
print("tied rows exchanged :", list(zip(scores[swap].tolist(), targets[swap].tolist())), "->", q2.tolist())
print("q-value of the PSMs with score 7.0:", q1[2], "vs", q2[2])
