#!/venv/bin/python
"""F23 (property C19; repaired in /repo 2fc2141): `python -m mokapot.parsers.pin_to_tsv in.pin out.tsv` opened out.tsv
with mode 'a'.

Property C19: "Converting a PIN file ... yields a rectangular table with the same header and one line per PSM in the
original order ...  The output is recognised as valid ...".  When the output path already held something (the result of
an earlier conversion, say) the module's command line appended to it: the file then held the old content, a second header
and the new rows - not the table, and in general not a valid one.  (mokapot.main had the same defect for <pin>.tsv,
repaired in c1411a6; the stand-alone command line followed in 2fc2141.)

Run:  PYTHONPATH=/repo /venv/bin/python repo_fixes/F23-repro-pin-to-tsv-main-append.py   exit 1 = the defect shows (tree
before 2fc2141), 0 = it does not."""
import os
import sys
import tempfile

import mokapot.parsers.pin_to_tsv as m

PIN = "SpecId\tLabel\tPeptide\tProteins\nt1\t1\tK.AAA.R\tP1\tP2\nt2\t-1\tK.CCC.R\tP3\n"
WANT = "SpecId\tLabel\tPeptide\tProteins\nt1\t1\tK.AAA.R\tP1:P2\nt2\t-1\tK.CCC.R\tP3\n"
OLD = "SpecId\tLabel\tPeptide\tProteins\nold\t1\tK.OLD.R\tP0\n"

with tempfile.TemporaryDirectory() as d:
    pi, po = os.path.join(d, "in.pin"), os.path.join(d, "out.tsv")
    open(pi, "w").write(PIN)
    open(po, "w").write(OLD)                      # an earlier result at the output path
    argv, sys.argv = sys.argv, ["pin_to_tsv", pi, po]
    try:
        m.main()
    finally:
        sys.argv = argv
    got = open(po).read()
if got != WANT:
    print("DEFECT: the output file is not the converted table.\n got      %r\n expected %r" % (got, WANT))
    sys.exit(1)
print("no defect: an existing output file is replaced by the table")
sys.exit(0)
