#!/venv/bin/python
"""C11 finding (white-box review): OnDiskPsmDataset.calibrate_scores (mokapot/dataset.py:528-563) cannot be called.

It asks its reader for `columns=self.target_column` (a str); `TabularDataReader.read` is type-checked and accepts only
`list[str] | None`, so every call raises typeguard.TypeCheckError before a score is looked at.  (Asking for
`[self.target_column]` alone does not help: the resulting DataFrame is then rejected by `_update_labels`, which wants an
array or a Series.)

brew reaches this method in its "reset" branch: a single, previously trained Model whose re-fit raises
"Model performs worse after training." makes brew score every collection with the original model and calibrate per
collection through this method — so such a run dies with TypeCheckError instead of returning calibrated scores (or the
explicit "no target accepted" RuntimeError of the property).

Usage: PYTHONPATH=/repo /venv/bin/python repo_fixes/C11-finding-ondisk-calibrate-scores.py     exit 1 = defect present
"""
import logging
import sys
import tempfile
from pathlib import Path

import numpy as np
import pandas as pd

logging.disable(logging.CRITICAL)
import mokapot                                              # noqa: E402
from mokapot.dataset import calibrate_scores                 # noqa: E402
from mokapot.model import Model                              # noqa: E402
from sklearn.base import BaseEstimator, ClassifierMixin      # noqa: E402

bad = 0
d = Path(tempfile.mkdtemp(prefix="c11_finding_"))
rng = np.random.default_rng(7)
n = 240
tg = rng.random(n) < 0.55
good = np.where(tg & (rng.random(n) < 0.9), rng.integers(40, 100, n), rng.integers(0, 60, n))
df = pd.DataFrame({"SpecId": ["psm%d" % i for i in range(n)], "Label": np.where(tg, 1, -1), "ScanNr": np.arange(n) + 1,
                   "ExpMass": 500 + 0.25 * (np.arange(n) % 9), "rid": np.arange(n), "feat0": good,
                   "Peptide": ["K.PEP%dK.A" % (i % 40) for i in range(n)], "Proteins": ["p%d" % (i % 5) for i in range(n)]})
pin = d / "a.pin"
df.to_csv(pin, sep="\t", index=False)

# ---- 1. the method itself
ds = mokapot.read_pin([pin], max_workers=1)[0]
raw = df["feat0"].to_numpy(dtype=float)
want = calibrate_scores(raw, tg, 0.25)
try:
    got = ds.calibrate_scores(raw, 0.25)
    if not np.array_equal(np.asarray(got, dtype=float), want):
        print("OnDiskPsmDataset.calibrate_scores differs from dataset.calibrate_scores on the same scores / targets")
        bad = 1
except Exception as e:            # noqa
    print("OnDiskPsmDataset.calibrate_scores(scores, 0.25) raised %s: %s" % (type(e).__name__, str(e).split("\n")[0]))
    bad = 1


# ---- 2. brew with one previously trained model that gets worse when re-fitted
class Refit(BaseEstimator, ClassifierMixin):
    """first fit: rank by feature column 1; any later fit: every training target below every training decoy"""

    def fit(self, X, y):
        self.nfit_ = getattr(self, "nfit_", 0) + 1
        self.mem_ = {} if self.nfit_ == 1 else {int(i): int(l) for i, l in zip(X[:, 0], y)}
        self.classes_ = np.array([0, 1])
        return self

    def decision_function(self, X):
        out = np.asarray(X[:, 1], dtype=float).copy()
        for j in range(X.shape[0]):
            lbl = self.mem_.get(int(X[j, 0]))
            if lbl is not None:
                out[j] = -1000.0 if lbl == 1 else 1000.0
        return out


model = Model(Refit(), scaler="as-is", train_fdr=1.0, max_iter=1, override=True, rng=1)
_, models, _, _ = mokapot.brew(mokapot.read_pin([pin], max_workers=1), model, test_fdr=1.0, folds=2, rng=1)
pre = models[0]
pre.train_fdr = 0.3
try:
    _, _, scores, _ = mokapot.brew(mokapot.read_pin([pin], max_workers=1), pre, test_fdr=0.25, folds=2, rng=2)
    if not np.array_equal(np.asarray(scores[0], dtype=float), want):
        print("brew (re-fit worse, original model used): scores are not the per-collection calibration of the model's output")
        bad = 1
except Exception as e:            # noqa
    print("brew with a trained model whose re-fit is worse raised %s: %s" % (type(e).__name__, str(e).split("\n")[0]))
    bad = 1

import shutil                                                # noqa: E402
shutil.rmtree(d, ignore_errors=True)
print("DEFECT PRESENT" if bad else "ok: OnDiskPsmDataset.calibrate_scores works and brew's reset branch returns calibrated scores")
sys.exit(1 if bad else 0)
