import os, random, tempfile, shutil, sys
from pathlib import Path
import numpy as np
sys.path.insert(0, "/verif")
from harness import brewlib
import mokapot, mokapot.confidence as conf
import logging; logging.disable(logging.CRITICAL)
conf.peps_from_scores = lambda s, t, *a, **k: np.zeros(len(s))
rng = random.Random(1)
d = Path(tempfile.mkdtemp(dir="/root/scratch/c09"))
out = d / "out"; out.mkdir()
# stale chunk file of an earlier run: a valid chunk file with foreign PSMs
fa = brewlib.gen_file(rng, 30, 2, file_idx=7)
pa_ = brewlib.write_file(fa, d, "A")
fb = brewlib.gen_file(rng, 12, 2, file_idx=0)
pb = brewlib.write_file(fb, d, "B")
def run(p, f, cs):
    with brewlib.Chunking(confidence=cs):
        ds = mokapot.read_pin([p], max_workers=1)
        mokapot.assign_confidence(ds, max_workers=1, scores=[np.array([float(v) for v in f["data"]["feat0"]])], eval_fdr=0.5, dest_dir=out, prefixes=[None], decoys=True)
# earlier run: make it fail inside the write stage (bad label in last chunk) -> leaves chunk files
import pandas as pd
df = pd.read_csv(pa_, sep="\t"); 
orig = conf._save_sorted_metadata_chunks
cnt = [0]
def failing(*a, **k):
    cnt[0] += 1
    if cnt[0] == 4: raise RuntimeError("simulated crash")
    return orig(*a, **k)
conf._save_sorted_metadata_chunks = failing
try:
    run(pa_, fa, 7)
except Exception as e:
    print("earlier run failed:", type(e).__name__, e)
conf._save_sorted_metadata_chunks = orig
print("leftovers:", sorted(os.listdir(out)))
run(pb, fb, 100)
print("after:", sorted(os.listdir(out)))
t = pd.read_csv(out / "targets.psms", sep="\t"); dd = pd.read_csv(out / "decoys.psms", sep="\t")
ids = list(t["PSMId"]) + list(dd["PSMId"])
print(len(ids), "rows; foreign:", sum(1 for i in ids if i.startswith("f7")))
shutil.rmtree(d)
