"""C01 finding: mokapot.qvalues.tdc rejects finite float scores in a dtype numba cannot type.

The property text of C01 covers "any finite scores (float or small-integer dtype)".  float16 is a numpy float dtype
(half-precision model outputs), and a byte-swapped float64 array is what np.fromfile / FITS / HDF5 readers deliver for
big-endian data.  tdc passes `np.unique(scores)` on to the numba-jitted `_fdr2qvalue`, and numba has no type for
either, so the call stops with NotImplementedError('float16') / numba TypingError instead of returning q-values.
Integer scores do not have the problem (tdc converts them to float32 first); float scores are passed as they are.
A conversion `scores = scores.astype(np.float64)` for every float dtype that is not native float32/float64 would do.

Run:  PYTHONPATH=/repo /venv/bin/python repo_fixes/C01-finding-float16-scores.py     exit 1 = defect present
"""
import sys

import numpy as np

from mokapot.qvalues import tdc

scores = [3.0, 2.5, 2.5, 1.0, 0.25]
target = np.array([True, False, True, True, False])
expected = tdc(np.array(scores, dtype=np.float64), target)          # the answer for the same scores as float64
assert np.allclose(expected, [2 / 3, 2 / 3, 2 / 3, 2 / 3, 1.0])

bad = 0
for dt in ("float16", ">f8", ">f4"):
    arr = np.array(scores, dtype=dt)
    assert [float(v) for v in arr] == scores                        # the values are exactly the same scores
    try:
        got = tdc(arr, target)
    except Exception as e:                                           # noqa
        print(f"scores dtype {dt}: tdc raised {type(e).__module__}.{type(e).__name__}: {str(e).splitlines()[0][:80]}")
        bad += 1
        continue
    if not np.array_equal(got, expected):
        print(f"scores dtype {dt}: q-values {got} differ from those of the same scores as float64 {expected}")
        bad += 1
    else:
        print(f"scores dtype {dt}: ok")
print("DEFECT PRESENT" if bad else "no defect")
sys.exit(1 if bad else 0)
