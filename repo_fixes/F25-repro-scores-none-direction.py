"""F25 reproducer (C07; repaired in /repo by 269116b): assign_confidence(psms, scores=None) chooses the best feature of every collection itself
(confidence.py: `feat, _, _, desc = _psms.find_best_feature(eval_fdr)`) but drops `desc`: descs stays [True, ...].
For a collection whose best feature is LOWER-is-better the PSMs are ranked, competed and given q-values with HIGH
values first, i.e. by the worst possible ordering of the feature that was chosen because it is the best one.
Stand-alone: run with PYTHONPATH=<mokapot tree>; exit 1 when the defect shows, 0 otherwise."""
import logging
import shutil
import sys
import tempfile
from pathlib import Path

import numpy as np
import pandas as pd

import mokapot
import mokapot.confidence as conf

logging.disable(logging.CRITICAL)
conf.peps_from_scores = lambda scores, targets, *a, **k: np.zeros(len(scores))     # PEP estimation is not the subject

rng = np.random.default_rng(3)
n = 300
target = rng.random(n) < 0.55
# an e-value-like feature: LOW is good.  Pairwise distinct values
evalue = np.where(target & (rng.random(n) < 0.8), rng.random(n) * 40, 40 + rng.random(n) * 60)
evalue = np.argsort(np.argsort(evalue)).astype(float)
df = pd.DataFrame({"SpecId": ["psm%d" % i for i in range(n)], "Label": np.where(target, 1, -1), "ScanNr": np.arange(n),
                   "ExpMass": 500.0 + np.arange(n) % 7, "evalue": evalue, "noise": rng.permutation(n),
                   "Peptide": ["K.PEP%dK.A" % i for i in range(n)], "Proteins": ["prot%d" % (i % 5) for i in range(n)]})
d = Path(tempfile.mkdtemp(prefix="c07auto_"))
status = 0
try:
    df.to_csv(d / "a.pin", sep="\t", index=False)
    psms = mokapot.read_pin([d / "a.pin"], max_workers=1)
    feat, npass, _, desc = psms[0].find_best_feature(0.1)
    print(f"find_best_feature(0.1): {feat}, accepts {npass} targets, higher is better: {desc}")
    out = d / "out"
    out.mkdir()
    mokapot.assign_confidence(psms, max_workers=1, eval_fdr=0.1, dest_dir=out, prefixes=[None], decoys=True)
    res = pd.read_csv(out / "targets.psms", sep="\t")
    ev = dict(zip(df["SpecId"], df["evalue"]))
    listed = [ev[i] for i in res["PSMId"]]
    accepted = int((res["q-value"] <= 0.1).sum())
    low_first = all(a <= b for a, b in zip(listed, listed[1:]))
    print(f"targets.psms: first rows have evalue {listed[:4]}; low values first: {low_first}; "
          f"targets with q <= 0.1: {accepted} (the feature accepts {npass} when ranked in its direction)")
    if desc is False and (not low_first or accepted < npass):
        status = 1
finally:
    shutil.rmtree(d, ignore_errors=True)
sys.exit(status)
