"""F17 reproducer (finding, not fixed): when a trained Model is fitted again, the starting labels are
computed from estimator.decision_function(psms.features.values): the fitted scaler is not applied and the
columns are taken by position, not by the stored feature names."""
import numpy as np, pandas as pd, logging
logging.disable(logging.CRITICAL)
from sklearn.svm import LinearSVC
from mokapot.model import Model
from mokapot.dataset import LinearPsmDataset

rng = np.random.default_rng(0)
n = 2000
t = np.arange(n) % 2 == 0
df = pd.DataFrame({"target": t, "spectrum": np.arange(n), "peptide": ["P%d" % i for i in range(n)],
                   "good": rng.normal(size=n) + 3 * t, "noise": 1000 * rng.normal(size=n)})
mk = lambda d: LinearPsmDataset(d, target_column="target", spectrum_columns="spectrum", peptide_column="peptide")
ds = mk(df)
m = Model(LinearSVC(dual=False, random_state=1), train_fdr=0.05, max_iter=3, rng=1, override=True).fit(ds)
by_predict = int((ds._update_labels(m.predict(ds), 0.05) == 1).sum())
print("targets accepted at 5% by Model.predict:", by_predict)
for label, d in (("same table", ds), ("feature columns swapped", mk(df[["target", "spectrum", "peptide", "noise", "good"]]))):
    try:
        m2 = Model(LinearSVC(dual=False, random_state=1), train_fdr=0.05, max_iter=1, rng=1, override=True)
        m2.estimator, m2.scaler, m2.features, m2.is_trained = m.estimator, m.scaler, m.features, True
        m2.fit(d)
        print(f"re-fit, {label}: starting labels accept", int(m2.feat_pass))
    except Exception as e:
        print(f"re-fit, {label}:", type(e).__name__, e)
