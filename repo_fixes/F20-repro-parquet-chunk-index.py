"""ParquetFileReader.get_chunked_data_iterator: the row index must continue across chunks also when pyarrow delivers
batches shorter than chunk_size (it does not re-chunk an empty projection across row groups).  Before fix 37b7b88 the
rows of batch i were numbered from i * chunk_size: 5 rows in row groups of 1, chunk_size 2 -> index 0, 2, 4, 6, 8.
Exit 1 when the defect is present, 0 when repaired."""
import tempfile
from pathlib import Path

import pandas as pd
import pyarrow as pa
import pyarrow.parquet as pq
from mokapot.tabular_data import ParquetFileReader

with tempfile.TemporaryDirectory() as d:
    p = Path(d) / "t.parquet"
    df = pd.DataFrame({"a": [10, 11, 12, 13, 14], "b": list("vwxyz")})
    pq.write_table(pa.Table.from_pandas(df, preserve_index=False), p, row_group_size=1)
    r = ParquetFileReader(p)
    # a projection that pyarrow treats as empty (unknown names are ignored; [] itself is replaced by the first
    # column since 79a1472): batches follow the row groups, 5 batches of 1 row for chunk_size 2
    for cols in (["no_such_column"], []):
        chunks = list(r.get_chunked_data_iterator(chunk_size=2, columns=cols))
        index = [int(i) for ch in chunks for i in ch.index]
        print(cols, [len(ch) for ch in chunks], index)
        assert index == [0, 1, 2, 3, 4], (cols, index)
    # and with real columns nothing changes
    chunks = list(r.get_chunked_data_iterator(chunk_size=2, columns=["b", "a"]))
    assert [list(ch.index) for ch in chunks] == [[0, 1], [2, 3], [4]], [list(ch.index) for ch in chunks]
    assert pd.concat(chunks).equals(r.read(columns=["b", "a"]))
