"""F37 (C06): the PEP estimator 'qvality' and the q-value estimators 'from_peps' / 'from_counts' sort by `-scores`;
with an unsigned-integer score array (uint8 / uint16 / uint32 / uint64: a rank or count feature of a typed table) the
negation wraps (0 stays 0, 1 becomes 255, ...), so the PSMs are ranked wrongly: qvality returns PEP 1 for the best
scores and different PEPs for equal scores, from_peps returns one constant.  Exit 0 when the results for unsigned scores
equal those for the same values as float64, 1 otherwise.  Run: PYTHONPATH=/repo /venv/bin/python -W ignore <this file>"""
import sys
import numpy as np
from mokapot.peps import peps_from_scores
from mokapot.qvalues import qvalues_from_counts, qvalues_from_peps

rng = np.random.default_rng(1)
n = 2000
t = rng.random(n) < 0.5
s = np.where(t, np.where(rng.random(n) < 0.5, rng.integers(100, 250, n), rng.integers(0, 120, n)), rng.integers(0, 120, n))
pk = peps_from_scores(s.astype(float), t, "kde_nnls")
ref = (peps_from_scores(s.astype(float), t, "qvality"), qvalues_from_counts(s.astype(float), t), qvalues_from_peps(s.astype(float), t, pk))
bad = 0
for dt in (np.uint8, np.uint16, np.uint32, np.uint64):
    sc = s.astype(dt)
    got = (peps_from_scores(sc, t, "qvality"), qvalues_from_counts(sc, t), qvalues_from_peps(sc, t, pk))
    for name, a, b in zip(("qvality", "from_counts", "from_peps"), ref, got):
        if not np.array_equal(a, b):
            bad += 1
            o = np.argsort(-s.astype(float), kind="stable")
            print(f"{dt.__name__} {name}: differs from the float64 result; value at the best score {b[o[0]]:.3g} (float64: {a[o[0]]:.3g})")
print("unsigned scores wrap" if bad else "unsigned scores are handled like their values")
sys.exit(1 if bad else 0)
