import sys, os, tempfile, shutil, random
from pathlib import Path
sys.path.insert(0, "/verif")
from harness import brewlib
rng = random.Random(2)
d = Path(tempfile.mkdtemp(dir="/root/scratch/c09"))
f = brewlib.gen_file(rng, 200, 2, file_idx=0)
p = brewlib.write_file(f, d, "x")
# make it ragged: add a second protein to some rows
lines = open(p).read().split("\n")
lines[3] += "\tprotX"
open(p, "w").write("\n".join(lines))
open(str(p) + ".tsv", "w").write("LEFTOVER\tJUNK\n")
import mokapot.mokapot as mm
try:
    mm.main(["--dest_dir", str(d / "out"), "--verify_pin"] + [str(p)]) if False else None
except SystemExit as e:
    print("exit", e)
import subprocess
r = subprocess.run([sys.executable, "-W", "ignore", "-m", "mokapot.mokapot", str(p), "--dest_dir", str(d/"out"), "--max_workers", "1"], capture_output=True, text=True, env=dict(os.environ, PYTHONPATH="/repo"))
print(r.returncode, r.stderr[-1500:])
print(open(p).read()[:200])
print(os.listdir(d), os.listdir(d/"out") if (d/"out").exists() else None)
shutil.rmtree(d)
