#!/usr/bin/env python
"""C06 finding (white-box review): estimate_pi0_by_slope has nothing to fit when the decoy density peaks at the
low end of the score range, and every estimator built on it raises instead of returning one value per PSM.

mokapot/peps.py:187-189

    max_decoy = np.max(decoy_pdf)
    last_index = np.argmax(decoy_pdf >= threshold * max_decoy)
    pi0_est, _ = np.polyfit(decoy_pdf[:last_index], target_pdf[:last_index], 1)

`last_index` is the first histogram bin (KDE grid point) whose decoy density reaches 90 % of the maximum.  When
that is bin 0 - decoy scores that pile up at the lowest scores: the scores of a probabilistic classifier
(predict_proba, values in [0,1]), exponential- or lognormal-like search-engine scores, -log(p) - the prefix is
empty and np.polyfit raises `TypeError: expected non-empty vector for x`.  peps_from_scores(.., "hist_nnls"),
peps_from_scores(.., "kde_nnls") (when the KDE peaks at the first grid point), qvalues_from_scores(..,
"from_peps") and qvalues_from_scores(.., "from_counts") all end in that exception; "qvality" handles the same
data.  The score distribution is not degenerate: 2 x 1000 PSMs, two clearly separated classes, no ties.

Run with PYTHONPATH=<repo>.  Exit status 1 when the defect shows, 0 when every estimator returns one finite value
in range per PSM.
"""
import sys
import warnings

import numpy as np

warnings.simplefilter("ignore")
from mokapot.peps import peps_from_scores  # noqa: E402
from mokapot.qvalues import qvalues_from_scores  # noqa: E402


def datasets():
    rng = np.random.default_rng(20260930)
    n = 2000
    targets = rng.random(n) < 0.5
    good = targets & (rng.random(n) < 0.55)
    # (a) probabilities of a classifier: sigmoid of a well separated mixture
    yield "classifier probabilities in [0,1]", 1.0 / (1.0 + np.exp(-3.0 * np.where(good, rng.normal(4, 1, n), rng.normal(-1, 1, n)))), targets
    # (b) one-sided scores: decoys ~ Exp(1), correct targets ~ 2 + Exp(1/2)
    yield "exponential scores", np.where(good, 2.0 + rng.exponential(2.0, n), rng.exponential(1.0, n)), targets


def main():
    bad = 0
    for name, scores, targets in datasets():
        for fn, alg in ((peps_from_scores, "qvality"), (peps_from_scores, "kde_nnls"), (peps_from_scores, "hist_nnls"),
                        (qvalues_from_scores, "from_peps"), (qvalues_from_scores, "from_counts")):
            try:
                with np.errstate(all="ignore"):
                    v = np.asarray(fn(scores, targets, alg), dtype=float)
            except BaseException as e:  # noqa
                print(f"DEFECT  {name}: {fn.__name__}(scores, targets, {alg!r}) raised {type(e).__name__}: {e}")
                bad += 1
                continue
            ok = v.shape == scores.shape and np.all(np.isfinite(v)) and np.all(v >= 0) and (fn is qvalues_from_scores or np.all(v <= 1))
            print(f"{'ok    ' if ok else 'DEFECT'}  {name}: {fn.__name__}(.., {alg!r}) -> {len(v)} values in [{v.min():.3g}, {v.max():.3g}]")
            bad += 0 if ok else 1
    return 1 if bad else 0


if __name__ == "__main__":
    sys.exit(main())
