"""F7 reproducer: Model.fit(shuffle=False) pairs features of one PSM with the label of another."""
import numpy as np, pandas as pd, logging
from sklearn.base import BaseEstimator
from mokapot.model import Model
from mokapot.dataset import LinearPsmDataset

class Rec(BaseEstimator):
    calls = []
    def fit(self, X, y):
        Rec.calls.append([(int(i), int(v)) for i, v in zip(X[:, 0], y)])
        return self
    def decision_function(self, X):
        return X[:, 1].astype(float)

n = 8
df = pd.DataFrame({"target": [True]*6 + [False]*2, "spectrum": range(n), "peptide": list("ABCDEFGH"),
                   "id": np.arange(n, dtype=float), "s": [10., 9, 8, 7, 6, 5, 1, 0]})
ds = LinearPsmDataset(df, target_column="target", spectrum_columns="spectrum", peptide_column="peptide")
for shuffle in (True, False):
    Rec.calls = []
    m = Model(Rec(), scaler="as-is", train_fdr=0.5, max_iter=2, direction="s", shuffle=shuffle, rng=1)
    try:
        m.fit(ds); out = "ok"
    except Exception as e:
        out = f"{type(e).__name__}: {e}"
    print("shuffle", shuffle, out)
    for k, c in enumerate(Rec.calls):
        bad = [(i, y) for i, y in c if (y == 1) != bool(df.target[i])]
        print("  iter", k, sorted(c), "MISALIGNED" if bad else "")
