"""CSVFileReader / ParquetFileReader asked for an EMPTY column list (what a ComputedTabularDataReader asked only for its
computed column, or a JoinedTabularDataReader member none of whose columns is requested, passes down) must deliver all
rows without columns.  Before fix 79a1472: read_csv(usecols=[]) parsed no row (0 rows; a joined chunked read stopped after
the first chunk), and pyarrow did not re-chunk the empty projection (5 chunks of 1 row instead of 2, 2, 1).
Exit 1 when the defect is present, 0 when repaired."""
import tempfile
from pathlib import Path

import numpy as np
import pandas as pd
import pyarrow as pa
import pyarrow.parquet as pq
from mokapot.streaming import ComputedTabularDataReader, JoinedTabularDataReader
from mokapot.tabular_data import DataFrameReader, TabularDataReader

with tempfile.TemporaryDirectory() as d:
    df = pd.DataFrame({"a": [10, 11, 12, 13, 14], "b": list("vwxyz")})
    other = DataFrameReader(pd.DataFrame({"d": [1.5, 2.5, 3.5, 4.5, 5.5]}))
    csv, par = Path(d) / "t.tab", Path(d) / "t.parquet"
    df.to_csv(csv, sep="\t", index=False)
    pq.write_table(pa.Table.from_pandas(df, preserve_index=False), par, row_group_size=1)
    for p in (csv, par):
        r = TabularDataReader.from_path(p)
        whole = r.read(columns=[])
        chunks = list(r.get_chunked_data_iterator(chunk_size=2, columns=[]))
        print(p.suffix, whole.shape, [(ch.shape, list(ch.index)) for ch in chunks])
        assert whole.shape == (5, 0) and list(whole.index) == [0, 1, 2, 3, 4], whole
        assert [ch.shape for ch in chunks] == [(2, 0), (2, 0), (1, 0)], [ch.shape for ch in chunks]
        assert [list(ch.index) for ch in chunks] == [[0, 1], [2, 3], [4]]
        # only the computed column of a computed reader
        comp = ComputedTabularDataReader(r, "k", np.dtype("O"), lambda x: np.full(len(x), True))
        assert comp.read(columns=["k"])["k"].tolist() == [True] * 5, comp.read(columns=["k"])
        got = list(comp.get_chunked_data_iterator(chunk_size=2, columns=["k"]))
        assert [ch["k"].tolist() for ch in got] == [[True, True], [True, True], [True]], got
        # a joined reader with a member none of whose columns is requested
        for members in ([r, other], [other, r]):
            j = JoinedTabularDataReader(members)
            assert j.read(columns=["d"])["d"].tolist() == [1.5, 2.5, 3.5, 4.5, 5.5]
            got = list(j.get_chunked_data_iterator(chunk_size=2, columns=["d"]))
            assert [ch["d"].tolist() for ch in got] == [[1.5, 2.5], [3.5, 4.5], [5.5]], got
            assert [list(ch.index) for ch in got] == [[0, 1], [2, 3], [4]], got
    # a file with a header and no rows: one empty chunk from the CSV reader, none from the Parquet reader (as for any request)
    df.iloc[:0].to_csv(csv, sep="\t", index=False)
    r = TabularDataReader.from_path(csv)
    assert r.read(columns=[]).shape == (0, 0)
    assert [ch.shape for ch in r.get_chunked_data_iterator(chunk_size=2, columns=[])] == [(0, 0)]
