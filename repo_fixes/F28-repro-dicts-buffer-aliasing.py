"""F28 (C13, fixed in /repo 6413561): BufferedWriter with buffer_type=TableType.Dicts kept the caller's dict objects.

Before the repair append_data(row) stored a reference (`self.buffer += data`; now a copy of every dict); the row is turned
into text only when the buffer is flushed.  A caller that fills ONE dict per row and appends it (the usual way to avoid
allocating a dict per row) therefore found the
LAST values of every flush window in the file: 5 appended rows (0,v0) .. (4,v4) with buffer_size=3 read back as
(2,v2) (2,v2) (2,v2) (4,v4) (4,v4).  The DataFrame buffer (data.copy(deep=True) / pd.concat) and the Records buffer (np.append)
copy what they are given and are not affected; an unbuffered writer is not affected either.

Exit status 1 when the defect is present (6413561 reverted), 0 when the file holds the rows as they were when they were appended.
Run: PYTHONPATH=/repo /venv/bin/python repo_fixes/F28-repro-dicts-buffer-aliasing.py"""
import sys
import tempfile
import warnings
from pathlib import Path

import pandas as pd
import pyarrow as pa

from mokapot.tabular_data import TabularDataWriter, TableType

warnings.simplefilter("ignore")
want = [[i, f"v{i}"] for i in range(5)]
bad = 0
with tempfile.TemporaryDirectory() as d:
    for suffix, kw in ((".tab", {}), (".parquet", {"column_types": [pa.int64(), pa.string()]})):
        for kind in (TableType.Dicts, TableType.DataFrame):
            path = Path(d) / f"out{suffix}"
            w = TabularDataWriter.from_suffix(path, ["a", "b"], buffer_size=3, buffer_type=kind, **kw)
            row = {"a": None, "b": None}
            frame = pd.DataFrame({"a": [0], "b": ["v0"]})
            with w:
                for i in range(5):
                    if kind == TableType.Dicts:
                        row["a"], row["b"] = i, f"v{i}"       # the same dict object, refilled
                        w.append_data(row)
                    else:
                        frame.loc[0, "a"], frame.loc[0, "b"] = i, f"v{i}"
                        w.append_data(frame)
            got = w.get_associated_reader().read().values.tolist()
            ok = got == want
            print(f"{suffix} {kind.name}: {got} -> {'ok' if ok else 'NOT the appended rows'}")
            bad += not ok
sys.exit(1 if bad else 0)
