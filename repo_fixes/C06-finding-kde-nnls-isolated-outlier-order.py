#!/usr/bin/env python
"""C06 finding (white-box review): with kde_nnls the PEP of an isolated far-outlier PSM depends on the ORDER in
which the same PSMs are passed.

peps_from_scores_kde_nnls monotonizes the raw estimate with a weighted NNLS fit whose weights are the target
density (mokapot/peps.py:254-258).  Between an isolated outlier (here one decoy 41 standard deviations below the
bulk) and the rest of the scores the target density is ~1e-300, the fit is not determined there, and the solution
that scipy's nnls returns follows the rounding noise of the KDE sums (which differ by ~1e-20 between two orders of
the same scores).  The outlier PSM gets 0.876 in one order and 1.0 in the other; every other PSM gets the same
value (to 1e-12) in both.  Values stay inside [0,1], monotone and aligned within each call, so only the clause
"whatever the input order" is touched, and only for the isolated PSM.

Run with PYTHONPATH=<repo>.  Exit status 1 when the defect shows.
"""
import sys
import warnings

import numpy as np

warnings.simplefilter("ignore")
from mokapot.peps import peps_from_scores  # noqa: E402


def main():
    bad = 0
    for seed in (27, 31):
        rng = np.random.default_rng(seed)
        n = 500
        targets = rng.random(n) < 0.35
        good = targets & (rng.random(n) < 0.55)
        scores = np.where(good, rng.normal(3, 1, n), rng.normal(0, 1, n))
        scores[np.flatnonzero(targets)[0]] = 43.5        # one isolated target far above ...
        scores[np.flatnonzero(~targets)[0]] = -41.5      # ... and one isolated decoy far below the bulk
        order = np.argsort(-scores, kind="stable")
        with np.errstate(all="ignore"):
            as_given = peps_from_scores(scores, targets, "kde_nnls")
            best_first = peps_from_scores(scores[order], targets[order], "kde_nnls")
        diff = np.abs(as_given[order] - best_first)
        worst = np.flatnonzero(diff > 1e-6)
        for j in worst:
            print(f"DEFECT  seed {seed}: PSM with score {scores[order][j]!r} gets PEP {as_given[order][j]!r} in the given order "
                  f"and {best_first[j]!r} when the same PSMs are passed best first")
        if len(worst) == 0:
            print(f"ok      seed {seed}: same PEPs in both orders (max difference {diff.max():.3g})")
        bad += len(worst)
    return 1 if bad else 0


if __name__ == "__main__":
    sys.exit(main())
