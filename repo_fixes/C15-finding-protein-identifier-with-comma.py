"""C15 finding (not fixed): a FASTA identifier containing a comma breaks the target/decoy pairing.

Group names are the identifiers of the member proteins joined by ', '.  picked_protein takes the text before the
first ',' of a group name as "the first protein" and looks it up in the target -> decoy map.  For the protein 'P,0'
that text is 'P', which is no protein of the database: the target group 'P,0' gets the key 'P', its decoy group
'decoy_P,0' the key 'decoy_P', and both are reported - two entries for one target/decoy pair.

Exit status 1 while the defect is present.
Run: PYTHONPATH=/repo /venv/bin/python repo_fixes/C15-finding-protein-identifier-with-comma.py"""
import logging
import sys
import tempfile
import warnings

warnings.simplefilter("ignore")  # noqa: E402
from pathlib import Path

import pandas as pd

from mokapot.parsers.fasta import read_fasta
from mokapot.picked_protein import picked_protein

logging.disable(logging.CRITICAL)
df = pd.DataFrame({"target": [True, False], "peptide": ["AAAAK", "GGGGK"], "score": [1.0, 2.0]})
res = {}
with tempfile.TemporaryDirectory() as d:
    for name in ("P0", "P,0"):
        fa = Path(d) / "db.fasta"
        fa.write_text(f">{name}\nAAAAKCCCCK\n>decoy_{name}\nGGGGKHHHHK\n")
        prot = read_fasta(fa, missed_cleavages=0, min_length=3, decoy_prefix="decoy_")
        out = picked_protein(df, "target", "peptide", "score", prot, 1)
        res[name] = out["mokapot protein group"].tolist()
        print(f"protein {name!r}: target -> decoy map {prot.protein_map}; entries {res[name]}")
bad = len(res["P,0"]) != 1
print("both the target and its decoy are reported" if bad else "one entry for the pair")
sys.exit(1 if bad else 0)
