#!/usr/bin/env python3
"""C20 finding: a <search_score> named like one of the parser's own dictionary keys.

mokapot/parsers/pepxml.py::_parse_psm stores the spectrum fields (ms_data_file, scan, charge, ret_time, exp_mass),
the hit fields (calc_mass, peptide, proteins, label, missed_cleavages, ntt, num_matched_peptides) and every
search score of the hit in ONE dict (`psm[element.get("name")] = element.get("value")`).  A score with one of
those names therefore replaces the field; read_pepxml later overwrites scores called mass_diff / abs_mz_diff.

Property C20: every hit becomes one PSM carrying the spectrum's scan number, charge, retention time ..., the
hit's peptide ..., and all search scores as numeric features.

Run:  PYTHONPATH=/repo /venv/bin/python repo_fixes/C20-finding-score-name-collision.py
exit 1 while the defect is present, 0 when every field and every score survives."""
import os
import sys
import tempfile

import mokapot

DOC = """<?xml version="1.0" encoding="UTF-8"?>
<msms_pipeline_analysis xmlns="http://regis-web.systemsbiology.net/pepXML">
<msms_run_summary base_name="run1" raw_data_type="raw" raw_data=".mzXML">
<spectrum_query spectrum="s.8" start_scan="8" end_scan="8" precursor_neutral_mass="989.6051" assumed_charge="2" index="1" retention_time_sec="123.372">
<search_result>
<search_hit hit_rank="1" peptide="QATARSK" calc_neutral_pep_mass="989.5821" protein="rev_sp|Q9HBJ0|PLAC1_HUMAN x" num_missed_cleavages="1">
<search_score name="hyperscore" value="14.534"/>
<search_score name="{name}" value="0.75"/>
</search_hit>
<search_hit hit_rank="2" peptide="TATGVQGK" calc_neutral_pep_mass="989.5709" protein="sp|Q9Y3P9|RBGP1_HUMAN y" num_missed_cleavages="0">
<search_score name="hyperscore" value="14.114"/>
<search_score name="{name}" value="0.25"/>
</search_hit>
</search_result>
</spectrum_query>
</msms_run_summary>
</msms_pipeline_analysis>
"""

bad = []
with tempfile.TemporaryDirectory() as d:
    for name in ["scan", "charge", "ret_time", "exp_mass", "calc_mass", "peptide", "proteins", "label", "ms_data_file",
                 "missed_cleavages", "mass_diff", "abs_mz_diff", "charge_2"]:
        path = os.path.join(d, "a.pep.xml")
        with open(path, "w") as fh:
            fh.write(DOC.format(name=name))
        try:
            df = mokapot.read_pepxml(path, decoy_prefix="rev_", to_df=True)
        except Exception as e:      # noqa
            bad.append(f"score named {name!r}: well-formed file rejected with {type(e).__name__}: {e}"[:160])
            continue
        got = (df["scan"].tolist(), df["charge"].tolist(), df["ret_time"].tolist(), df["exp_mass"].tolist(),
               df["calc_mass"].tolist(), df["peptide"].tolist(), df["proteins"].tolist(), df["label"].tolist(),
               [str(x) for x in df["ms_data_file"]], df["missed_cleavages"].tolist())
        want = ([8, 8], [2, 2], [123.372] * 2, [989.6051] * 2, [989.5821, 989.5709], ["QATARSK", "TATGVQGK"],
                ["rev_sp|Q9HBJ0|PLAC1_HUMAN", "sp|Q9Y3P9|RBGP1_HUMAN"], [False, True], ["run1.mzXML"] * 2, [1.0, 0.0])
        if got != want:
            bad.append(f"score named {name!r}: a field of the PSM was replaced: {got}"[:200])
        elif list(df.columns).count(name) > 1:
            bad.append(f"score named {name!r}: the result has {list(df.columns).count(name)} columns of that name")
        elif name not in df.columns or [float(x) for x in df[name]] != [0.75, 0.25]:
            bad.append(f"score named {name!r}: the score 0.75 / 0.25 is not carried "
                       f"({df[name].tolist() if name in df.columns else 'no column'})")
for b in bad:
    print("DEFECT:", b)
print(f"{len(bad)} colliding names misbehave")
sys.exit(1 if bad else 0)
