#!/venv/bin/python
"""F22 (property C19; repaired in /repo acb0557): a PIN without any PSM line.

Property C19: "Converting a PIN file ... yields a rectangular table with the same header and one line per PSM ...; an
optional DefaultDirection line is dropped.  The output is recognised as valid, converting it again changes nothing, and a
file is reported valid exactly when all its lines have as many fields as the header and it has no DefaultDirection line."

Before acb0557 both functions of mokapot.parsers.pin_to_tsv needed a second line and left with a bare StopIteration for a
PIN with zero PSMs:
  * header only:               pin_to_valid_tsv raised (after writing the header), is_valid_tsv raised
                               (by the property: converts to itself, and is valid)
  * header + DefaultDirection: pin_to_valid_tsv wrote the header (correct), but that output was not "recognised as
                               valid" (is_valid_tsv raised) and could not be "converted again" (raised)
`mokapot empty.pin` died in its verify step with the same StopIteration traceback.

Run:  PYTHONPATH=/repo /venv/bin/python repo_fixes/F22-repro-zero-psm-pin.py    exit 1 = the defect shows (tree before
acb0557), 0 = it does not."""
import io
import sys

from mokapot.parsers.pin_to_tsv import is_valid_tsv, pin_to_valid_tsv

HEADER = "SpecId\tLabel\tScanNr\tPeptide\tProteins\n"
DDLINE = "DefaultDirection\t-\t-\t-\t-\n"


def call(fn, *a):
    try:
        return ("ok", fn(*a))
    except BaseException as e:  # noqa
        return ("raised", type(e).__name__)


def convert(text):
    out = io.StringIO()
    r = call(pin_to_valid_tsv, io.StringIO(text), out)
    return (r[0], out.getvalue() if r[0] == "ok" else r[1])


bad = []
# header only
r = convert(HEADER)
if r != ("ok", HEADER):
    bad.append(("pin_to_valid_tsv(header only)", r, ("ok", HEADER)))
r = call(is_valid_tsv, io.StringIO(HEADER))
if r != ("ok", True):
    bad.append(("is_valid_tsv(header only)", r, ("ok", True)))
# header + DefaultDirection line
r = convert(HEADER + DDLINE)
if r != ("ok", HEADER):
    bad.append(("pin_to_valid_tsv(header + DefaultDirection)", r, ("ok", HEADER)))
else:
    v = call(is_valid_tsv, io.StringIO(r[1]))
    if v != ("ok", True):
        bad.append(("is_valid_tsv(output of the conversion of header + DefaultDirection)", v, ("ok", True)))
    again = convert(r[1])
    if again != ("ok", r[1]):
        bad.append(("pin_to_valid_tsv(its own output for header + DefaultDirection)", again, ("ok", r[1])))
r = call(is_valid_tsv, io.StringIO(HEADER + DDLINE))
if r != ("ok", False):
    bad.append(("is_valid_tsv(header + DefaultDirection)", r, ("ok", False)))
for what, got, want in bad:
    print("DEFECT %s: got %r, the property demands %r" % (what, got, want))
if not bad:
    print("no defect: PINs without PSM lines are converted and recognised")
sys.exit(1 if bad else 0)
