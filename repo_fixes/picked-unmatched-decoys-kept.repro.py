"""Reproducer for repo_fixes/picked-unmatched-decoys-kept.patch  (property C15).

With a target-only FASTA (Proteins.has_decoys == False) picked_protein() clears the `unmatched` flag of every
decoy row before the sanity check and then filters with that same mask, so decoy peptides for which
match_decoy found no target (and shared / foreign sequences written as decoys) stay in the table with a
NaN protein group; groupby_max then treats NaN as one more "pair" and returns a protein entry without a
protein group.  Property text: "exactly one entry for every target/decoy protein-group pair that has at least
one retained unique peptide ... Peptides shared between protein groups never contribute".

Run:  PYTHONPATH=/repo /venv/bin/python -W ignore repo_fixes/picked-unmatched-decoys-kept.repro.py
unpatched: prints two rows, one of them (the shared peptide DVVVK) with protein group NaN (exit status 1); patched: one row (exit status 0).
"""
import logging
import os
import sys
import tempfile

import numpy as np
import pandas as pd

logging.disable(logging.CRITICAL)
from mokapot.parsers.fasta import read_fasta
from mokapot.picked_protein import picked_protein

with tempfile.TemporaryDirectory() as d:
    fa = os.path.join(d, "targets.fasta")
    with open(fa, "w") as f:
        f.write(">P0\nDVVVKHWSSR\n>P1\nGENRDVVVKYCMK\n")      # DVVVK is shared; HWSSR unique to P0; GENR, YCMK unique to P1
    proteins = read_fasta(fa, missed_cleavages=0, min_length=3)
assert not proteins.has_decoys
# a target peptide, a decoy peptide nothing can be matched to, and the shared peptide written as a decoy
table = pd.DataFrame({"target": [True, False, False], "peptide": ["K.YCMK.-", "R.QQQQK.-", "K.DVVVK.H"],
                      "score": [1.0, 2.0, 3.0]})
out = picked_protein(table, "target", "peptide", "score", proteins, np.random.default_rng(0))
print(out)
sys.exit(1 if out["mokapot protein group"].isna().any() else 0)
