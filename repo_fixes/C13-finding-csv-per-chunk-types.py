"""C13 finding (not fixed): CSVFileReader infers the type of a column per chunk.

A delimited-text column of strings whose first rows look like numbers (an id column "7", "11", "abc1"; a peptide-group
column): read() returns the column as strings ('7', '11', 'abc1'), get_chunked_data_iterator(c) delivers the integers 7, 11
in every chunk that happens to hold only number-like cells and strings in the others.  Which cells come back as numbers
depends on the chunk size; concatenating the chunks does not equal reading the table in one piece (values differ:
7 != '7', and '2.50' comes back as 2.5).  pandas.read_csv is called without dtype=, once per chunk.

Exit status 1 while the defect is present, 0 when the concatenated chunks carry the same values as the whole read.
Run: PYTHONPATH=/repo /venv/bin/python repo_fixes/C13-finding-csv-per-chunk-types.py"""
import sys
import tempfile
import warnings
from pathlib import Path

import pandas as pd

from mokapot.tabular_data import TabularDataReader

warnings.simplefilter("ignore")
bad = 0
with tempfile.TemporaryDirectory() as d:
    path = Path(d) / "t.tab"
    path.write_text("id\tscore\n7\t0.5\n11\t1.5\n2.50\t2.5\nabc1\t3.5\nabc2\t4.5\n")
    reader = TabularDataReader.from_path(path)
    whole = reader.read()["id"].tolist()
    print("read():", whole)
    for c in (1, 2, 3, 5):
        cat = [v for ch in reader.get_chunked_data_iterator(chunk_size=c) for v in ch["id"].tolist()]
        same = [type(a) is type(b) and a == b for a, b in zip(cat, whole)]
        ok = len(cat) == len(whole) and all(same)
        print(f"chunk size {c}: {cat} -> {'ok' if ok else 'DIFFERENT from read()'}")
        bad += not ok
sys.exit(1 if bad else 0)
