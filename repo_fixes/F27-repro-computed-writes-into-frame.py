"""F27 (C13, fixed in /repo af0267a): ComputedTabularDataReader.read() (columns=None) over a DataFrameReader wrote its column
INTO the caller's DataFrame.

Before the repair:

DataFrameReader.read(columns=None) returns self.df itself and ComputedTabularDataReader.read then did
`df[self.column] = self.func(df)` on it (now: `df = df.assign(...)`, a new frame).  After one read() of all columns

* the DataFrame the caller handed to DataFrameReader has an extra column,
* get_column_names() of the computed reader lists its column twice,
* a JoinedTabularDataReader over it (which selects the columns of each member from get_column_names()) answers
  read(['c', 'k']) and get_chunked_data_iterator(2, ['c', 'k']) with the columns c, k, k.

So what a reader delivers depends on what it was asked before; "the requested columns in the requested order" fails for
the second request.  (A chunked pass does not do this: iloc slices are copies.)

Exit status 1 when the defect is present (af0267a reverted), 0 when the second request is answered like the first.
Run: PYTHONPATH=/repo /venv/bin/python repo_fixes/F27-repro-computed-writes-into-frame.py"""
import sys
import warnings

import numpy as np
import pandas as pd

from mokapot.streaming import ComputedTabularDataReader, JoinedTabularDataReader
from mokapot.tabular_data import DataFrameReader

warnings.simplefilter("ignore")
d = pd.DataFrame({"a": [1, 2, 3], "b": list("xyz")})
e = pd.DataFrame({"c": [10, 20, 30]})
comp = ComputedTabularDataReader(DataFrameReader(d), "k", np.dtype("O"), lambda df: np.full(len(df), True))
joined = JoinedTabularDataReader([comp, DataFrameReader(e)])
bad = 0
first = joined.read(["c", "k"]).columns.tolist()
joined.read()                                        # all columns, once
second = joined.read(["c", "k"]).columns.tolist()
chunked = [ch.columns.tolist() for ch in joined.get_chunked_data_iterator(2, ["c", "k"])]
print("read(['c','k']) before read():", first)
print("read(['c','k']) after  read():", second)
print("chunks(2, ['c','k']) after read():", chunked)
print("caller's frame now has the columns", d.columns.tolist(), "; get_column_names():", comp.get_column_names())
bad += second != ["c", "k"] or any(x != ["c", "k"] for x in chunked)
bad += d.columns.tolist() != ["a", "b"]
bad += comp.get_column_names() != ["a", "b", "k"]
sys.exit(1 if bad else 0)
