"""C15 finding (not fixed): picked_protein overwrites a caller's column named like one of the columns it adds.

picked_protein copies the target / peptide / score columns under the caller's names and then adds
'stripped sequence', 'mokapot protein group' and 'decoy' (the pairing key) to the same frame.  A score column
called 'decoy' is replaced by the pairing key: the "best" peptide of a pair is then chosen by nothing (all rows of
a pair tie) and the reported score is the pair's name.  A target column called 'decoy' is reported as the pair's
name instead of the flag.  The names 'stripped sequence', 'mokapot protein group', 'best peptide' for the target or
score column end in TypeError / AttributeError.  The peptide column may carry any name (it is renamed first).

Exit status 1 while the defect is present.
Run: PYTHONPATH=/repo /venv/bin/python repo_fixes/C15-finding-column-name-collision.py"""
import logging
import sys
import tempfile
import warnings

warnings.simplefilter("ignore")  # noqa: E402
from pathlib import Path

import pandas as pd

from mokapot.parsers.fasta import read_fasta
from mokapot.picked_protein import picked_protein

logging.disable(logging.CRITICAL)
with tempfile.TemporaryDirectory() as d:
    fa = Path(d) / "db.fasta"
    fa.write_text(">P0\nAAAAKCCCCKDDDDK\n>P1\nEEEEKFFFFK\n>decoy_P0\nGGGGKHHHHKIIIIK\n>decoy_P1\nLLLLKMMMMK\n")
    prot = read_fasta(fa, missed_cleavages=0, min_length=3, decoy_prefix="decoy_")
rows = {"t": [True, True, True, False, False, True],
        "p": ["K.AAAAK.C", "CC[+1]CCK", "EEEEK", "GGGGK", "LLLLK", "FFFFK"],
        "s": [1.0, 2.0, 3.0, 2.5, 0.5, 0.25]}


def run(tn, pn, sn):
    df = pd.DataFrame({tn: rows["t"], pn: rows["p"], sn: rows["s"]})
    try:
        out = picked_protein(df, tn, pn, sn, prot, 1)
        return sorted((g, b, s, t) for g, b, s, t in zip(out["mokapot protein group"], out["best peptide"], out[sn], out[tn]))
    except Exception as e:                           # noqa
        return "%s: %s" % (type(e).__name__, str(e)[:60])


ref = run("target", "peptide", "score")
print("reference:", ref)
bad = 0
for names in [("decoy", "peptide", "score"), ("target", "peptide", "decoy"), ("stripped sequence", "peptide", "score"),
              ("target", "peptide", "stripped sequence"), ("mokapot protein group", "peptide", "score"),
              ("target", "peptide", "mokapot protein group"), ("best peptide", "peptide", "score"),
              ("target", "peptide", "best peptide"), ("target", "decoy", "score"), ("target", "best peptide", "score")]:
    got = run(*names)
    ok = got == ref
    bad += not ok
    print("%-60r %s" % (names, "same" if ok else "DIFFERENT: %r" % (got,)))
sys.exit(1 if bad else 0)
