"""C09 finding (not fixed): the stand-alone rollup tool (python -m mokapot.brew_rollup) leaves its intermediate files
<file_root>.temp.<level>s in the destination directory after a successful run.  do_rollup writes, per rollup level, the best
row of every entity to such a file, reads it back to compute q-values / PEPs, writes <file_root>.targets.<level>s and
<file_root>.decoys.<level>s — and never removes the temp file.  (The files are created afresh by every run, so their
content does not depend on leftovers; they are simply still there: 'after a successful confidence assignment no
intermediate file of that run remains in the destination directory' does not hold for this tool.)

Exit status 1 while the defect is present.
Run: PYTHONPATH=/repo /venv/bin/python repo_fixes/C09-finding-rollup-temp-files.py"""
import logging
import os
import sys
import tempfile
import warnings
from pathlib import Path

import numpy as np

import mokapot.brew_rollup as br

warnings.simplefilter("ignore")
# (PEP estimation needs more rows than this table has; it plays no role for the files that are created)
br.peps_from_scores = lambda scores, targets, *a, **k: np.zeros(len(scores))
HEADER = "PSMId\tpeptide\tscore\tq-value\tposterior_error_prob\tproteinIds\n"
with tempfile.TemporaryDirectory() as d:
    src, dest = Path(d) / "src", Path(d) / "dest"
    src.mkdir()
    dest.mkdir()
    (src / "a.targets.psms").write_text(HEADER + "".join(
        "t%d\tK.PEP%dK.A\t%d.0\t0.1\t0.0\tprot%d\n" % (i, i % 3, 20 - i, i % 2) for i in range(6)))
    (src / "a.decoys.psms").write_text(HEADER + "".join(
        "d%d\tK.DEC%dK.A\t%d.5\t0.5\t0.0\tdecoy_prot%d\n" % (i, i % 2, 9 - i, i % 2) for i in range(4)))
    br.main(["--level", "psm", "--src_dir", str(src), "--dest_dir", str(dest), "--file_root", "ro", "--verbosity", "0"])
    logging.disable(logging.CRITICAL)
    listing = sorted(os.listdir(dest))
print("destination directory after a successful rollup:", listing)
left = [fn for fn in listing if ".temp." in fn]
if left:
    print("DEFECT: intermediate files remain:", left)
    sys.exit(1)
print("no intermediate file remains")
sys.exit(0)
