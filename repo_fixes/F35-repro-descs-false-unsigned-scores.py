"""assign_confidence(descs=[False]) with an unsigned-integer score array: the negation wraps (1 -> 255), so the ranking is wrong.
exit 1 while the defect is present."""
import sys, tempfile, logging, warnings
from pathlib import Path
import numpy as np, pandas as pd
import mokapot
logging.disable(logging.CRITICAL); warnings.simplefilter("ignore")
import mokapot.confidence as conf
conf.peps_from_scores = lambda scores, targets, *a, **k: np.zeros(len(scores))
n = 40
rng = np.random.default_rng(1)
# lower is better: targets have small values
vals = np.concatenate([rng.integers(0, 20, 20), rng.integers(100, 250, 20)]).astype(np.uint8)
lab = np.array([1] * 20 + [-1] * 20)
df = pd.DataFrame({"SpecId": ["p%d" % i for i in range(n)], "Label": lab, "ScanNr": np.arange(1, n + 1), "ExpMass": 500.0 + np.arange(n),
                   "feat": vals.astype(float), "Peptide": ["K.PEP%dK.A" % i for i in range(n)], "Proteins": ["x"] * n})
bad = 0
with tempfile.TemporaryDirectory() as d:
    p = Path(d) / "t.pin"; df.to_csv(p, sep="\t", index=False)
    outs = {}
    for name, sc in (("float64", vals.astype(float)), ("uint8", vals)):
        ds = mokapot.read_pin(p, max_workers=1)
        o = Path(d) / name; o.mkdir()
        mokapot.assign_confidence(ds, scores=[sc], descs=[False], dest_dir=o, max_workers=1, eval_fdr=0.5, rng=1, prefixes=[None])
        t = pd.read_csv(o / "targets.psms", sep="\t")
        outs[name] = (t["PSMId"].tolist(), t["q-value"].tolist())
        print(name, "first rows:", t[["PSMId", "score", "q-value"]].head(3).values.tolist())
    if outs["float64"] != outs["uint8"]:
        print("the uint8 score array is ranked differently from the same values as float64"); bad = 1
sys.exit(bad)
