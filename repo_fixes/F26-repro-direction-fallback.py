"""F26 reproducer (C07; repaired in /repo by 53bc608): Model(direction=<feature name>) stores the VALUES of that feature in
model.best_feat (model.py, _get_starting_labels: `best_feat = feat`), not its name.  When training fails or the
learned scores are worse, brew's fall-back does `read_data(columns=[best_feat])` with an ndarray and raises
(typeguard TypeCheckError) instead of handing back that feature's values with its direction.
Stand-alone: run with PYTHONPATH=<mokapot tree>; exit 1 when the defect shows, 0 otherwise."""
import logging
import shutil
import sys
import tempfile
from pathlib import Path

import numpy as np
import pandas as pd
from sklearn.base import BaseEstimator, ClassifierMixin

import mokapot
from mokapot.model import Model

logging.disable(logging.CRITICAL)


class CannotLearn(BaseEstimator, ClassifierMixin):
    """a learner whose decision function is constant: training cannot improve on any feature"""

    def fit(self, X, y):
        self.classes_ = np.array([0, 1])
        return self

    def decision_function(self, X):
        return np.zeros(X.shape[0])


rng = np.random.default_rng(7)
n = 300
target = rng.random(n) < 0.55
good = np.where(target & (rng.random(n) < 0.8), rng.integers(50, 100, n), rng.integers(0, 60, n))
df = pd.DataFrame({"SpecId": ["psm%d" % i for i in range(n)], "Label": np.where(target, 1, -1), "ScanNr": np.arange(n),
                   "ExpMass": 500.0 + np.arange(n) % 7, "good": good, "noise": rng.integers(0, 50, n),
                   "Peptide": ["K.PEP%dK.A" % (i % 90) for i in range(n)], "Proteins": ["prot%d" % (i % 5) for i in range(n)]})
d = Path(tempfile.mkdtemp(prefix="c07dir_"))
status = 0
try:
    df.to_csv(d / "a.pin", sep="\t", index=False)
    for direction in (None, "good"):
        psms = mokapot.read_pin([d / "a.pin"], max_workers=1)
        model = Model(CannotLearn(), scaler="as-is", train_fdr=0.25, max_iter=1, direction=direction, override=False, rng=1)
        try:
            _, models, scores, descs = mokapot.brew(psms, model, test_fdr=0.25, folds=3, rng=1)
            ok = np.array_equal(np.asarray(scores[0]).ravel(), good) and list(descs) == [True]
            print(f"direction={direction!r}: best_feat={[type(m.best_feat).__name__ for m in models]}, "
                  f"fell back to the feature 'good', higher is better: {ok}")
            status |= 0 if ok else 1
        except Exception as e:    # noqa
            print(f"direction={direction!r}: brew raised {type(e).__name__}: {str(e).splitlines()[0]}")
            status = 1
finally:
    shutil.rmtree(d, ignore_errors=True)
sys.exit(status)
