#!/usr/bin/env python3
"""C14 finding (known, not fixed): utils.get_next_row compares float(row[score_column]).

Integer scores of magnitude >= 2^53 that differ by less than the spacing of doubles are a tie for merge_sort, so the
"maximum" it picks is the first of them, not the largest: the merged output is not in non-increasing score order
although every input is sorted.  (MergedTabularDataReader compares the int64 values themselves and is exact.)

Run:  PYTHONPATH=/repo /venv/bin/python repo_fixes/C14-finding-merge-sort-float-compare.py
exit 1 = the defect shows, exit 0 = merged output is sorted."""
import sys
import tempfile
import warnings
from pathlib import Path

import pandas as pd

warnings.simplefilter("ignore")
from mokapot.utils import merge_sort  # noqa: E402

B = 2 ** 53
rc = 0
with tempfile.TemporaryDirectory() as d:
    for suffix in (".csv", ".parquet"):
        paths = []
        for n, scores in enumerate([[B], [B + 1]]):          # each input is (trivially) sorted
            df = pd.DataFrame({"id": [n], "score": pd.array(scores, dtype="int64")})
            p = Path(d) / f"in{n}{suffix}"
            df.to_parquet(p, index=False) if suffix == ".parquet" else df.to_csv(p, sep="\t", index=False)
            paths.append(p)
        out = [int(r["score"]) for r in merge_sort(paths, "score")]
        ok = all(a >= b for a, b in zip(out, out[1:]))
        print(f"{suffix}: merged scores {out} -> {'sorted' if ok else 'NOT in non-increasing order'}")
        if not ok:
            rc = 1
sys.exit(rc)
