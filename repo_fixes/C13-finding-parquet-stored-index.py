"""C13 finding (not fixed): ParquetFileReader on a Parquet file that pandas wrote WITH its row labels.

`df[df.x > 0].to_parquet(path)` (a filtered frame keeps its old labels), a sorted frame, string labels, a RangeIndex that
does not start at 0: pandas stores the labels (column __index_level_0__ or RangeIndex metadata).  The table in the file is
well-formed, but

* read() (columns=None) returns the rows labelled with the STORED labels, read(columns=[...]) labels them 0..n-1;
* get_chunked_data_iterator(c) (columns=None) lets pyarrow restore the stored labels per batch and then adds the running
  row offset to them: the labels of the chunks are neither the labels of read() nor 0..n-1, they depend on c, and for
  string labels the iteration raises TypeError;
* get_column_names() lists __index_level_0__, which no read delivers.

So "concatenating the chunks equals reading the table in one piece ... with a row index that continues across chunks"
fails.  (Same root cause as the C10 finding read_pin:parquet-stored-pandas-index.)

Exit status 1 while the defect is present, 0 when chunks and whole read agree for every variant.
Run: PYTHONPATH=/repo /venv/bin/python repo_fixes/C13-finding-parquet-stored-index.py"""
import sys
import tempfile
import warnings
from pathlib import Path

import pandas as pd

from mokapot.tabular_data import TabularDataReader

warnings.simplefilter("ignore")
df = pd.DataFrame({"a": [1, 2, 3, 4, 5], "b": list("vwxyz")})
variants = {
    "filtered frame (labels 0,2,3,4)": df[df.a != 2],
    "sorted frame (labels 4..0)": df.sort_values("a", ascending=False),
    "string labels": df.set_axis([f"r{i}" for i in range(5)], axis=0),
    "RangeIndex starting at 10": df.set_axis(pd.RangeIndex(10, 15), axis=0),
}
bad = 0
with tempfile.TemporaryDirectory() as d:
    for name, frame in variants.items():
        path = Path(d) / "t.parquet"
        frame.to_parquet(path)                       # pandas default: the row labels are stored
        reader = TabularDataReader.from_path(path)
        whole = reader.read()
        n = len(frame)
        for c in (2, n):
            try:
                chunks = list(reader.get_chunked_data_iterator(chunk_size=c))
                cat = pd.concat(chunks)
                ok = cat.index.tolist() == whole.index.tolist() and cat.values.tolist() == whole.values.tolist()
                ok = ok and whole.index.tolist() == reader.read(columns=["a"]).index.tolist()
                print(f"{name}, chunk size {c}: read() labels {whole.index.tolist()}, read(['a']) labels "
                      f"{reader.read(columns=['a']).index.tolist()}, chunk labels {[ch.index.tolist() for ch in chunks]}"
                      f" -> {'ok' if ok else 'DIFFERENT'}")
            except Exception as e:                    # noqa
                ok = False
                print(f"{name}, chunk size {c}: chunked reading raised {type(e).__name__}: {e}")
            bad += not ok
        names = reader.get_column_names()
        if names != list(frame.columns):
            print(f"{name}: get_column_names() = {names}")
            bad += 1
sys.exit(1 if bad else 0)
