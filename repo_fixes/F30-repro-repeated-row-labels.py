"""C15 finding, repaired in /repo by d0dad84: picked_protein on a peptide table whose row labels repeat.

A peptide table assembled with pd.concat([...]) (no ignore_index) carries every label once per part.
utils.groupby_max returns the LABELS of the winning rows and picked_protein fetches them with
prots.loc[prot_idx, ...]: every row that shared its label with a winner was returned as well.  The result then had
several entries for one target/decoy protein pair, among them peptides that are not the best of their pair.
With the same rows labelled 0..n-1 the answer was right.  Since d0dad84 picked_protein relabels its trimmed copy of
the table 0..n-1 (reset_index(drop=True)), so the winners are selected by position whatever the caller's labels are.

Exit status 1 while the defect is present, 0 on the repaired tree (same entries as with labels 0..n-1).
Run: PYTHONPATH=/repo /venv/bin/python repo_fixes/F30-repro-repeated-row-labels.py"""
import logging
import sys
import tempfile
import warnings

warnings.simplefilter("ignore")  # noqa: E402
from pathlib import Path

import pandas as pd

from mokapot.parsers.fasta import read_fasta
from mokapot.picked_protein import picked_protein

logging.disable(logging.CRITICAL)
with tempfile.TemporaryDirectory() as d:
    fa = Path(d) / "db.fasta"
    fa.write_text(">P0\nAAAAKCCCCKDDDDK\n>P1\nEEEEKFFFFK\n>decoy_P0\nGGGGKHHHHKIIIIK\n>decoy_P1\nLLLLKMMMMK\n")
    prot = read_fasta(fa, missed_cleavages=0, min_length=3, decoy_prefix="decoy_")
file1 = pd.DataFrame({"target": [True, True, True], "peptide": ["K.AAAAK.C", "CC[+1]CCK", "EEEEK"], "score": [1.0, 2.0, 3.0]})
file2 = pd.DataFrame({"target": [False, False, True], "peptide": ["GGGGK", "LLLLK", "FFFFK"], "score": [2.5, 0.5, 0.25]})
both = pd.concat([file1, file2])                     # labels 0,1,2,0,1,2
ref = picked_protein(both.reset_index(drop=True), "target", "peptide", "score", prot, 1)
got = picked_protein(both, "target", "peptide", "score", prot, 1)
cols = ["mokapot protein group", "best peptide", "score"]
print("labels 0..n-1 :", sorted(map(tuple, ref[cols].values.tolist())))
print("labels as concatenated:", sorted(map(tuple, got[cols].values.tolist())))
pairs = got["mokapot protein group"].str.replace("decoy_", "", regex=False)
bad = len(got) != len(ref) or pairs.duplicated().any() or \
    sorted(map(tuple, got[cols].values.tolist())) != sorted(map(tuple, ref[cols].values.tolist()))
print("several entries for one protein pair" if bad else "one entry per protein pair")
sys.exit(1 if bad else 0)
