"""C10 finding (not fixed): read_pin on a Parquet PSM table that was written by pandas WITH its index.

`df[df.rank == 1].to_parquet(path)` (a filtered frame keeps its old row labels), `df.set_index(...)` /
string row labels, or a RangeIndex that does not start at 0 all produce a well-formed PSM table: every
required column is there.  ParquetFileReader.get_chunked_data_iterator calls record_batch.to_pandas(),
which restores the stored index, and then adds the running row offset to it:

* a string index                ->  TypeError: the well-formed table is rejected;
* an integer index              ->  the entries of spectra_dataframe are labelled "stored label + offset"
                                    (different for different CHUNK_SIZE_ROWS_FOR_DROP_COLUMNS) instead of the
                                    row positions 0..n-1 of the file (parsers.pin.get_rows_from_dataframe later
                                    matches fold members, which are row positions, against the index of the
                                    chunks the same reader delivers: set(train) & set(chunk.index));
* RangeIndex(start=10, ...)     ->  labels 10..n+9 when the file is read in one batch, 0..n-1 otherwise.

Exit status 1 while the defect is present, 0 when every variant parses with row labels 0..n-1.
Run: PYTHONPATH=/repo /venv/bin/python repo_fixes/C10-finding-parquet-pandas-index.py"""
import logging
import sys
import tempfile
import warnings
from pathlib import Path

import pandas as pd

import mokapot
import mokapot.parsers.pin as pin

logging.disable(logging.CRITICAL)
warnings.simplefilter("ignore")
n = 6
df = pd.DataFrame({"SpecId": [f"psm{i}" for i in range(n)], "Label": [1, -1, 1, 1, -1, 1], "ScanNr": [5, 3, 9, 3, 1, 7],
                   "ExpMass": [500.25, 501.5, 502.0, 503.75, 504.0, 505.5], "score": [0.5, 1.5, 2.5, 3.5, 4.5, 5.5],
                   "Peptide": list("ABCDEF"), "Proteins": ["P"] * n})
variants = {
    "filtered frame (integer labels 0,2,4,5)": df[df.ScanNr != 3],
    "string row labels": df.set_axis([f"row{i}" for i in range(n)], axis=0),
    "RangeIndex starting at 10": df.set_axis(pd.RangeIndex(10, 10 + n), axis=0),
}
bad = 0
with tempfile.TemporaryDirectory() as d:
    for name, frame in variants.items():
        path = Path(d) / "psms.parquet"
        frame.to_parquet(path)                      # pandas default: the index is stored
        for batch in (2000000, 2):
            pin.CHUNK_SIZE_ROWS_FOR_DROP_COLUMNS = batch
            try:
                ds = mokapot.read_pin(path, max_workers=1)[0]
                labels = ds.spectra_dataframe.index.tolist()
                ok = labels == list(range(len(frame))) and ds.spectra_dataframe["ScanNr"].tolist() == frame["ScanNr"].tolist()
                print(f"{name}, row batch {batch}: row labels {labels} -> {'ok' if ok else 'NOT the row positions 0..n-1'}")
            except Exception as e:                   # noqa
                ok = False
                print(f"{name}, row batch {batch}: rejected with {type(e).__name__}: {e}")
            bad += not ok
sys.exit(1 if bad else 0)
