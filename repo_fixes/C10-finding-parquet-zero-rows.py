"""C10 finding (not fixed): a well-formed PSM table WITHOUT rows parses as tab-delimited text (dataset with zero
entries) but is rejected as Parquet: pyarrow's iter_batches yields no batch for an empty file, so read_percolator
collects no spectra frame and pd.concat([]) raises ValueError('No objects to concatenate').

Exit status 1 while the defect is present.
Run: PYTHONPATH=/repo /venv/bin/python repo_fixes/C10-finding-parquet-zero-rows.py"""
import logging
import sys
import tempfile
import warnings
from pathlib import Path

import pandas as pd

import mokapot

logging.disable(logging.CRITICAL)
warnings.simplefilter("ignore")
df = pd.DataFrame({"SpecId": ["a"], "Label": [1], "ScanNr": [5], "ExpMass": [500.25], "score": [0.5],
                   "Peptide": ["A"], "Proteins": ["P"]}).iloc[:0]
bad = 0
with tempfile.TemporaryDirectory() as d:
    for suffix in (".pin", ".parquet"):
        path = Path(d) / ("empty" + suffix)
        if suffix == ".pin":
            df.to_csv(path, sep="\t", index=False)
        else:
            df.to_parquet(path, index=False)
        try:
            ds = mokapot.read_pin(path, max_workers=1)[0]
            print(f"{suffix}: parsed, {len(ds.spectra_dataframe)} entries, features {ds.feature_columns}")
        except Exception as e:                       # noqa
            bad += 1
            print(f"{suffix}: rejected with {type(e).__name__}: {e}")
sys.exit(1 if bad else 0)
