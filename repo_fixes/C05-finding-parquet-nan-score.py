#!/venv/bin/python
"""C05 finding: a score that is NaN makes assign_confidence fail for a Parquet input and run for the identical table as
text.

brew's calibration (s - t) / (t - d) yields NaN / inf for a PSM when, in its fold, the lowest accepted target score t
equals the median decoy score d (a small fold; seen by the C05 harness on a generated table of 77 PSMs with 3 folds:
brew returned [-10.5, inf, 5.92, inf, ...], 27 infinite and 1 NaN score, under every configuration alike).  Passing these scores on,
as the command line does:
  * text input: the sorted chunk files are text, NaN is an empty cell, `float(row["score"])` is nan: the run finishes;
  * Parquet input: pandas writes NaN as a Parquet null, `ParquetFile.iter_batches(...).to_pylist()` returns None, and
    utils.get_next_row raises TypeError("float() argument must be a string or a real number, not 'NoneType'").

Property C05: "... a run never fails or changes its answer ... whether the identical table is supplied as tab-delimited
text or as Parquet".

Run: PYTHONPATH=/repo /venv/bin/python repo_fixes/C05-finding-parquet-nan-score.py   (exit 1 = defect shows)
"""
import logging
import random
import shutil
import sys
import tempfile
import warnings
from pathlib import Path

warnings.filterwarnings("ignore")
logging.disable(logging.CRITICAL)

import numpy as np          # noqa: E402
import pandas as pd         # noqa: E402
import mokapot              # noqa: E402
import mokapot.confidence   # noqa: E402

mokapot.confidence.peps_from_scores = lambda s, t, *a, **k: np.zeros(len(s))


def main():
    rng = random.Random(11)
    n = 30
    df = pd.DataFrame({"SpecId": ["p%d" % i for i in range(n)], "Label": [1 if rng.random() < .6 else -1 for _ in range(n)],
                       "ScanNr": list(range(n)), "feat0": [rng.randint(0, 100) for _ in range(n)],
                       "Peptide": ["PEP%d" % i for i in range(n)], "Proteins": ["x"] * n})
    scores = np.array(rng.sample(range(1000), n), dtype=float)
    scores[7] = float("nan")
    d = Path(tempfile.mkdtemp(prefix="c05nan_"))
    outcome = {}
    try:
        for fmt in ("pin", "parquet"):
            p = d / ("a." + fmt)
            if fmt == "pin":
                df.to_csv(p, sep="\t", index=False)
            else:
                df.to_parquet(p, index=False)
            out = d / ("out_" + fmt)
            out.mkdir()
            try:
                dss = mokapot.read_pin([p], max_workers=1)
                mokapot.assign_confidence(dss, max_workers=1, scores=[scores], eval_fdr=0.5, dest_dir=out, prefixes=[None], decoys=True)
                rows = sum(len((out / f).read_text().strip().split("\n")) - 1 for f in ("targets.psms", "decoys.psms"))
                outcome[fmt] = "runs, %d PSM-level rows" % rows
            except Exception as e:      # noqa
                outcome[fmt] = "FAILS: %s: %s" % (type(e).__name__, str(e)[:80])
            print("%-8s %s" % (fmt, outcome[fmt]))
    finally:
        shutil.rmtree(d, ignore_errors=True)
    if outcome["pin"].startswith("runs") != outcome["parquet"].startswith("runs"):
        print("DEFECT: whether the run fails depends on the file format")
        return 1
    print("no defect")
    return 0


if __name__ == "__main__":
    sys.exit(main())
