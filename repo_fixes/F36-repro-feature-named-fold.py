"""C02 finding (not fixed): brew cannot rescore a PIN file that has a feature column called "fold".
`_predict` (mokapot/brew.py) stores the fold index of every PSM of a chunk in `psms_slice["fold"]` — overwriting the
user's column — and `get_index_values` drops that column again, so the per-fold slices no longer hold the feature and
`_create_psms` / `Model.predict` raise KeyError("['fold'] not in index") after all fold models were trained.
Any other name works (control run below).  Exit status 1 when the defect shows."""
import logging
import sys
import tempfile
from pathlib import Path

import numpy as np
import pandas as pd

logging.disable(logging.CRITICAL)
import mokapot  # noqa: E402


def table(feature_name, n=300):
    rng = np.random.default_rng(1)
    target = rng.random(n) < 0.5
    good = np.where(target & (rng.random(n) < 0.8), rng.normal(4, 1, n), rng.normal(0, 1, n))
    good2 = np.where(target & (rng.random(n) < 0.8), rng.normal(4, 1, n), rng.normal(0, 1, n))
    return pd.DataFrame({"SpecId": ["psm%d" % i for i in range(n)], "Label": np.where(target, 1, -1),
                         "ScanNr": np.arange(n) // 2, "ExpMass": 500.0 + (np.arange(n) // 2) * 0.25,
                         "score": good, "score2": good2, feature_name: rng.normal(size=n),
                         "Peptide": ["K.PEP%dK.A" % i for i in range(n)], "Proteins": ["prot%d" % (i % 7) for i in range(n)]})


def run(feature_name):
    with tempfile.TemporaryDirectory() as d:
        p = Path(d) / "x.pin"
        table(feature_name).to_csv(p, sep="\t", index=False)
        dss = mokapot.read_pin(p, max_workers=1)
        try:
            _, models, scores, _ = mokapot.brew(dss, mokapot.PercolatorModel(train_fdr=0.1, override=True, rng=1), test_fdr=0.1, folds=3, rng=1)
            if not all(m.is_trained for m in models):
                return "inconclusive: a fold model was not trained"
            return "ok: %d fold models, %d scores" % (len(models), len(scores[0]))
        except Exception as e:   # noqa
            return "%s: %s" % (type(e).__name__, e)


control = run("other")
defect = run("fold")
print("feature column called 'other':", control)
print("feature column called 'fold' :", defect)
sys.exit(1 if control.startswith("ok") and not defect.startswith("ok") else 0)
