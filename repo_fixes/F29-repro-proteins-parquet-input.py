"""C15 finding, repaired in /repo by 7b6f120: assign_confidence(proteins=...) could not process a Parquet PSM file.

The intermediate level files take the suffix of the input.  The protein table was written with DataFrame.to_csv to
'<dest_dir>/proteins.parquet' and then opened through TabularDataReader.from_path, which picks the Parquet reader
by suffix: pyarrow raised ArrowInvalid ('Parquet magic bytes not found').  The same PSMs as a tab-delimited PIN
file gave targets.proteins / decoys.proteins; without proteins= the Parquet file was processed, too.  Since 7b6f120
the protein table of a Parquet run is written with to_parquet.

Exit status 1 while the defect is present, 0 on the repaired tree (all four runs write their result files).
Run: PYTHONPATH=/repo /venv/bin/python repo_fixes/F29-repro-proteins-parquet-input.py"""
import logging
import sys
import tempfile
import warnings

warnings.simplefilter("ignore")  # noqa: E402
from pathlib import Path

import numpy as np
import pandas as pd

import mokapot
import mokapot.confidence as mconf
from mokapot.parsers.fasta import read_fasta

logging.disable(logging.CRITICAL)
mconf.peps_from_scores = lambda scores, targets, *a, **k: np.full(len(scores), 0.5)   # PEPs are beside the point
peps = ["K.AAAAK.C", "CC[+1]CCK", "EEEEK", "GGGGK", "LLLLK", "FFFFK"]
sc = [1.0, 2.0, 3.0, 2.5, 0.5, 0.25]
n = len(peps)
df = pd.DataFrame({"SpecId": ["id%d" % j for j in range(n)], "Label": [1, 1, 1, -1, -1, 1], "ScanNr": list(range(1, n + 1)),
                   "ExpMass": [100.0 + j for j in range(n)], "Peptide": peps, "Proteins": ["x"] * n, "feat": sc})
bad = 0
with tempfile.TemporaryDirectory() as d:
    d = Path(d)
    (d / "db.fasta").write_text(">P0\nAAAAKCCCCKDDDDK\n>P1\nEEEEKFFFFK\n>decoy_P0\nGGGGKHHHHKIIIIK\n>decoy_P1\nLLLLKMMMMK\n")
    prot = read_fasta(d / "db.fasta", missed_cleavages=0, min_length=3, decoy_prefix="decoy_")
    for suffix in (".pin", ".parquet"):
        for with_prot in (False, True):
            out = d / ("out" + suffix[1:] + str(with_prot))
            out.mkdir()
            path = d / ("psms" + suffix)
            if suffix == ".pin":
                df.to_csv(path, sep="\t", index=False)
            else:
                df.to_parquet(path, index=False)
            ds = mokapot.read_pin([path], max_workers=1)
            try:
                mokapot.assign_confidence(ds, scores=[np.array(sc)], dest_dir=out, prefixes=[None], decoys=True,
                                          proteins=prot if with_prot else None, rng=1, max_workers=1)
                names = sorted(p.name for p in out.glob("targets.*"))
                print(f"{suffix:9s} proteins={with_prot!s:5s}: wrote {names}")
            except Exception as e:                   # noqa
                bad += 1
                print(f"{suffix:9s} proteins={with_prot!s:5s}: {type(e).__name__}: {str(e)[:90]}")
sys.exit(1 if bad else 0)
