#!/venv/bin/python
"""C05 finding: a Parquet input whose string columns are dictionary-typed (pandas categoricals, Arrow dictionary
arrays: what many writers produce) makes brew / assign_confidence FAIL depending on the row-group layout.

pyarrow.parquet.ParquetFile.iter_batches(n) re-chunks ordinary columns across row groups (every batch but the last
has n rows) but NOT dictionary-typed ones: batches end at every row-group boundary.  mokapot zips the file chunks
with equally sized slices of the fold index (brew._predict: `psms_slice["fold"] = model_test_idx.pop(0)`) and of the
scores (confidence.create_sorted_file_iterator: `chunk_metadata.assign(score=score_chunk)`), so a batch shorter than
the chunk size raises ValueError("Length of values (..) does not match length of index (..)").

The identical table as text, as Parquet with plain string columns (any row groups), or as dictionary-typed Parquet
in ONE row group runs and gives identical scores; with row groups shorter than the file it fails.
Property C05: "... whether the identical table is supplied as tab-delimited text or as Parquet with any row-group
layout ... a run never fails or changes its answer".

Run: PYTHONPATH=/repo /venv/bin/python repo_fixes/C05-finding-parquet-dictionary-batches.py   (exit 1 = defect shows)
"""
import logging
import random
import shutil
import sys
import tempfile
import warnings
from pathlib import Path

warnings.filterwarnings("ignore")
logging.disable(logging.CRITICAL)

import numpy as np          # noqa: E402
import pandas as pd         # noqa: E402
import mokapot              # noqa: E402
import mokapot.confidence   # noqa: E402


def table(n=60, seed=3):
    rng = random.Random(seed)
    tg = [rng.random() < 0.6 for _ in range(n)]
    return pd.DataFrame({
        "SpecId": ["psm%d" % i for i in range(n)],
        "Label": [1 if t else -1 for t in tg],
        "ScanNr": [rng.randint(1, 25) for _ in range(n)],
        "ExpMass": [500 + rng.randint(0, 20) * 0.25 for _ in range(n)],
        "feat0": [rng.randint(50, 100) if t else rng.randint(0, 60) for t in tg],
        "feat1": [rng.randint(40, 100) if t else rng.randint(0, 70) for t in tg],
        "feat2": [rng.randint(0, 100) for _ in range(n)],
        "Peptide": ["K.PEP%dK.A" % rng.randint(0, 20) for _ in range(n)],
        "Proteins": ["prot%d" % rng.randint(0, 5) for _ in range(n)],
    })


def run(path, out):
    mokapot.confidence.peps_from_scores = lambda scores, targets, *a, **k: np.zeros(len(scores))
    dss = mokapot.read_pin([path], max_workers=1)
    model = mokapot.PercolatorModel(train_fdr=0.5, max_iter=2, override=True, rng=1)
    _, _, scores, descs = mokapot.brew(dss, model, test_fdr=0.5, folds=2, max_workers=1, rng=1)
    out.mkdir()
    mokapot.assign_confidence(dss, max_workers=1, scores=[np.asarray(s, dtype=float) for s in scores], descs=list(descs),
                              eval_fdr=0.5, dest_dir=out, prefixes=[None], decoys=True)
    # result rows: id, peptide, q-value (the score column passes through text: last digit may differ)
    rows = [ln.split("\t") for ln in (out / "targets.psms").read_text().split("\n")[1:] if ln]
    return [float(v) for v in scores[0]], [(r[0], r[1], r[3]) for r in rows]


def main():
    d = Path(tempfile.mkdtemp(prefix="c05pq_"))
    try:
        df = table()
        cat = df.copy()
        for c in ("SpecId", "Peptide", "Proteins"):
            cat[c] = cat[c].astype("category")
        layouts = []
        df.to_csv(d / "text.pin", sep="\t", index=False)
        layouts.append(("text", d / "text.pin"))
        df.to_parquet(d / "plain_rg7.parquet", index=False, row_group_size=7)
        layouts.append(("parquet, plain strings, row groups of 7", d / "plain_rg7.parquet"))
        cat.to_parquet(d / "dict_rg60.parquet", index=False, row_group_size=60)
        layouts.append(("parquet, dictionary strings, one row group", d / "dict_rg60.parquet"))
        cat.to_parquet(d / "dict_rg7.parquet", index=False, row_group_size=7)
        layouts.append(("parquet, dictionary strings, row groups of 7", d / "dict_rg7.parquet"))
        ref, bad = None, 0
        for k, (name, p) in enumerate(layouts):
            try:
                res = run(p, d / ("out%d" % k))
            except Exception as e:     # noqa
                print("%-45s FAILS: %s: %s" % (name, type(e).__name__, str(e)[:90]))
                bad += 1
                continue
            if ref is None:
                ref = res
            same = res == ref
            print("%-45s runs, %s" % (name, "same scores and result rows as text" if same else "DIFFERENT results"))
            bad += 0 if same else 1
        if bad:
            print("DEFECT: the outcome depends on the Parquet column encoding / row-group layout")
            return 1
        print("no defect: every layout gives the same result")
        return 0
    finally:
        shutil.rmtree(d, ignore_errors=True)


if __name__ == "__main__":
    sys.exit(main())
