"""C03 finding (not fixed): with deduplication one spectrum gets two PSM-level rows, depending on CONFIDENCE_CHUNK_SIZE.
The spectrum hash is str([values of the spectrum columns]) of rows read back from the per-chunk files.  A float-valued
spectrum column (ExpMass, ret_time) that a search engine prints without a trailing ".0" is read as an integer column in a
chunk that happens to hold only whole numbers and as a float column in the other chunks: "[1, 500]" != "[1, 500.0]".
Below, PSMs a, b, d belong to spectrum (ScanNr 1, ExpMass 500); only the best (d) may appear.
exit 1 = the defect shows, exit 0 = it does not."""
import logging, shutil, sys, tempfile
from pathlib import Path
import numpy as np, pandas as pd
logging.disable(logging.CRITICAL)
import mokapot, mokapot.confidence as conf
conf.peps_from_scores = lambda s, t, *a, **k: np.zeros(len(s))
text = ("SpecId\tLabel\tScanNr\tExpMass\tfeat\tPeptide\tProteins\n"
        "a\t1\t1\t500\t1\tPA\tx\n" "b\t1\t1\t500\t2\tPB\tx\n" "c\t-1\t2\t500.5\t3\tPC\tx\n" "d\t1\t1\t500\t4\tPD\tx\n")
rc = 0
for chunk in (1000000, 2):
    conf.CONFIDENCE_CHUNK_SIZE = chunk
    d = Path(tempfile.mkdtemp())
    try:
        (d / "a.pin").write_text(text)
        (d / "out").mkdir()
        ds = mokapot.read_pin([d / "a.pin"], max_workers=1)
        mokapot.assign_confidence(ds, max_workers=1, scores=[np.array([1.0, 2.0, 3.0, 4.0])], dest_dir=d / "out", prefixes=[None], eval_fdr=0.5)
        ids = list(pd.read_csv(d / "out" / "targets.psms", sep="\t")["PSMId"])
        print("CONFIDENCE_CHUNK_SIZE", chunk, "-> targets.psms holds", ids)
        if ids != ["d"]:
            rc = 1
    finally:
        shutil.rmtree(d)
sys.exit(rc)
