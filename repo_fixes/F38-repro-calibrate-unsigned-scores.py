"""F38 (C11): calibrate_scores computes `(scores - target_score) / (target_score - decoy_score)` in the dtype of the
scores; with unsigned-integer scores (an estimator whose decision function returns ranks / counts as uint8 .. uint64)
`scores - target_score` wraps for every score below the threshold, so the calibrated scores are no increasing affine
function of the raw scores (the worst PSMs get the highest calibrated scores).  Exit 0 when the calibrated scores of
unsigned inputs equal those of the same values as float64, 1 otherwise.
Run: PYTHONPATH=/repo /venv/bin/python -W ignore <this file>"""
import sys
import numpy as np
import pandas as pd
from mokapot.dataset import calibrate_scores

rng = np.random.default_rng(2)
n = 400
t = rng.random(n) < 0.6
s = np.where(t, rng.integers(0, 200, n), rng.integers(0, 100, n))
ref = calibrate_scores(s.astype(float), t, 0.05)
bad = 0
for dt in (np.uint8, np.uint16, np.uint32, np.uint64):
    for wrap in (np.asarray, pd.Series):
        got = np.asarray(calibrate_scores(wrap(s.astype(dt)), t, 0.05))
        if not np.array_equal(ref, got):
            bad += 1
            print(f"{dt.__name__} {wrap.__name__}: lowest calibrated score {got.min():.4g} (float64: {ref.min():.4g}); "
                  f"order preserved: {bool(np.all(np.diff(got[np.argsort(s, kind='stable')]) >= 0))}")
print("unsigned scores wrap in calibrate_scores" if bad else "unsigned scores are calibrated like their values")
sys.exit(1 if bad else 0)
