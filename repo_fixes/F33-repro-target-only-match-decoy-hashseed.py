#!/venv/bin/python
"""F33 (property C08; repaired in /repo 9b4fbd9): protein-level results with a target-only FASTA depended on PYTHONHASHSEED.

Property C08: "With a fixed seed, repeating an analysis ... in a fresh interpreter with a different hash seed yields
bit-identical ... result files (PSM, peptide and protein level)."

With a FASTA that holds no decoy proteins, picked_protein() (group_without_decoys) maps every decoy peptide to a target
peptide of the same composition through peptides.match_decoy(), which shuffles `pd.Series(proteins.peptide_map.keys())`
with the rng of the run (since ebd023e) and takes the first candidate.  The permutation is the same in every session,
but the sequence it permuted was not: read_fasta fills peptide_map protein by protein, and the peptides of ONE protein
come out of a set of strings (digest), i.e. in an order that depends on the hash seed.  When two target peptides are
anagrams of each other and their proteins have a second peptide, the candidate that ended up first - hence the protein
a decoy peptide competes with, hence the protein-level files - differed between interpreter sessions with the same rng
(in one process the result was reproducible).  9b4fbd9 sorts the candidates before the shuffle.

Run:  PYTHONPATH=/repo /venv/bin/python repo_fixes/F33-repro-target-only-match-decoy-hashseed.py
exit 1 = the defect shows (tree before 9b4fbd9: same rng, different protein tables under different hash seeds), 0 = it does not."""
import json
import os
import subprocess
import sys

CHILD = r'''
import json, logging, shutil, tempfile, warnings
from pathlib import Path
import pandas as pd
warnings.filterwarnings("ignore")
logging.disable(logging.CRITICAL)
import mokapot
from mokapot.picked_protein import picked_protein
d = Path(tempfile.mkdtemp(prefix="c08_finding_"))
try:
    # P1 and P2 carry the anagram peptides ACDEFGK / EFGACDK, each next to two other peptides; no decoys in the FASTA
    (d / "db.fasta").write_text(">P1\nACDEFGKLMNPQRHHWWK\n>P2\nEFGACDKWWYRSSTTVK\n>P3\nLMNPQSTK\n")
    P = mokapot.read_fasta(d / "db.fasta", missed_cleavages=0, min_length=3)
finally:
    shutil.rmtree(d, ignore_errors=True)
assert not P.has_decoys
peptides = pd.DataFrame({"Label": [True, True, False, True],
                         "peptide": ["ACDEFGK", "EFGACDK", "GFEDCAK", "LMNPQSTK"],      # third row: a decoy, reversed P1 peptide
                         "score": [3.0, 2.0, 2.5, 1.0]})
tables = []
for seed in range(8):
    out = picked_protein(peptides.copy(), "Label", "peptide", "score", P, rng=seed)
    tables.append(sorted(map(list, out.sort_values("score").astype(str).values.tolist())))
print("TABLES " + json.dumps(tables))
'''

seen = {}
for hs in ("0", "1", "2", "3", "4", "5"):
    env = dict(os.environ, PYTHONHASHSEED=hs)
    r = subprocess.run([sys.executable, "-W", "ignore", "-c", CHILD], env=env, stdout=subprocess.PIPE, stderr=subprocess.PIPE)
    line = [x for x in r.stdout.decode().splitlines() if x.startswith("TABLES ")]
    if not line:
        print("child failed:", r.stderr.decode()[-300:])
        sys.exit(2)
    tables = json.loads(line[0][7:])
    seen[hs] = tables
    print("PYTHONHASHSEED=%s: decoy group with rng=0..7: %s" % (
        hs, ["".join(row[0] for row in t if row[-1] == "False") or "-" for t in tables]))
ndistinct = len({json.dumps(t) for t in seen.values()})
print("distinct results (protein tables for rng=0..7) over 6 hash seeds: %d" % ndistinct)
if ndistinct > 1:
    print("DEFECT: picked_protein(..., rng=seed) with a target-only FASTA depends on PYTHONHASHSEED")
    sys.exit(1)
print("no difference seen")
sys.exit(0)
